#!/bin/bash
# every own mutant and every seeded change against the check of its property: one line each (caught / MISSED / no-apply)
cd "$(dirname "$0")/.."
run(){ patch=$1; prop=$2; name=$3
  WT=$(mktemp -d /tmp/rg.XXXXXX); rmdir $WT
  git -C /repo worktree add -q --detach $WT HEAD || { echo "$name $prop worktree-failed"; return; }
  if git -C $WT apply "$patch" 2>/dev/null; then
    out=$(VERIF_REPO=$WT timeout 1800 ./check $prop --tier quick --no-evidence --no-selftest 2>&1); rc=$?
    nsig=$(echo "$out" | grep -c "^VIOLATION")
    if [ $rc -eq 1 ]; then echo "$name $prop caught ($nsig signatures)"; else echo "$name $prop MISSED rc=$rc"; fi
  else echo "$name $prop no-apply"; fi
  git -C /repo worktree remove --force $WT
}
# usage: tools/regress_all.sh [all|seeded|mutants]   (seeded changes first: they are the independent ones)
WHAT=${1:-all}
if [ "$WHAT" != mutants ]; then
for d in seeded/*/; do n=$(basename $d); prop=$(jq -r .property $d/meta.json 2>/dev/null); [ -n "$prop" ] && run $(realpath $d/patch.diff) $prop "seeded:$n"; done
fi
if [ "$WHAT" != seeded ]; then
for p in mutants/*.patch; do n=$(basename $p .patch); run $(realpath $p) ${n%%-*} "mutant:$n"; done
fi
