#!/venv/bin/python
"""Regenerate MANIFEST.json from the table below (keeps it valid and in one place)."""
import json, os, sys
HERE = os.path.dirname(os.path.dirname(os.path.abspath(__file__)))
sys.path.insert(0, HERE)

NA = {
 "C01": "result is a pure function of (value, serializer, compression, position); nothing to schedule, delay or fail - not a simulation target",
 "C02": "gate decision is a pure function of (class shape, name, request kind); independent of interleaving, time and faults",
 "C04": "universally quantified claim about a pure decoding function of crafted input; no schedule, clock or fault in it",
 "C07": "pure function of (exception class, args, attributes, serializer, call kind); its liveness fragment is exercised inside C03/C05",
 "C19": "pure function of a string",
 "C20": "per-request verdict of single-threaded WSGI code is a function of (request, configuration); no timing, retry or partial failure in the statement",
}

CLAIMED = {
 # id: (level, technique, text, note, design_ref)
 "C18": ("exploration",
         "deterministic simulation: seeded baton scheduler with source-line pre-emption over real Pool/Worker/threadpool server, virtual clock, in-memory sockets",
         "seeded search over thread interleavings (line granularity inside Pool/Worker), job timings, pool sizes 1..3 and close() racing completions; oracle: each job/connection served exactly once or refused with reason, live workers <= THREADPOOL_SIZE, close() terminates and every worker exits; violations are minimised and replay exactly",
         "samples schedules, does not enumerate them; pre-emption only between source lines of the listed code objects; simulated Event/Lock/sockets are trusted to model threading/TCP faithfully",
         "DESIGN.md section 4 C18"),
 "C15": ("exploration",
         "deterministic simulation: seeded baton scheduler with source-line pre-emption over real NameServer/MemoryStorage/SqlStorage; linearizability check of the recorded history against a sequential map model",
         "seeded search over thread interleavings (line granularity inside NameServer and MemoryStorage; storage-call granularity on a real sqlite file) of 2-4 threads x 1-2 operations on shared names; every history (<= 8 operations, invoke/return stamped by global event number) is checked exhaustively for linearizability against a sequential map model incl. the final listing; any exception other than NamingError is an internal error",
         "samples schedules, does not enumerate them; no pre-emption inside a single source line or inside sqlite; operations are called on the NameServer object directly, not through a daemon",
         "DESIGN.md section 4 C15"),
 "C03": ("exploration",
         "deterministic simulation: real Proxy and Daemon (both server types) over in-memory sockets with a message-aware fault-injecting middlebox, virtual clock, seeded scheduler; per-call own-reply oracle via unique execution numbers",
         "seeded search over call sequences (normal, raising, one-way, batch, attribute, stream) x message-level fault scripts (request/reply lost, delayed past the timeout, cut at a byte offset + EOF/RST, reset before/after processing, duplicated, stale replay, sequence rewritten, handshake faults) x MAX_RETRIES 0..2 x 16-bit sequence wrap x serializers x fragmentation; oracle: every returned value was produced by an execution inside the call's own invoke/return interval with its own token, other outcomes are CommunicationErrors, execution counts within 1+N, one-way semantics, recovery on the call after a failed call, no failure before the first fault",
         "samples fault scripts and schedules; faults act on whole Pyro messages as parsed by the harness's own header parser; a stale reply with the current sequence number is never forged",
         "DESIGN.md section 4 C03"),
 "C17": ("exploration",
         "deterministic simulation of the socket seam: per-call scripted socket behaviours (short reads/writes, retryable and fatal errnos, timeouts, EOF) under a virtual clock; oracle derived from the socket's own log",
         "seeded search over read sizes (0..131071, around the 60000 chunk boundary), 1-4 successive reads, send buffers, and scripts of <= 12 per-call socket behaviours, with and without MSG_WAITALL, ssl-like sockets, blocking and timeout mode, directly and through SocketConnection; oracle: exact bytes and cursor on return, only Pyro ConnectionClosedError/TimeoutError otherwise, outcome matches the last executed behaviour, partialData on early EOF, termination bound",
         "samples scripts; one socket call performs exactly one scripted behaviour; retryable errno set is the harness's own list",
         "DESIGN.md section 4 C17"),
 "C05": ("exploration",
         "deterministic simulation: real Daemon (thread-pool and multiplex servers) with real witness proxies and scripted hostile raw peers over in-memory sockets; seeded scheduler interleaves hostile bytes with witness traffic; liveness checked by virtual-time deadlines",
         "seeded search over hostile scripts (structure-aware mutations of valid CONNECT/INVOKE/PING/batch/blob messages: every header field at boundary values, inconsistent length fields, oversize, bad tag/version/magic, unknown serializer/type, flag combinations, undecodable payloads, malformed annotation chunks, prefix truncations, garbage, unknown objects/members, methods raising unserialisable or otherwise nasty exceptions), sent before/after the handshake, ended by close or RST, x pool sizes 1..4 (pool-full refusal path) x COMMTIMEOUT x fragmentation x selector order x schedules; oracle: every witness call returns its own token, the request loop is alive and a fresh client is served afterwards, no worker or selector slot is stranded, no server thread died",
         "samples scripts and schedules; hostile scripts always end in close/RST; RST-on-close-with-unread-data and SSL are not modelled",
         "DESIGN.md section 4 C05"),
 "C06": ("exploration",
         "deterministic simulation of the transport seam: encoded message streams delivered through a scripted socket (fragmentation, short MSG_WAITALL, retryable errnos, truncation+EOF/RST, in-flight byte/length mutations) into the real recv_stub/ReceivingMessage; lockstep comparison with an independent reference codec",
         "seeded search over message fields at boundary values, payload sizes around the compression threshold / MAX_MESSAGE_SIZE / 60000-byte chunk, annotation sets, correlation ids, compression, MAX_MESSAGE_SIZE settings x transport fault scripts (every-offset truncation and byte-flip sweeps included) x mutated byte strings; oracle: decoded fields and consumed length equal the encoded ones (checked through to a sentinel), truncated input raises ConnectionClosedError, oversize is refused by sender and by receiver before the body is read, whatever is accepted is well-formed for the reference parser and re-encodes to an equivalent message, no hang",
         "samples inputs and fault scripts; the field-value dimension is plain seeded generation, the simulator's contribution is fragmentation, truncation, transient errors and in-flight corruption; runs without python -O",
         "DESIGN.md section 4 C06"),
 "C08": ("exploration",
         "deterministic simulation: real Daemon (both server types, configurable validateHandshake) with scripted raw peers and a legitimate Proxy over in-memory sockets; server->client direction recorded by the middlebox; execution log keyed by connection",
         "seeded search over first messages (every type, pristine or mutated header fields, any serializer id, handshake payload shapes, unknown/known objects, truncations, garbage) x 0-3 pipelined requests in the same or later writes x validator behaviours (accept, raise five exception types, return None/large/unserialisable/dict) x both server types x COMMTIMEOUT x schedules; oracle: every execution of a registered object's or the daemon object's method happened after that connection's CONNECTOK, a refused peer first receives CONNECTFAIL with a non-empty (and for validator / unknown object: the right) reason, nothing after it, connection closed, legitimate client unaffected",
         "samples; a reply is demanded only when the daemon could reach a verdict from the bytes sent and the peer stayed connected; pre-connected socket pairs are exempt by design and unused",
         "DESIGN.md section 4 C08"),
 "C12": ("exploration",
         "deterministic simulation: several real client threads/proxies against a real Daemon (thread pool with 1-2 reused workers and line pre-emption in handleRequest, or multiplex) with a recording middlebox in both directions; seeded scheduler interleaves the clients",
         "seeded search over multi-client histories (returning, raising, one-way, batch, property, ping, new handshakes; unique response annotation per call set by assignment or in-place mutation; with/without correlation ids) x server types x pool sizes x schedules; oracle: (1) the context each method observed equals its own request as the middlebox saw it (annotations, correlation id, seq, flags, serializer, connection, peer address), (2) every server->client message carries only annotations set by the call it answers (none on CONNECTOK/CONNECTFAIL/PING), (3) each client observes exactly its own reply's annotations",
         "samples histories and schedules; Daemon.annotations() not overridden; pre-emption at source lines of handleRequest/_handshake/_sendExceptionResponse/_OnewayCallThread only",
         "DESIGN.md section 4 C12"),
 "C14": ("fault_enumeration",
         "deterministic simulation of the storage seam: reference map, NameServer(MemoryStorage) and NameServer(SqlStorage on a real sqlite file) in lockstep over seeded histories; a counting/failing sqlite3 facade enumerates every statement of every mutating operation as failure point and as crash point (db+journal snapshot reopened)",
         "seeded histories over a colliding alphabet (case pairs, SQL wildcards, regex metacharacters, unicode, empty string, the name server's own entry) with three-way comparison of every result and of the full listing after every mutation and reopen; in fault configuration, for EVERY execute/commit of every mutating operation: inject OperationalError -> NamingError and no effect after reopen; crash (abandon connection, reopen copied db+journal) -> state before or after the operation, never partial",
         "histories are sampled, statement boundaries within a history are enumerated exhaustively; crash points are Python-level statement boundaries (sqlite's own journal is trusted); connect()/fetch never fail",
         "DESIGN.md section 4 C14"),
 "C13": ("exploration",
         "deterministic simulation: real Daemon (both server types, counting clientDisconnect hook, resource tracking, session instances) with raw protocol-speaking peers over in-memory sockets whose connections end at scripted byte offsets / by RST / malformed request / server timeout / SecurityError while others stay open; virtual clock for COMMTIMEOUT",
         "seeded search over 2-4 concurrent connections x ending kinds (orderly close; close or RST at any byte of a request's header, annotations or payload; malformed request; partial-request and idle timeouts; SecurityError; one-way then close; RST while idle; still open) x tracked/untracked resource counts x raising user hook / raising resource close() x server types x COMMTIMEOUT x schedules; oracle at quiescence: hook exactly once per ended accepted connection (0 while open, at most once for refused handshakes), every still-tracked resource closed exactly once and untracked ones never, session instances and tracked set dropped, server-side socket closed, no busy worker / selector key left, open connections keep answering, the request loop never ends",
         "samples endings and schedules; resources are tracked from normal calls only; RST-on-close-with-unread-data not modelled",
         "DESIGN.md section 4 C13"),
 "C10": ("exploration",
         "deterministic simulation: real Daemon (both server types, real Housekeeper thread on the virtual clock) and real Proxy/_StreamResultIterator clients; op histories replayed against a may/must reference model that uses stamped observations of housekeeping passes and disconnect handling; line pre-emption inside the stream functions",
         "seeded search over histories of open/next/close/release/reconnect/advance on 1-4 concurrent streams from 1-2 proxies x source shapes (generator/list, empty, long, raising at k) x ITER_STREAMING on/off x lifetime {0,5,20} x linger {0,3,10} x clock advances up to 30 s x server types x schedules (expiry-race shape: close/fetch at the instant of the housekeeping pass after expiry); oracle: each stream yields a gap-free duplicate-free prefix of its own source in order, ends/raises exactly as the model allows (never an item from a forgotten stream, never an error while must-be-live), reconnect within linger continues, the stream table is empty at the end, no server thread dies",
         "samples histories and schedules; client ops run sequentially across proxies; no network faults in this world (C03 covers them); expiry is demanded only after an observed housekeeping pass (may/must split)",
         "DESIGN.md section 4 C10"),
 "C09": ("exploration",
         "deterministic simulation: real Daemon (both server types) with registered classes of every instance mode x instance shape x creator behaviour, real Proxy clients in own threads; concurrent first calls released together with line pre-emption inside Daemon._getInstance/createInstance; liveness of session instances observed through weakrefs at explicit GC points",
         "seeded search over histories of 2-4 connections opening, calling, closing (release or reset), reconnecting against single/session/percall classes x shapes (truthy, falsy via __len__/__bool__, __eq__ always true/false) x creators (none, counting, failing on k-th call, wrong type) x server types x schedules; oracle: single -> one serial for all successful calls and one construction; session -> constant serial per connection, distinct across connections, instance dead after the connection ended; percall -> all serials distinct; creator invocations == instances + failed attempts, a failed attempt surfaces as an error reply to that call only",
         "samples histories and schedules; pre-emption at source lines of _getInstance only; create_single_instance_lock replaced by a counting subclass of the simulated lock",
         "DESIGN.md section 4 C09"),
 "C11": ("exploration",
         "deterministic simulation: real Daemon (both server types) and real BatchProxy/Proxy clients; the same generated call sequence runs as one batch on object A and call by call on an identical object B (executable reference), with a concurrent background client, fragmentation and seeded scheduling; one-way batches judged at quiescence",
         "seeded search over call sequences of length 0-8 (succeeding, raising, unexposed, private and missing names, kwargs, lossless-core arguments) x normal/one-way batch x second batch on the same BatchProxy x every serializer x compression x server types x concurrent/sequential execution x schedules; oracle: results equal position by position up to the first failure, the failure is the reference's exception class and args (at its position or at submission), states equal, nothing after the failure executed, one-way batch returns None and leaves the reference prefix's state",
         "reference-model refinement over sampled histories with an (almost) empty fault space; the simulator contributes multi-party execution, interleaving and quiescence; arguments stay inside the lossless core",
         "DESIGN.md section 4 C11"),
 "C16": ("exploration",
         "deterministic simulation: real Daemon (both server types) driven through histories of registry operations, with calls and return-object steps going through a real Proxy over the simulated network; explicit GC points verified through the harness's own weakrefs; table-is-truth reference model",
         "seeded search over histories (3-16 steps + a fixed epilogue that lists, calls every id ever seen and returns every pool object) of register (chosen/generated/colliding/reserved ids, force, weak; objects and classes), unregister by object/id, uriFor, proxyFor, call, return-object (serpent/json/msgpack), gc points, registered(); oracle: a call to an id is logged by exactly the modelled object or fails 'unknown object', registered() equals the model, duplicates/reserved refused unless forced, a returned object arrives as a proxy (reaching that very object) iff registered and by value otherwise, also after unregistration by object, by id or by collection",
         "samples histories; sequential (registry operations never race with calls); register(x, 'Pyro.Daemon', force=True) not generated; six known-finding signatures (forced double registration of one object, keyed by the state of the registration marks) are listed in known_findings.json",
         "DESIGN.md section 4 C16"),
}
PENDING = "claimed in DESIGN.md but its check is not built yet; see DESIGN.md section 4"
ALL = ["C%02d" % i for i in range(1, 21)]

def main():
    checks = []
    for pid in ALL:
        if pid in CLAIMED:
            level, tech, text, note, ref = CLAIMED[pid]
            checks.append({
                "property_id": pid,
                "quick_cmd": "./check %s --tier quick" % pid,
                "thorough_cmd": "./check %s --tier thorough" % pid,
                "evidence_file": "/verif/evidence/%s.json" % pid,
                "replay_cmd_template": "./check %s --replay {path}" % pid,
                "engine": "pyro5-dst",
                "level_claimed": {"category": level, "text": text, "design_ref": ref},
                "level_note": note,
                "technique": tech,
            })
    na = []
    for pid in ALL:
        if pid in CLAIMED:
            continue
        na.append({"property_id": pid, "reason": NA.get(pid, PENDING)})
    m = {
        "version": 1,
        "setup_cmd": "/venv/bin/python -c \"import sys; sys.path.insert(0, '/verif'); import sim.seams\"",
        "hooks": {
            "guard": "PYRO5_VERIF",
            "enable": "no hook is needed: every seam is a module attribute (time, threading, selectors, uuid, socketutil.create_socket, sqlite3) that the harness patches at run time; the guard name is reserved and unused",
            "baseline_off_cmd": "cd /repo && /venv/bin/python -m pytest -ra -q -p no:cacheprovider --timeout=900 --continue-on-collection-errors",
            "source_commits": [],
            "add_only": True,
        },
        "engines": [{"name": "pyro5-dst", "path": "/verif/sim", "serves_properties": sorted(CLAIMED),
                     "kind_free_text": "deterministic simulation with fault injection: real threads under a seeded baton scheduler (sys.monitoring LINE pre-emption), virtual clock, in-memory sockets/selector with message-aware middlebox, seeded plan generators, ddmin shrinker, exact replay"}],
        "checks": checks,
        "not_applicable": na,
        "notes": "Checks import Pyro5 from /repo's working tree (VERIF_REPO overrides). Exit 0 held / 1 VIOLATION / 2 harness error. known_findings.json lists fixed and known findings; findings/ holds their replay files.",
    }
    with open(os.path.join(HERE, "MANIFEST.json"), "w") as f:
        json.dump(m, f, indent=1)
    print("wrote MANIFEST.json with %d checks, %d n/a" % (len(checks), len(na)))

if __name__ == "__main__":
    main()
