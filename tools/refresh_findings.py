#!/venv/bin/python
"""tools/refresh_findings.py - for every 'known' entry of known_findings.json whose committed replay still reproduces its
signature but with another event digest (the simulation kernel changed since it was recorded), store the current digest."""
import json, os, re, subprocess, sys
V = os.path.dirname(os.path.dirname(os.path.abspath(__file__)))
kf = json.load(open(os.path.join(V, "known_findings.json")))
for k in kf["findings"]:
    if k.get("status") != "known":
        continue
    path = os.path.join(V, k["replay"])
    out = subprocess.run([os.path.join(V, "check"), k["property"], "--replay", path], capture_output=True, text=True).stdout
    m = re.search(r"digest=(\w+) expected=(\w+) (MATCH|DIFFERENT)", out)
    repro = "VIOLATION" in out or "reproduced" in out
    print(k["replay"], m.groups() if m else None)
    if m and m.group(3) == "DIFFERENT" and k["signature"].split("/", 1)[1].split("/")[0] in out:
        rep = json.load(open(path))
        rep["digest"] = m.group(1)
        json.dump(rep, open(path, "w"), indent=1, default=str)
        print("  -> digest refreshed")
