#!/venv/bin/python
"""tools/mkmutant.py <name> <repo-relative-file> <<< python-literal list of (old, new) pairs  -> mutants/<name>.patch"""
import sys, os, subprocess, tempfile, shutil, ast
name, rel = sys.argv[1], sys.argv[2]
pairs = ast.literal_eval(sys.stdin.read())
src = open(os.path.join("/repo", rel)).read()
new = src
for old, rep in pairs:
    assert new.count(old) >= 1, "pattern not found: %r" % old
    new = new.replace(old, rep, 1)
d = tempfile.mkdtemp()
try:
    a = os.path.join(d, "a", rel); b = os.path.join(d, "b", rel)
    os.makedirs(os.path.dirname(a)); os.makedirs(os.path.dirname(b))
    open(a, "w").write(src); open(b, "w").write(new)
    out = subprocess.run(["diff", "-u", "a/" + rel, "b/" + rel], cwd=d, capture_output=True, text=True).stdout
    open(os.path.join("/verif/mutants", name + ".patch"), "w").write(out)
    print("wrote mutants/%s.patch (%d lines)" % (name, len(out.splitlines())))
finally:
    shutil.rmtree(d)
