#!/bin/bash
# every claimed check in thorough tier with a small budget (starved probes -> exit 2 would show here)
cd "$(dirname "$0")/.."
B=${1:-60}
for p in $(jq -r '.checks[].property_id' MANIFEST.json); do
  out=$(VERIF_SEED=${2:-0} timeout 3600 ./check $p --tier thorough --budget $B --no-evidence 2>&1); rc=$?
  echo "rc=$rc $(echo "$out" | tail -1 | cut -c1-170)"
  echo "$out" | grep "^VIOLATION\|signature=\|HARNESS" | head -5
done
