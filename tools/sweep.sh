#!/bin/bash
# tools/sweep.sh "<seeds>" [tier]  - every claimed check under several base seeds; prints one line per run
SEEDS=${1:-"0 1 2 3"}; TIER=${2:-quick}
cd "$(dirname "$0")/.."
for p in $(jq -r '.checks[].property_id' MANIFEST.json); do
  for s in $SEEDS; do
    out=$(VERIF_SEED=$s timeout 3600 ./check $p --tier $TIER --no-evidence 2>&1); rc=$?
    echo "seed=$s rc=$rc $(echo "$out" | tail -1 | cut -c1-170)"
    echo "$out" | grep "^VIOLATION\|signature=\|HARNESS" | head -5
  done
done
