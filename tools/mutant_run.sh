#!/bin/bash
# usage: tools/mutant_run.sh <patch-file|@<commit>> <ID> [check args...]
# runs ./check <ID> against a scratch worktree of /repo with the patch applied (or at a commit); removes it afterwards
set -u
P="$1"; shift; [[ "$P" == @* ]] || P=$(realpath "$P")
WT=$(mktemp -d /tmp/wt.XXXXXX)
rmdir "$WT"
if [[ "$P" == @* ]]; then
  git -C /repo worktree add -q --detach "$WT" "${P#@}" || exit 9
else
  git -C /repo worktree add -q --detach "$WT" HEAD || exit 9
  git -C "$WT" apply "$P" || { git -C /repo worktree remove --force "$WT"; exit 9; }
fi
VERIF_REPO="$WT" /verif/check "$@" --no-evidence
RC=$?
git -C /repo worktree remove --force "$WT"
exit $RC
