#!/venv/bin/python
"""tools/seed_confirm.py <source-dir with patch.diff demo.py README.md> <seeded-name> <property> [--needs "text"]

Confirms an independently written breaking change myself, in a scratch worktree of /repo (removed afterwards):
  1. the patch applies to HEAD and the full existing test suite passes with it,
  2. demo.py fails with the patch and passes without it,
  3. what ./check <property> --tier quick says with the patch applied (exit code, signatures).
Copies patch.diff, demo.py (and README.md) to /verif/seeded/<seeded-name>/ and writes meta.json there.
"""
import json
import os
import re
import shutil
import subprocess
import sys
import tempfile
import time

src, name, prop = sys.argv[1], sys.argv[2], sys.argv[3]
needs = ""
if "--needs" in sys.argv:
    needs = sys.argv[sys.argv.index("--needs") + 1]
dst = os.path.join("/verif/seeded", name)
os.makedirs(dst, exist_ok=True)
for f in ("patch.diff", "demo.py", "README.md"):
    if os.path.exists(os.path.join(src, f)) and os.path.abspath(src) != os.path.abspath(dst):
        shutil.copy(os.path.join(src, f), os.path.join(dst, f))
patch = os.path.join(dst, "patch.diff")
demo = os.path.join(dst, "demo.py")
wt = tempfile.mkdtemp(prefix="seedwt.", dir="/tmp")
os.rmdir(wt)
env = dict(os.environ)
meta = {"property": prop, "name": name, "needs_to_manifest": needs, "confirmed_at": time.strftime("%Y-%m-%d %H:%M:%S"),
        "repo_head": subprocess.run(["git", "-C", "/repo", "rev-parse", "--short", "HEAD"], capture_output=True, text=True).stdout.strip()}


def run(cmd, cwd=None, extra=None, timeout=1800):
    e = dict(env)
    e.update(extra or {})
    t0 = time.time()
    p = subprocess.run(cmd, cwd=cwd, env=e, capture_output=True, text=True, timeout=timeout)
    return p.returncode, (p.stdout + p.stderr), time.time() - t0


try:
    subprocess.run(["git", "-C", "/repo", "worktree", "add", "-q", "--detach", wt, "HEAD"], check=True)
    rc, out, _ = run(["git", "-C", wt, "apply", patch])
    meta["patch_applies"] = rc == 0
    if rc != 0:
        meta["apply_error"] = out[-500:]
    else:
        rc, out, dt = run(["/venv/bin/python", "-m", "pytest", "-q", "-p", "no:cacheprovider", "--timeout=900"], cwd=wt,
                          extra={"PYTHONPATH": wt})
        tail = out.strip().splitlines()[-1] if out.strip() else ""
        meta["test_suite_with_patch"] = {"exit": rc, "summary": tail, "wall_s": round(dt, 1),
                                         "cmd": "cd <worktree> && PYTHONPATH=<worktree> /venv/bin/python -m pytest -q -p no:cacheprovider --timeout=900"}
        rc1, out1, _ = run(["/venv/bin/python", demo], cwd=dst, extra={"PYTHONPATH": wt}, timeout=300)
        rc0, out0, _ = run(["/venv/bin/python", demo], cwd=dst, extra={"PYTHONPATH": "/repo"}, timeout=300)
        meta["demo_with_patch"] = {"exit": rc1, "tail": out1.strip()[-300:]}
        meta["demo_without_patch"] = {"exit": rc0, "tail": out0.strip()[-300:]}
        rc, out, dt = run(["/verif/check", prop, "--tier", "quick", "--no-evidence", "--no-selftest"], cwd="/verif",
                          extra={"VERIF_REPO": wt}, timeout=1800)
        sigs = sorted(set(re.findall(r"signature=(\S+)", out)))
        meta["check_with_patch"] = {"cmd": "VERIF_REPO=<worktree with patch> ./check %s --tier quick" % prop, "exit": rc,
                                    "signatures": sigs, "summary": out.strip().splitlines()[-1][:300] if out.strip() else "",
                                    "wall_s": round(dt, 1)}
        meta["detected"] = rc == 1
finally:
    subprocess.run(["git", "-C", "/repo", "worktree", "remove", "--force", wt])
meta["confirmed"] = bool(meta.get("patch_applies") and meta.get("test_suite_with_patch", {}).get("exit") == 0
                         and meta.get("demo_with_patch", {}).get("exit", 0) != 0 and meta.get("demo_without_patch", {}).get("exit") == 0)
with open(os.path.join(dst, "meta.json"), "w") as f:
    json.dump(meta, f, indent=1)
print(json.dumps({k: meta.get(k) for k in ("name", "confirmed", "detected")}),
      meta.get("test_suite_with_patch", {}).get("summary"), meta.get("check_with_patch", {}).get("signatures"))
