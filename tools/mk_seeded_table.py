#!/venv/bin/python
"""regenerate the table between the SEEDED-TABLE markers in DESIGN.md from seeded/*/meta.json (+ seeded/NOTES.json)"""
import json, glob, os, re
rows = []
notes = {}
if os.path.exists("/verif/seeded/NOTES.json"):
    notes = json.load(open("/verif/seeded/NOTES.json"))
for f in sorted(glob.glob("/verif/seeded/*/meta.json")):
    m = json.load(open(f))
    c = m.get("check_with_patch", {})
    sigs = ", ".join(s.split("/", 1)[1] for s in c.get("signatures", [])[:4]) + (" ..." if len(c.get("signatures", [])) > 4 else "")
    rows.append("| `%s` | %s | %s | %s | %s | %s |" % (m["name"], m["property"], "yes" if m.get("confirmed") else "NO",
                "caught" if m.get("detected") else "MISSED", sigs or "-", notes.get(m["name"], "")))
tbl = "| change | checked with | confirmed | result | signatures | what it took |\n|---|---|---|---|---|---|\n" + "\n".join(rows) + "\n"
p = "/verif/DESIGN.md"
s = open(p).read()
s = re.sub(r"(<!-- SEEDED-TABLE-BEGIN -->\n).*?(<!-- SEEDED-TABLE-END -->)", lambda mo: mo.group(1) + tbl + mo.group(2), s, flags=re.S)
open(p, "w").write(s)
print(len(rows), "rows")
