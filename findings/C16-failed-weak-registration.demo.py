"""Real-code demonstration (no simulator): a register(..., weak=True) that FAILS because the object cannot be weakly
referenced used to leave its _pyroId/_pyroDaemon marks on the object. If the object was already registered (the failed
call was a forced second registration) it stayed registered and callable under its first id, but uriFor(obj) refused it
and a remote method returning it delivered a copy instead of a proxy.
Run:  PYTHONPATH=/repo /venv/bin/python C16-failed-weak-registration.demo.py   (exit 0 = property holds)"""
import sys
import threading
import Pyro5.api
import Pyro5.errors


@Pyro5.api.expose
class Thing(object):
    __slots__ = ("_pyroId", "_pyroDaemon", "n")    # no __weakref__ slot: cannot be weakly referenced

    def __init__(self):
        self.n = 0

    def bump(self):
        self.n += 1
        return self.n


@Pyro5.api.expose
class Dispenser(object):
    def __init__(self, thing):
        self.thing = thing

    def get(self):
        return self.thing


Pyro5.api.register_class_to_dict(Thing, lambda t: {"__class__": "demo.Thing", "n": t.n})
Pyro5.api.register_dict_to_class("demo.Thing", lambda cn, d: ("copy-of-thing", d["n"]))
problems = []
with Pyro5.api.Daemon() as daemon:
    thing = Thing()
    daemon.register(thing, "thing")
    disp_uri = daemon.register(Dispenser(thing), "dispenser")
    try:
        daemon.register(thing, "other", force=True, weak=True)
        problems.append("weak registration of an object without __weakref__ did not fail")
    except TypeError:
        pass
    if "other" in daemon.objectsById or "thing" not in daemon.objectsById:
        problems.append("table changed by the failed registration: %r" % sorted(daemon.objectsById))
    try:
        daemon.uriFor(thing)
    except Pyro5.errors.DaemonError as x:
        problems.append("uriFor(thing) refused although 'thing' is registered: %s" % x)
    t = threading.Thread(target=daemon.requestLoop, daemon=True)
    t.start()
    with Pyro5.api.Proxy(disp_uri) as p:
        try:
            got = p.get()
        except Exception as x:      # (serpent sends the class record of the object itself: the client refuses '__main__.Thing')
            got = "no proxy, but: %r" % x
        if not isinstance(got, Pyro5.api.Proxy):
            problems.append("registered object returned by a remote method arrived by value: %r" % (got,))
        else:
            got.bump()
            if thing.n != 1:
                problems.append("call through the returned proxy did not reach the object")
            got._pyroRelease()
    daemon.shutdown()
if problems:
    print("FAIL:", "; ".join(problems))
    sys.exit(1)
print("PASS")
