"""Real-code demonstration (no simulator): a remote method raises an application exception that cannot be serialised
(an attribute no serializer takes) and cannot be rendered either (str() of it raises an exception that is unprintable
itself). Daemon._sendExceptionResponse's fallback for unserialisable exceptions formats str(exception) -> that raises;
the multiplex server's last-resort handler formats the new exception with %s -> that raises again, out of events() and
requestLoop(): the daemon stops serving everybody.
Run:  PYTHONPATH=/repo /venv/bin/python C05-unrenderable-exception.demo.py   (exit 0 = property holds)"""
import sys
import threading
import time
import Pyro5.api as api
from Pyro5 import config


class Hopeless(Exception):
    def __init__(self, *a):
        super().__init__(*a)
        self.handle = threading.Lock()

    def __str__(self):
        raise Hopeless("again")


@api.expose
class Service(object):
    def boom(self):
        raise Hopeless("x")

    def ping(self):
        return "pong"


problems = []
for servertype in ("thread", "multiplex"):
    config.SERVERTYPE = servertype
    daemon = api.Daemon()
    uri = daemon.register(Service())
    loop = threading.Thread(target=daemon.requestLoop, daemon=True)
    loop.start()
    witness = api.Proxy(uri)
    witness._pyroTimeout = 3
    witness.ping()
    attacker = api.Proxy(uri)
    attacker._pyroTimeout = 3
    try:
        attacker.boom()
    except Exception:
        pass
    time.sleep(0.3)
    try:
        witness.ping()
    except Exception as x:
        problems.append("%s: the witness is no longer served: %s" % (servertype, type(x).__name__))
    if not loop.is_alive():
        problems.append("%s: the request loop has ended" % servertype)
    daemon.shutdown()
if problems:
    print("FAIL: " + "; ".join(problems))
    sys.exit(1)
print("PASS")
