#!/venv/bin/python
"""Known finding C05/decoder-allocation-bomb/marshal against the REAL code (no simulator):
a 26-byte INVOKE payload for the marshal serializer - the valid call ('tok','echo',['H123'],{}) with ONE flipped bit
(type code SMALL_TUPLE ')' -> TUPLE '(') - declares a 1 946 409 476-element tuple. Pyro5's daemon hands it to
marshal.loads, whose C code allocates the whole tuple up front with the GIL held (about 15 GB): every thread of the daemon
stalls for as long as that takes, or the process is killed by the OOM killer.
This demo runs the decode in a child process with a 2 GB address-space limit, so the allocation fails quickly and safely;
it prints the MemoryError, which proves the allocation attempt.  (Without the limit the child grew past 10 GB in this
sandbox before it was killed - that is what a C05 soak run of the simulator hit as a dead worker process.)"""
import subprocess, sys
child = r'''
import resource, sys
resource.setrlimit(resource.RLIMIT_AS, (2 << 30, 2 << 30))
sys.path.insert(0, "/repo")
import Pyro5.serializers as S
data = bytes.fromhex("2804da03746f6bda046563686f5b01000000da04483132337b30")
try:
    S.serializers_by_id[2].loadsCall(data)
    print("decoded?!")
except MemoryError as e:
    print("MemoryError from a %d-byte message: the decoder tried to allocate the declared tuple" % len(data))
except Exception as e:
    print("rejected cheaply:", type(e).__name__, e)
'''
out = subprocess.run([sys.executable, "-c", child], capture_output=True, text=True, timeout=120)
print(out.stdout.strip() or out.stderr.strip()[-300:])
sys.exit(0 if "MemoryError" in out.stdout else 1)
