import sys, time, threading
import Pyro5.api as api, Pyro5.errors
from Pyro5 import config
config.SERVERTYPE = "multiplex"
config.POLLTIMEOUT = 0.2
config.ITER_STREAM_LIFETIME = 0.5
config.ITER_STREAM_LINGER = 0

@api.expose
class Src:
    def gen(self):
        return iter(range(10))

master = api.Daemon(); slave = api.Daemon()
uri_m = master.register(Src(), "m"); uri_s = slave.register(Src(), "s")
master.combine(slave)
threading.Thread(target=master.requestLoop, daemon=True).start()
res = {}
for name, uri in (("master", uri_m), ("slave", uri_s)):
    with api.Proxy(uri) as p:
        it = p.gen()
        first = next(it)
        time.sleep(2.0)           # 4x the lifetime, 10 poll timeouts, nobody talks to the daemons
        try:
            res[name] = ("item", next(it))
        except Pyro5.errors.PyroError as x:
            res[name] = ("error", str(x))
print(res)
master.shutdown()
assert res["master"][0] == "error", res
assert res["slave"][0] == "error", "stream of the combined daemon outlived its lifetime: %r" % (res,)
