"""C11 known finding: a batched call that raises StopIteration does not reach the caller as that call's own exception.

One by one, `proxy.next_item()` raises the method's StopIteration.  In a batch the server wraps it correctly and the
prefix semantics are right (calls before it ran, calls after it did not), but BatchProxy hands the results out of a
GENERATOR (client.py BatchProxy.__resultsgenerator -> _ExceptionWrapper.raiseIt()): a StopIteration raised inside a
generator is turned into RuntimeError('generator raised StopIteration') by PEP 479, with next() as well as in a for loop.

Run with:  PYTHONPATH=/repo /venv/bin/python findings/C11-stopiteration-in-batch.demo.py
Exit code 1 (AssertionError) while the defect is present; real daemon on loopback, every available serializer.
"""
import sys
import threading

import Pyro5.api as api
from Pyro5 import config, serializers


@api.expose
class Feed:
    def __init__(self):
        self.items = [1, 2]
        self.calls = []

    def next_item(self):
        self.calls.append("next_item")
        if not self.items:
            raise StopIteration("feed exhausted")
        return self.items.pop(0)

    def touch(self):
        self.calls.append("touch")
        return "touched"

    def history(self):
        return list(self.calls)


def one_by_one(p, n):
    out = []
    for _ in range(n):
        try:
            out.append(("ok", p.next_item()))
        except Exception as x:   # noqa
            out.append((type(x).__module__ + "." + type(x).__name__, x.args))
            break
    return out


def batched(p, n, how):
    b = api.BatchProxy(p)
    for _ in range(n):
        b.next_item()
    b.touch()       # after the failing call: must not run
    out = []
    results = b()
    try:
        if how == "for":
            for v in results:
                out.append(("ok", v))
        else:
            while True:
                try:
                    out.append(("ok", next(results)))
                except StopIteration:
                    out.append(("generator ended", ()))     # never seen: PEP 479 applies before this
                    break
    except Exception as x:   # noqa
        out.append((type(x).__module__ + "." + type(x).__name__, x.args))
    return out


bad = []
for ser in sorted(serializers.serializers):
    config.SERIALIZER = ser
    daemon = api.Daemon(host="127.0.0.1", port=0)
    uris = [daemon.register(Feed(), "feed%d" % i) for i in range(3)]
    threading.Thread(target=daemon.requestLoop, daemon=True).start()
    with api.Proxy(uris[0]) as p:
        ref = one_by_one(p, 3)
        ref_hist = p.history()
    for uri, how in ((uris[1], "next"), (uris[2], "for")):
        with api.Proxy(uri) as p:
            got = batched(p, 3, how)
            hist = p.history()
        print("%-8s one by one: %r" % (ser, ref))
        print("%-8s batch/%-4s: %r" % (ser, how, got))
        assert hist[:3] == ref_hist[:3] == ["next_item"] * 3 and "touch" not in hist, (hist, ref_hist)   # effects are right
        if got != ref:
            bad.append((ser, how, got[-1], ref[-1]))
    daemon.shutdown()

if bad:
    for ser, how, g, r in bad:
        print("C11 VIOLATED [%s, %s]: the batch delivered %r, the same call made directly raises %r" % (ser, how, g, r))
    sys.exit(1)
print("ok: a batched StopIteration arrives as StopIteration")
