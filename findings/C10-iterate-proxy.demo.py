"""Real-code demonstration (no simulator): `for x in proxy` streams the remote object's __iter__ generator. Proxy.__iter__
wrapped the WHOLE iteration in `except AttributeError` (meant for "the remote object has no __iter__"), so an AttributeError
that the generator raises midway restarted the iteration with proxy[0], proxy[1], ...: items delivered twice, the
generator's exception lost.
Run:  PYTHONPATH=/repo /venv/bin/python C10-iterate-proxy.demo.py   (exit 0 = property holds)"""
import sys
import threading
import Pyro5.api


@Pyro5.api.expose
class Seq(object):
    def __init__(self):
        self.items = ["a", "b", "c", "d"]

    def __iter__(self):
        def g():
            yield self.items[0]
            yield self.items[1]
            raise AttributeError("boom while producing item 2")
        return g()

    def __getitem__(self, i):
        return self.items[i]

    def __len__(self):
        return len(self.items)


with Pyro5.api.Daemon() as daemon:
    uri = daemon.register(Seq())
    threading.Thread(target=daemon.requestLoop, daemon=True).start()
    got, err = [], None
    with Pyro5.api.Proxy(uri) as p:
        try:
            for x in p:
                got.append(x)
        except Exception as x:
            err = x
    daemon.shutdown()
if got == ["a", "b"] and isinstance(err, AttributeError):
    print("PASS")
    sys.exit(0)
print("FAIL: the stream delivered %r and ended with %r (expected ['a', 'b'] and the generator's AttributeError)" % (got, err))
sys.exit(1)
