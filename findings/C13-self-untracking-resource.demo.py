"""Real-code demonstration (no simulator): a tracked resource whose close() also takes itself off the connection's list
(current_context.untrack_resource(self) - an idempotent clean-up) changed the WeakSet that SocketConnection.close() was
walking: RuntimeError('Set changed size during iteration') left the other resources of that connection unclosed, and on
the multiplex server it escaped the request loop - the daemon stopped serving everybody.
Run:  PYTHONPATH=/repo /venv/bin/python C13-self-untracking-resource.demo.py   (exit 0 = property holds)"""
import sys
import threading
import time
import Pyro5.api
from Pyro5.api import current_context, config


class Resource(object):
    def __init__(self, name):
        self.name = name
        self.closed = 0

    def close(self):
        self.closed += 1
        try:
            current_context.untrack_resource(self)
        except Exception:
            pass


KEEP = []


@Pyro5.api.expose
class Service(object):
    def open(self, n):
        for i in range(n):
            r = Resource("r%d" % i)
            KEEP.append(r)
            current_context.track_resource(r)
        return n

    def ping(self):
        return "pong"


problems = []
for servertype in ("thread", "multiplex"):
    config.SERVERTYPE = servertype
    del KEEP[:]
    daemon = Pyro5.api.Daemon()
    uri = daemon.register(Service(), "svc")
    t = threading.Thread(target=daemon.requestLoop, daemon=True)
    t.start()
    with Pyro5.api.Proxy(uri) as p:
        p.open(3)
    time.sleep(0.5)
    counts = [r.closed for r in KEEP]
    if counts != [1, 1, 1]:
        problems.append("%s: resources of the ended connection were closed %r times (expected once each)" % (servertype, counts))
    try:
        with Pyro5.api.Proxy(uri) as p:
            p._pyroTimeout = 3
            p.ping()
    except Exception as x:
        problems.append("%s: the daemon no longer serves a new client: %r" % (servertype, x))
    if not t.is_alive():
        problems.append("%s: the request loop has ended" % servertype)
    daemon.shutdown()
    daemon.close()
if problems:
    print("FAIL: " + "; ".join(problems))
    sys.exit(1)
print("PASS")
