"""Real-code demonstration (no simulator): SerializerBase.class_to_dict - used whenever an object travels BY VALUE
(marshal has no auto-proxy hook) - set obj._pyroDaemon = None on the ORIGINAL object to keep the daemon out of the
serialised form. After one marshal client had fetched a registered object, that object (still registered, still
callable under its id) was sent as a copy to serpent / json / msgpack clients as well instead of as a proxy.
Run:  PYTHONPATH=/repo /venv/bin/python C16-by-value-serialisation-wipes-daemon-mark.demo.py   (exit 0 = property holds)"""
import sys
import threading
import Pyro5.api as api


@api.expose
class Item(object):
    def __init__(self):
        self.n = 0

    def bump(self):
        self.n += 1
        return self.n


@api.expose
class Dispenser(object):
    def __init__(self, item):
        self.item = item

    def give(self):
        return self.item


api.register_dict_to_class("demo.Item", lambda cn, d: ("copy-of-item", d.get("n")))
Item.__module__ = "demo"        # (class tags with a double underscore are refused by the client)
daemon = api.Daemon()
item = Item()
daemon.register(item, "item")
uri = daemon.register(Dispenser(item), "dispenser")
threading.Thread(target=daemon.requestLoop, daemon=True).start()


def fetch(ser):
    with api.Proxy(uri) as p:
        p._pyroSerializer = ser
        r = p.give()
        if isinstance(r, api.Proxy):
            r._pyroSerializer = ser
            n = r.bump()
            r._pyroRelease()
            return "proxy (bump -> %d)" % n
        return "by value: %r" % (r,)


seen = [("serpent", fetch("serpent")), ("marshal", fetch("marshal")), ("serpent", fetch("serpent")), ("json", fetch("json")), ("msgpack", fetch("msgpack"))]
daemon.shutdown()
bad = [(s, r) for s, r in seen if s != "marshal" and not r.startswith("proxy")]
if bad or item._pyroDaemon is not daemon:
    print("FAIL: %r; the object's daemon mark is %r" % (seen, item._pyroDaemon))
    sys.exit(1)
print("PASS", seen)
