"""C18: a connection whose served method ends with SystemExit (sys.exit() in an exposed method) killed its worker thread
without handing the slot back: the dead worker stayed in Pool.busy for ever. With THREADPOOL_SIZE=2 two such calls leave
a daemon that refuses every later connection with "no free workers" although no worker is busy.
Run: PYTHONPATH=<tree> python C18-job-ends-with-systemexit.demo.py   (exit 0 = fine, 1 = defect shown)"""
import sys
import threading
import time
import Pyro5.api as api
import Pyro5.errors
from Pyro5 import config

config.SERVERTYPE = "thread"
config.THREADPOOL_SIZE = 2
config.THREADPOOL_SIZE_MIN = 1


@api.expose
class Svc:
    def quit(self):
        sys.exit(0)

    def ping(self):
        return "pong"


d = api.Daemon(host="127.0.0.1", port=0)
uri = d.register(Svc(), "svc")
threading.Thread(target=d.requestLoop, daemon=True).start()
for _ in range(2):
    with api.Proxy(uri) as p:
        try:
            p.quit()
        except Pyro5.errors.CommunicationError:
            pass        # the connection ends: fine
time.sleep(0.5)
pool = d.transportServer.pool
print("pool: %d busy, %d idle" % (len(pool.busy), len(pool.idle)))
bad = []
for i in range(3):
    try:
        with api.Proxy(uri) as p:
            p._pyroTimeout = 3
            assert p.ping() == "pong"
    except Exception as x:  # noqa
        bad.append("later client %d: %s: %s" % (i, type(x).__name__, x))
d.shutdown()
if bad or pool.busy:
    print("FAIL:", "; ".join(bad) or "%d workers busy with no connection open" % len(pool.busy))
    sys.exit(1)
print("PASS")
