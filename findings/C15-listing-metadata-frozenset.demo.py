"""Real-code demonstration: a name server listing with metadata fails for json/msgpack clients when an entry was registered
without metadata (MemoryStorage keeps frozenset() for it; the json and msgpack serializers only know set)."""
import threading
import Pyro5.api as api, Pyro5.nameserver, Pyro5.errors
from Pyro5 import config
bad = []
for ser in ("serpent", "marshal", "json", "msgpack"):
    config.SERIALIZER = ser
    uri, daemon, _ = Pyro5.nameserver.start_ns(host="localhost", port=0, enableBroadcast=False)
    threading.Thread(target=daemon.requestLoop, daemon=True).start()
    with api.Proxy(uri) as ns:
        ns.register("plain", "PYRO:obj@localhost:1")          # no metadata
        try:
            r = ns.list(prefix="pl", return_metadata=True)
            print(ser, "ok", r)
        except Exception as x:
            print(ser, "FAILED", type(x).__name__, str(x)[:100])
            bad.append(ser)
    daemon.shutdown()
assert not bad, "listing with metadata failed for %s" % bad
