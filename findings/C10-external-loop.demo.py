"""Real-code demonstration (loopback sockets): a multiplex daemon driven from the application's own event loop
(Daemon.events) serves an item from a stream that outlived ITER_STREAM_LIFETIME. Fails before /repo fd0231d."""
import select, threading, time
import Pyro5.api as api, Pyro5.errors
from Pyro5 import config
config.SERVERTYPE = "multiplex"
config.ITER_STREAM_LIFETIME = 0.5
config.ITER_STREAM_LINGER = 0


@api.expose
class Src:
    def gen(self):
        return iter(range(10))


d = api.Daemon()
uri = d.register(Src(), "s")
stop = False


def loop():
    while not stop:
        rs, _, _ = select.select(d.sockets, [], [], 0.2)
        if rs:
            d.events(rs)


threading.Thread(target=loop, daemon=True).start()
with api.Proxy(uri) as p:
    it = p.gen()
    next(it)
    time.sleep(2.0)
    try:
        res = ("item", next(it))
    except Pyro5.errors.PyroError as x:
        res = ("error", str(x))
stop = True
print(res)
assert res[0] == "error", "stream outlived its lifetime under an external event loop: %r" % (res,)
