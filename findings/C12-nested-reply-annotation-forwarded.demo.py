"""Real-code demonstration (no simulator) of a KNOWN finding: a remote method that itself calls another Pyro object
(gateway pattern) passes the annotations of the INNER reply on to its own caller. The serving thread's call context is
also the context of the client calls that thread makes: Proxy._pyroInvoke stores the inner reply's annotations in
current_context.response_annotations, and the daemon sends whatever is there with the outer reply. An annotation that
the outer method set before its nested call is lost as well.
Run:  PYTHONPATH=/repo /venv/bin/python C12-nested-reply-annotation-forwarded.demo.py   (exit 0 = property holds)"""
import sys
import threading
import Pyro5.api as api
from Pyro5.api import current_context as cc


@api.expose
class Back(object):
    def inner(self):
        cc.response_annotations = {"INNR": b"set-by-inner-for-its-own-reply"}
        return "inner"


@api.expose
class Front(object):
    def __init__(self, uri):
        self.uri = uri

    def outer(self):
        cc.response_annotations = {"OUTR": b"set-by-outer"}
        with api.Proxy(self.uri) as p:
            return "outer+" + p.inner()


d2 = api.Daemon()
back_uri = d2.register(Back())
threading.Thread(target=d2.requestLoop, daemon=True).start()
d1 = api.Daemon()
front_uri = d1.register(Front(back_uri))
threading.Thread(target=d1.requestLoop, daemon=True).start()
with api.Proxy(front_uri) as p:
    p.outer()
    seen = {k: bytes(v) for k, v in cc.response_annotations.items()}
d1.shutdown()
d2.shutdown()
if "INNR" in seen:
    print("FAIL: the reply to outer() carried %r: the annotation of the inner call's reply was sent to outer()'s caller" % seen)
    sys.exit(1)
print("PASS", seen)
