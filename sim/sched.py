"""Deterministic baton scheduler for real threads + virtual clock.

Exactly one simulated thread runs at any instant; every other one is parked on its
own real semaphore.  All decisions (who runs next, pre-emptions at source lines,
clock jumps) are a pure function of the schedule spec:

    {"mode": "random", "seed": int, "p_line": float, "p_block": float}
    {"mode": "replay", "choices": [[thread_idx, thread_yield_ordinal, chosen_idx], ...]}

In random mode every non-default decision is recorded in ``Sched.choices`` in the
replay format, so a random run can be turned into its explicit sparse schedule.
"""
import sys
import threading
import random
import hashlib
import heapq

EPOCH = 1_700_000_000.0
SLOW_STEP_CPU_S = 1.5          # CPU seconds (thread_time) one step of a simulated thread may burn before it is recorded as a stall
_thread_time = __import__("time").thread_time
STALLS = (0.001, 0.02, 0.15, 0.5, 2.0)

_real_start = threading.Thread.start
_real_join = threading.Thread.join
_RealSem = threading.Semaphore
_get_ident = threading.get_ident


class SimKill(BaseException):
    """raised inside parked simulated threads at the end of a run"""


class Deadlock(Exception):
    pass


class StepCap(Exception):
    pass


class HarnessError(Exception):
    pass


class BusyLoop(BaseException):
    """injected by the wall-clock monitor into a simulated thread that ran for many real seconds without reaching
    any yield point: the code under test is spinning"""


class SimThread:
    __slots__ = ("idx", "name", "sem", "state", "pred", "deadline", "timed_out", "real",
                 "ord", "died", "settling", "why", "t_resume")

    def __init__(self, idx, name):
        self.idx = idx
        self.name = name
        self.sem = _RealSem(0)
        self.state = "runnable"  # runnable | blocked | done
        self.pred = None
        self.deadline = None
        self.timed_out = False
        self.t_resume = None
        self.real = None
        self.ord = 0
        self.died = None        # (exception class name, message, innermost Pyro5 frame) if run() raised
        self.settling = False
        self.why = ""


class Sched:
    def __init__(self, spec, max_steps=300000):
        self.spec = spec
        self.mode = spec.get("mode", "random")
        if self.mode == "random":
            self.rng = random.Random(spec.get("seed", 0))
            self.p_line = float(spec.get("p_line", 0.0))
            self.p_block = float(spec.get("p_block", 0.0))
            self.p_stall = float(spec.get("p_stall", 0.0))
            self.replay = None
        else:
            self.rng = None
            self.p_line = self.p_block = self.p_stall = 0.0
            self.replay = {(c[0], c[1]): (c[2] if c[2] != -1 else ("stall", c[3])) for c in spec.get("choices", [])}
        self.choices = []          # recorded non-default decisions [tidx, ord, chosen]
        self.threads = []
        self.by_ident = {}
        self.cur = None
        self.now = EPOCH
        self.steps = 0
        self.max_steps = max_steps
        self._log = hashlib.sha256()
        self._slog = hashlib.sha256()
        self.nlog = 0
        self.killing = False
        self.switches = 0
        self.preempts = 0
        self.clock_jumps = 0
        self.timers = []
        self.tseq = 0
        self.pending_exc = None
        self.deaths = []           # threads whose run() raised
        self.busy_loops = []       # (thread name, innermost Pyro5 frame) noted by the monitor when it breaks a busy loop
        self.trace = None          # optional list of readable events (replay / debugging)
        self.line_hits = 0
        self.wall_steps = []        # [[virtual seconds since start, step forward in seconds], ...] applied to time() only
        self.slow_steps = []        # (thread name, CPU seconds, kind of the yield that ended the step)
        self.stalls = 0
        self.inst_steps = {}

    # ------------------------------------------------------------------ log
    def ev(self, *a):
        """record an event in the run digest (must be free of ids, addresses, hash order)"""
        if self.killing:
            return      # teardown: parked threads unwind concurrently, nothing they do belongs to the run
        self.nlog += 1
        r = repr(a).encode()
        self._log.update(r)
        if self.trace is not None:
            self.trace.append((self.nlog, round(self.now - EPOCH, 6)) + a)

    def sev(self, *a):
        """event that also goes into the interleaving digest"""
        if self.killing:
            return
        self._slog.update(repr(a).encode())
        self.ev(*a)

    def stamp(self):
        """global event sequence number (strictly increasing)"""
        self.nlog += 1
        return self.nlog

    def digest(self):
        return self._log.hexdigest()[:24]

    def sched_digest(self):
        return self._slog.hexdigest()[:24]

    # ------------------------------------------------------------ threads
    def me(self):
        return self.by_ident.get(_get_ident())

    def in_sim(self):
        t = self.by_ident.get(_get_ident())
        return t is not None and not self.killing

    def adopt_main(self, name="driver"):
        t = SimThread(0, name)
        t.real = threading.current_thread()
        self.threads.append(t)
        self.by_ident[_get_ident()] = t
        self.cur = t
        return t

    start_fail = None       # {thread-name prefix: [ordinals of start() calls that fail]} - set by a world
    start_counts = None

    def spawn(self, thread_obj):
        """called in the parent's context from the patched Thread.start()"""
        t = SimThread(len(self.threads), _clean_name(thread_obj))
        t.real = thread_obj
        self.threads.append(t)
        self.sev("spawn", self.cur.idx, t.idx, t.name)
        orig_run = thread_obj.run
        sched = self

        def run():
            sched.by_ident[_get_ident()] = t
            t.sem.acquire()  # wait for the baton
            try:
                if sched.killing:
                    return
                orig_run()
            except SimKill:
                pass
            except BaseException as x:  # noqa - thread death is an observation
                if not sched.killing:
                    try:
                        text = str(x)[:200]
                    except BaseException:  # noqa - an exception of the workload that cannot be rendered
                        text = "<cannot be rendered>"
                    t.died = (type(x).__name__, text, _pyro_frame(x))
                    sched.deaths.append(t)
                    sched.ev("died", t.idx, type(x).__name__)
            finally:
                t.state = "done"
                if not sched.killing:
                    sched.sev("exit", t.idx)
                    try:
                        sched._handoff(t, must_leave=True, kind="exit")
                    except SimKill:
                        pass

        thread_obj.run = run
        _real_start(thread_obj)
        self.yield_point("spawn")
        return t

    def sim_thread_of(self, thread_obj):
        for x in self.threads:
            if x.real is thread_obj:
                return x
        return None

    # ------------------------------------------------------------ timers
    def call_at(self, when, fn, tag=""):
        self.tseq += 1
        heapq.heappush(self.timers, (when, self.tseq, tag, fn))

    def call_later(self, delay, fn, tag=""):
        self.call_at(self.now + delay, fn, tag)

    def _fire(self):
        while self.timers and self.timers[0][0] <= self.now:
            w, q, tag, fn = heapq.heappop(self.timers)
            self.ev("timer", q, tag)
            fn()

    # ------------------------------------------------------------ picking
    def _is_ready(self, t):
        if t.state == "runnable":
            return True
        if t.state == "blocked":
            if t.pred is not None and t.pred():
                return True
            if t.deadline is not None and t.deadline <= self.now:
                return True
        return False

    def _runnable(self):
        r = []
        settlers = []
        for t in self.threads:
            if t.settling and t.state == "blocked":
                settlers.append(t)
                continue
            if self._is_ready(t):
                r.append(t)
        if not r and settlers:
            # a settling thread becomes runnable only when nobody else is (at this virtual instant)
            if not (self.timers and self.timers[0][0] <= self.now):
                return [settlers[0]]
        else:
            for t in settlers:
                if t.deadline is not None and t.deadline <= self.now:
                    r.append(t)
            r.sort(key=lambda x: x.idx)
        return r

    def _pick(self, me, must_leave, kind):
        while True:
            self._fire()
            r = self._runnable()
            if r:
                break
            dls = [t.deadline for t in self.threads if t.state == "blocked" and t.deadline is not None]
            if self.timers:
                dls.append(self.timers[0][0])
            if not dls:
                raise Deadlock("no runnable thread and no deadline: " + ", ".join(
                    "%d:%s:%s:%s" % (t.idx, t.name, t.state, t.why) for t in self.threads if t.state != "done"))
            nxt = min(dls)
            if nxt > self.now:
                self.now = nxt
                self.clock_jumps += 1
                self.inst_steps = {}
                self.ev("clock", round(self.now - EPOCH, 6))
        return self._decide(me, r, must_leave, kind)

    def _decide(self, me, r, must_leave, kind):
        me.ord += 1
        if not must_leave and me in r:
            default = me
        else:
            default = r[0]
        if len(r) == 1:
            return default
        if self.replay is not None:
            c = self.replay.get((me.idx, me.ord))
            if c is not None and not isinstance(c, tuple):
                for t in r:
                    if t.idx == c:
                        if t is not default:
                            self.choices.append([me.idx, me.ord, c])
                        return t
            return default
        p = self.p_line if kind == "line" else self.p_block
        if p and self.rng.random() < p:
            others = [t for t in r if t is not default]
            ch = others[self.rng.randrange(len(others))]
            self.choices.append([me.idx, me.ord, ch.idx])
            return ch
        return default

    def dominant_thread(self):
        """(name, steps) of the thread that took most scheduler steps since the virtual clock last moved"""
        if not self.inst_steps:
            return None
        idx = max(self.inst_steps, key=lambda k: self.inst_steps[k])
        return (self.threads[idx].name, self.inst_steps[idx])

    def _handoff(self, me, must_leave=False, kind="block"):
        self.steps += 1
        self.inst_steps[me.idx] = self.inst_steps.get(me.idx, 0) + 1
        cpu = _thread_time()
        t_res = getattr(me, "t_resume", None)
        if t_res is not None and cpu - t_res > SLOW_STEP_CPU_S and not self.killing:
            # one step (between two yield points) of this thread burnt that much CPU time of its own: on the virtual clock it
            # took no time at all, in a real process everything else stood still for it (GIL)
            self.slow_steps.append((me.name, round(cpu - t_res, 1), kind))
        if self.steps > self.max_steps:
            self._fail(StepCap("step cap %d reached" % self.max_steps))
            nxt = self.threads[0]
        else:
            try:
                nxt = self._pick(me, must_leave, kind)
            except Deadlock as d:
                self._fail(d)
                nxt = self.threads[0]
        if nxt is me:
            self._wake(me)
            me.t_resume = _thread_time()
            return
        self.switches += 1
        self.sev("sw", me.idx, nxt.idx)
        self.cur = nxt
        nxt.sem.release()
        if not must_leave:
            me.sem.acquire()
            if self.killing and me.idx != 0:
                raise SimKill()
            self._wake(me)
            me.t_resume = _thread_time()

    def _fail(self, exc):
        """wake the driver with an exception (deadlock / step cap)"""
        if self.pending_exc is None:
            self.pending_exc = exc
        t0 = self.threads[0]
        if t0.state != "done":
            t0.state = "runnable"
            t0.pred = None
            t0.deadline = None
            t0.settling = False

    def _wake(self, me):
        if me.state == "blocked":
            me.timed_out = not (me.pred is not None and me.pred())
            if me.settling:
                me.timed_out = bool(me.deadline is not None and me.deadline <= self.now and self._others_ready(me))
            me.state = "runnable"
            me.pred = None
            me.deadline = None
            me.settling = False
        if me.idx == 0 and self.pending_exc is not None:
            e, self.pending_exc = self.pending_exc, None
            raise e

    def _others_ready(self, me):
        return any(self._is_ready(t) for t in self.threads if t is not me and not t.settling)

    # ------------------------------------------------------------ API used by primitives
    def yield_point(self, why=""):
        me = self.by_ident.get(_get_ident())
        if me is None or me is not self.cur or self.killing:
            return
        self._handoff(me, kind="block")

    def block(self, pred, timeout=None, why=""):
        """block the current simulated thread until pred() or the virtual timeout.
        Returns True if pred was satisfied, False on timeout."""
        me = self.by_ident.get(_get_ident())
        if self.killing:
            if me is not None and me.idx != 0:
                raise SimKill()
            return False
        if me is None or me is not self.cur:
            raise HarnessError("block() from a thread that does not hold the baton (%r)" % (why,))
        me.state = "blocked"
        me.pred = pred
        me.why = why
        me.deadline = None if timeout is None else self.now + max(0.0, timeout)
        self._handoff(me, kind="block")
        return not me.timed_out

    def sleep(self, d):
        self.block(None, max(d, 0.0), "sleep")

    def settle(self, max_virtual=None):
        """driver only: block until no other thread is runnable at the current virtual instant.
        Returns False if max_virtual seconds passed first."""
        me = self.by_ident.get(_get_ident())
        if self.killing:
            return False
        assert me is self.cur
        me.state = "blocked"
        me.pred = None
        me.settling = True
        me.why = "settle"
        me.deadline = None if max_virtual is None else self.now + max_virtual
        self._handoff(me, kind="block")
        return not me.timed_out

    def any_stalled(self):
        return any(t.state == "blocked" and t.why == "stall" for t in self.threads)

    def quiesce(self, step=2.5, rounds=60):
        """driver: settle, and keep waiting while some thread is serving an injected stall"""
        for _ in range(rounds):
            self.settle(5.0)
            if not self.any_stalled():
                return True
            self.sleep(step)
        return False

    def line_event(self, code, line):
        me = self.by_ident.get(_get_ident())
        if me is None or me is not self.cur or self.killing:
            return
        self.line_hits += 1
        if self.replay is not None:
            c = self.replay.get((me.idx, me.ord + 1))
            if c is None:
                me.ord += 1
                return
            if isinstance(c, tuple):
                me.ord += 1
                self._stall(me, code, line, c[1])
                return
        elif not self.p_line and not self.p_stall:
            me.ord += 1
            return
        else:
            r = self.rng.random()
            if r >= self.p_line:
                me.ord += 1
                if r < self.p_line + self.p_stall:
                    # a slow / stalled thread: it stops here for a while although it is runnable
                    dur = self.rng.choice(STALLS)
                    self.choices.append([me.idx, me.ord, -1, dur])
                    self._stall(me, code, line, dur)
                return
        # a pre-emption is wanted here: pick among the other runnable threads
        self.steps += 1
        self._fire()
        r = self._runnable()
        me.ord += 1
        others = [t for t in r if t is not me]
        if not others:
            return
        if self.replay is not None:
            c = self.replay.get((me.idx, me.ord))
            ch = next((t for t in others if t.idx == c), None) if not isinstance(c, tuple) else None
            if ch is None:
                return
        else:
            ch = others[self.rng.randrange(len(others))]
        self.choices.append([me.idx, me.ord, ch.idx])
        self.preempts += 1
        self.sev("pre", me.idx, code.co_name, line, ch.idx)
        self.switches += 1
        self.cur = ch
        ch.sem.release()
        me.sem.acquire()
        if self.killing and me.idx != 0:
            raise SimKill()
        self._wake(me)

    def _stall(self, me, code, line, dur):
        self.stalls += 1
        self.sev("stall", me.idx, code.co_name, line, dur)
        self.block(None, dur, "stall")

    def tick(self):
        """cheap progress counter for calls that never block (time.time())"""
        self.steps += 1
        if self.steps > self.max_steps and not self.killing:
            me = self.by_ident.get(_get_ident())
            if me is not None and me is self.cur:
                if me.idx == 0:
                    raise StepCap("step cap %d reached (busy loop?)" % self.max_steps)
                self._handoff(me, kind="block")

    # ------------------------------------------------------------ end of run
    def kill_all(self):
        self.killing = True
        leaked = []
        for t in self.threads[1:]:
            if t.state != "done":
                t.sem.release()
        for t in self.threads[1:]:
            _real_join(t.real, 5)
            if t.real.is_alive():
                leaked.append(t.name)
        return leaked

    def dispose(self):
        """end of run, after kill_all(): let go of everything that belongs to the run's world (thread objects, the predicates of
        threads that were killed while blocked - closures over sockets, queues, locks -, timers). What is left is plain data
        (digests, counters, choices): whoever drops the last reference to this scheduler, wherever, finalises nothing."""
        for t in self.threads:
            t.pred = None
            t.real = None
        self.timers = []
        self.by_ident = {}
        self.cur = None
        self.replay = None

    def alive_threads(self):
        return [t for t in self.threads if t.state != "done"]


def _clean_name(thread_obj):
    n = type(thread_obj).__name__
    nm = thread_obj.name or ""
    if nm.startswith("Thread-") or nm.startswith("Pyro-Worker-") or not nm:
        return n
    return nm


def _pyro_frame(exc):
    tb = exc.__traceback__
    last = None
    while tb is not None:
        fn = tb.tb_frame.f_code.co_filename
        if "/Pyro5/" in fn:
            last = "%s:%s" % (fn.rsplit("/", 1)[-1], tb.tb_frame.f_code.co_name)
        tb = tb.tb_next
    return last


# ---------------------------------------------------------------- primitives
class SimEvent:
    def __init__(self, sched):
        self._s = sched
        self._flag = False

    def is_set(self):
        return self._flag

    isSet = is_set

    def set(self):
        self._flag = True
        self._s.yield_point("ev.set")

    def clear(self):
        self._flag = False

    def wait(self, timeout=None):
        if self._flag:
            self._s.yield_point("ev.wait")
            return True
        self._s.block(lambda: self._flag, timeout, "ev.wait")
        return self._flag


class SimLock:
    def __init__(self, sched, reentrant=False):
        self._s = sched
        self._owner = None
        self._count = 0
        self._re = reentrant

    def acquire(self, blocking=True, timeout=-1):
        s = self._s
        me = s.me()
        if s.killing or me is None:
            return True
        if self._re and self._owner is me:
            self._count += 1
            return True
        s.yield_point("lk.acq")
        if self._owner is not None:
            if not blocking:
                return False
            ok = s.block(lambda: self._owner is None, None if timeout in (-1, None) else timeout, "lk.acq")
            if not ok:
                return False
        self._owner = me
        self._count = 1
        return True

    def release(self):
        if self._s.killing:
            return
        me = self._s.me()
        if me is not None:
            # as the real primitives: a plain lock may be released by any thread but not when it is free; a re-entrant one only
            # by its owner
            if self._re:
                if self._owner is not me:
                    raise RuntimeError("cannot release un-acquired lock")
            elif self._owner is None:
                raise RuntimeError("release unlocked lock")
        self._count -= 1
        if self._count <= 0:
            self._count = 0
            self._owner = None
            self._s.yield_point("lk.rel")

    def __enter__(self):
        self.acquire()
        return self

    def __exit__(self, *a):
        self.release()

    def locked(self):
        return self._owner is not None


class SimCondition:
    """threading.Condition over a simulated lock: wait() is a scheduler block, notify() a yield point"""

    def __init__(self, sched, lock=None):
        self._s = sched
        if lock is None:
            lock = SimLock(sched, True)
        if not isinstance(lock, SimLock):
            raise HarnessError("Condition over a lock the simulator does not own: %r" % (lock,))
        self._lock = lock
        self.acquire = lock.acquire
        self.release = lock.release
        self._waiters = []

    def __enter__(self):
        self._lock.acquire()
        return self

    def __exit__(self, *a):
        self._lock.release()

    def wait(self, timeout=None):
        s = self._s
        me = s.me()
        if s.killing or me is None:
            return True
        lk = self._lock
        if lk._owner is not me:
            raise RuntimeError("cannot wait on un-acquired lock")
        saved = lk._count
        lk._count = 0
        lk._owner = None
        ticket = [False]
        self._waiters.append(ticket)
        ok = s.block(lambda: ticket[0], timeout, "cv.wait")
        if not ok and ticket in self._waiters:
            self._waiters.remove(ticket)
        if lk._owner is not None:
            s.block(lambda: lk._owner is None, None, "cv.reacq")
        lk._owner = me
        lk._count = saved
        return ok or ticket[0]

    def wait_for(self, predicate, timeout=None):
        end = None if timeout is None else self._s.now + timeout
        r = predicate()
        while not r:
            left = None
            if end is not None:
                left = end - self._s.now
                if left <= 0:
                    break
            self.wait(left)
            r = predicate()
        return r

    def notify(self, n=1):
        me = self._s.me()
        if not self._s.killing and me is not None and self._lock._owner is not me:
            raise RuntimeError("cannot notify on un-acquired lock")
        for ticket in self._waiters[:n]:
            ticket[0] = True
        del self._waiters[:n]
        self._s.yield_point("cv.notify")

    def notify_all(self):
        self.notify(len(self._waiters))

    notifyAll = notify_all


class SimSemaphore:
    def __init__(self, sched, value=1, bounded=False):
        if value < 0:
            raise ValueError("semaphore initial value must be >= 0")
        self._s = sched
        self._value = value
        self._bound = value if bounded else None

    def acquire(self, blocking=True, timeout=None):
        s = self._s
        if s.killing or s.me() is None:
            return True
        s.yield_point("sem.acq")
        if self._value <= 0:
            if not blocking:
                return False
            if not s.block(lambda: self._value > 0, timeout, "sem.acq"):
                return False
        self._value -= 1
        return True

    __enter__ = acquire

    def release(self, n=1):
        if self._bound is not None and self._value + n > self._bound:
            raise ValueError("Semaphore released too many times")
        self._value += n
        if not self._s.killing:
            self._s.yield_point("sem.rel")

    def __exit__(self, *a):
        self.release()


class SimQueue:
    """queue.Queue / LifoQueue / PriorityQueue / SimpleQueue on the scheduler (the stdlib classes block in real locks)"""

    def __init__(self, sched, maxsize=0, kind="fifo"):
        import collections
        self._s = sched
        self.maxsize = maxsize
        self._kind = kind
        self._q = [] if kind == "prio" else collections.deque()
        self.unfinished_tasks = 0

    def qsize(self):
        return len(self._q)

    def empty(self):
        return not self._q

    def full(self):
        return 0 < self.maxsize <= len(self._q)

    def _put(self, item):
        if self._kind == "prio":
            import heapq
            heapq.heappush(self._q, item)
        else:
            self._q.append(item)

    def _get(self):
        if self._kind == "prio":
            import heapq
            return heapq.heappop(self._q)
        if self._kind == "lifo":
            return self._q.pop()
        return self._q.popleft()

    def put(self, item, block=True, timeout=None):
        import queue
        s = self._s
        if not (s.killing or s.me() is None):
            s.yield_point("q.put")
            if self.full():
                if not block:
                    raise queue.Full
                if not s.block(lambda: not self.full(), timeout, "q.put"):
                    raise queue.Full
        self._put(item)
        self.unfinished_tasks += 1

    def put_nowait(self, item):
        return self.put(item, block=False)

    def get(self, block=True, timeout=None):
        import queue
        s = self._s
        if not (s.killing or s.me() is None):
            s.yield_point("q.get")
            if not self._q:
                if not block:
                    raise queue.Empty
                if not s.block(lambda: bool(self._q), timeout, "q.get"):
                    raise queue.Empty
        elif not self._q:
            raise queue.Empty
        return self._get()

    def get_nowait(self):
        return self.get(block=False)

    def task_done(self):
        if self.unfinished_tasks <= 0:
            raise ValueError("task_done() called too many times")
        self.unfinished_tasks -= 1
        if not self._s.killing:
            self._s.yield_point("q.done")

    def join(self):
        s = self._s
        if s.killing or s.me() is None:
            return
        if self.unfinished_tasks:
            s.block(lambda: self.unfinished_tasks == 0, None, "q.join")


class QueueFacade:
    """stands in for the ``queue`` module attribute of Pyro5 modules"""

    def __init__(self, sched):
        import queue
        self._s = sched
        self.Empty = queue.Empty
        self.Full = queue.Full

    def Queue(self, maxsize=0):
        return SimQueue(self._s, maxsize)

    def LifoQueue(self, maxsize=0):
        return SimQueue(self._s, maxsize, "lifo")

    def PriorityQueue(self, maxsize=0):
        return SimQueue(self._s, maxsize, "prio")

    def SimpleQueue(self):
        return SimQueue(self._s, 0)


def _make_timer(sched):
    class SimTimer(threading.Thread):
        """threading.Timer on the virtual clock (Thread.start is patched: it becomes a simulated thread)"""

        def __init__(self, interval, function, args=None, kwargs=None):
            threading.Thread.__init__(self)
            self.interval = interval
            self.function = function
            self.args = args if args is not None else []
            self.kwargs = kwargs if kwargs is not None else {}
            self.finished = SimEvent(sched)

        def cancel(self):
            self.finished.set()

        def run(self):
            self.finished.wait(self.interval)
            if not self.finished.is_set():
                self.function(*self.args, **self.kwargs)
            self.finished.set()
    return SimTimer


class ThreadingFacade:
    """stands in for the ``threading`` module attribute of Pyro5 modules: every blocking primitive is a simulated one
    (a real one would park a thread that holds the baton: nobody could ever run again)"""

    _UNSUPPORTED = ("Barrier",)

    def __init__(self, sched):
        self._s = sched
        self.Timer = _make_timer(sched)

    def __getattr__(self, n):
        if n in self._UNSUPPORTED:
            raise HarnessError("threading.%s has no simulated counterpart" % n)
        return getattr(threading, n)

    def Event(self):
        return SimEvent(self._s)

    def Lock(self):
        return SimLock(self._s)

    def RLock(self):
        return SimLock(self._s, True)

    def Condition(self, lock=None):
        return SimCondition(self._s, lock)

    def Semaphore(self, value=1):
        return SimSemaphore(self._s, value)

    def BoundedSemaphore(self, value=1):
        return SimSemaphore(self._s, value, True)


class TimeFacade:
    """stands in for the ``time`` module attribute of Pyro5 modules"""

    def __init__(self, sched):
        self._s = sched
        import time as _t
        self.strftime = _t.strftime
        self.localtime = _t.localtime
        self.gmtime = _t.gmtime

    def time(self):
        # the wall clock can be stepped (NTP, VM resume): plan["clock_jumps"] = [[virtual instant, seconds forward], ...]
        # shift what time() reports from that instant on; sleeps, timeouts and monotonic() are unaffected
        self._s.tick()
        now = self._s.now
        off = 0.0
        for at, delta in self._s.wall_steps:
            if now - EPOCH >= at:
                off += delta
        return now + off

    def monotonic(self):
        # a clock of its own, as on a real system: unrelated to the epoch-based time() (mixing the two must not go unnoticed)
        self._s.tick()
        return self._s.now - EPOCH + 86400.25

    perf_counter = monotonic

    def sleep(self, d):
        self._s.block(None, max(d, 0.0), "sleep")


# ---------------------------------------------------------------- install
_MON_TOOL = None
_installed = None


def install(sched, line_codes=()):
    """patch Thread.start/join process-wide and enable LINE pre-emption on the given code objects"""
    global _installed, _MON_TOOL

    def start(self):
        if sched.killing or sched.me() is None:
            return _real_start(self)
        fails = getattr(sched, "start_fail", None)
        if fails:
            # fault: the operating system refuses another thread (world sets sched.start_fail = {name prefix: [ordinals]})
            name = _clean_name(self)
            for prefix, ordinals in fails.items():
                if name.startswith(prefix):
                    k = sched.start_counts.get(prefix, 0) + 1
                    sched.start_counts[prefix] = k
                    if k in ordinals:
                        sched.ev("start-failed", name, k)
                        raise RuntimeError("can't start new thread")
        sched.spawn(self)

    def join(self, timeout=None):
        t = sched.sim_thread_of(self)
        if t is None or sched.me() is None:
            return _real_join(self, timeout)
        if sched.killing:
            return
        sched.block(lambda: t.state == "done", timeout, "join")

    threading.Thread.start = start
    threading.Thread.join = join
    codes = list(line_codes)
    if codes:
        mon = sys.monitoring
        if _MON_TOOL is None:
            _MON_TOOL = mon.DEBUGGER_ID
            try:
                mon.use_tool_id(_MON_TOOL, "pyro5-dst")
            except ValueError:
                pass
        mon.register_callback(_MON_TOOL, mon.events.LINE, sched.line_event)
        for c in codes:
            mon.set_local_events(_MON_TOOL, c, mon.events.LINE)
    _installed = codes


def uninstall():
    global _installed
    threading.Thread.start = _real_start
    threading.Thread.join = _real_join
    if _installed:
        mon = sys.monitoring
        for c in _installed:
            mon.set_local_events(_MON_TOOL, c, 0)
        mon.register_callback(_MON_TOOL, mon.events.LINE, None)
    _installed = None


def code_objects(*funcs_or_classes):
    """all code objects (incl. nested functions) of the given functions / classes' methods"""
    out = []
    seen = set()

    def add_code(c):
        if id(c) in seen:
            return
        seen.add(id(c))
        out.append(c)
        for k in c.co_consts:
            if hasattr(k, "co_code"):
                add_code(k)

    def add(o):
        if isinstance(o, type):
            for v in vars(o).values():
                add(v)
        elif isinstance(o, (staticmethod, classmethod)):
            add(o.__func__)
        elif isinstance(o, property):
            for f in (o.fget, o.fset, o.fdel):
                if f:
                    add(f)
        elif hasattr(o, "__code__"):
            add_code(o.__code__)
        elif hasattr(o, "__wrapped__"):
            add(o.__wrapped__)

    for f in funcs_or_classes:
        add(f)
    return out


def code_closure(*roots, depth=1, skip_names=()):
    """code_objects(*roots) plus, `depth` levels deep, every function or method of a loaded Pyro5 module that the code refers
    to by name (global functions, methods of any class of those modules): a changed tree that moves part of a monitored
    function into a new helper keeps its pre-emption points. Order is deterministic (discovery order, names sorted)."""
    import sys as _sys
    import types as _types
    out = list(code_objects(*roots))
    seen = set(id(c) for c in out)
    # The set of modules that are searched must not depend on what happens to be imported so far (that differs between a
    # worker process that has run other plans and a fresh interpreter: the pre-emption points, and with them the run, would
    # differ): every top-level module of the Pyro5 package, imported here in name order.
    import importlib as _il
    import pkgutil as _pk
    import Pyro5 as _P
    mods = []
    for info in sorted(_pk.iter_modules(_P.__path__), key=lambda i: i.name):
        if info.ispkg or info.name.startswith("_"):
            continue
        try:
            mods.append(_il.import_module("Pyro5." + info.name))
        except Exception:  # noqa - a module that cannot be imported here contributes nothing
            pass
    index = {}
    for m in mods:
        for n, v in sorted(vars(m).items()):
            if isinstance(v, _types.FunctionType) and getattr(v, "__module__", "").startswith("Pyro5"):
                index.setdefault(n, []).append(v)
            elif isinstance(v, type) and getattr(v, "__module__", "").startswith("Pyro5"):
                for n2, v2 in sorted(vars(v).items(), key=lambda kv: kv[0]):
                    if isinstance(v2, (_types.FunctionType, staticmethod, classmethod, property)):
                        index.setdefault(n2, []).append(v2)
    frontier = list(out)
    for _ in range(depth):
        nxt = []
        for c in frontier:
            for n in sorted(set(c.co_names)):
                if n in skip_names or n.startswith("__"):
                    continue
                for f in index.get(n, ()):
                    for c2 in code_objects(f):
                        if id(c2) not in seen:
                            seen.add(id(c2))
                            out.append(c2)
                            nxt.append(c2)
        frontier = nxt
    return out
