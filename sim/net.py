"""In-memory TCP-like network on top of the baton scheduler.

SimSocket implements the subset of the socket API that Pyro5 uses and raises the real
socket exceptions, so socketutil.receive_data/send_data/SocketConnection run unmodified.
Every connection has one Pipe per direction; worlds replace pipes with message-aware
middleboxes (MessagePipe) that drop / delay / duplicate / truncate / rewrite whole Pyro
messages.  The header parser below is the harness's own (independent of Pyro5.protocol).
"""
import errno
import heapq
import random
import socket as rsock
import selectors as rsel
import struct

HEADER = struct.Struct("!4sHBBHHII16sHH")
HEADER_SIZE = 40
MSG_CONNECT, MSG_CONNECTOK, MSG_CONNECTFAIL, MSG_INVOKE, MSG_RESULT, MSG_PING = 1, 2, 3, 4, 5, 6
FLAG_EXC, FLAG_COMPRESSED, FLAG_ONEWAY, FLAG_BATCH, FLAG_STREAM, FLAG_KEEPSER, FLAG_CORR = 1, 2, 4, 8, 16, 32, 64
PROTOCOL_VERSION = 502
SER_SERPENT, SER_MARSHAL, SER_JSON, SER_MSGPACK = 1, 2, 3, 4
MAGIC = 0x4dc5


def parse_header(b):
    """own parser of the 40 byte Pyro header -> dict or None if it is not a Pyro header"""
    if len(b) < HEADER_SIZE:
        return None
    tag, ver, typ, ser, flags, seq, dlen, alen, corr, resv, magic = HEADER.unpack(bytes(b[:HEADER_SIZE]))
    if tag != b"PYRO" or ver != PROTOCOL_VERSION or magic != MAGIC:
        return None
    return {"type": typ, "ser": ser, "flags": flags, "seq": seq, "dlen": dlen, "alen": alen,
            "corr": corr, "resv": resv}


def parse_annotations(b):
    """annotation chunk area -> dict id -> bytes, or None if the chunks do not tile the area"""
    out = {}
    i = 0
    n = len(b)
    while i < n:
        if i + 8 > n:
            return None
        try:
            k = bytes(b[i:i + 4]).decode("ascii")
        except UnicodeDecodeError:
            return None
        ln = int.from_bytes(b[i + 4:i + 8], "big")
        if i + 8 + ln > n:
            return None
        out[k] = bytes(b[i + 8:i + 8 + ln])
        i += 8 + ln
    return out


def build_message(typ, flags, seq, ser, payload, annotations=None, corr=None, version=PROTOCOL_VERSION,
                  magic=MAGIC, tag=b"PYRO", dlen=None, alen=None, resv=0):
    """own encoder (used by raw peers and middleboxes); length fields can be forged"""
    ann = b""
    for k, v in (annotations or {}).items():
        ann += k.encode("ascii") + len(v).to_bytes(4, "big") + bytes(v)
    if corr is not None:
        flags |= FLAG_CORR
    hdr = HEADER.pack(tag, version, typ, ser, flags, seq, len(payload) if dlen is None else dlen,
                      len(ann) if alen is None else alen, corr or b"\0" * 16, resv, magic)
    return hdr + ann + bytes(payload)


class Net:
    def __init__(self, sched, cfg=None):
        cfg = cfg or {}
        self.s = sched
        self.listeners = {}
        self.next_port = 40000
        self.next_fd = 100000
        self.next_sfd = 10
        self.free_sfd = []
        self.nconn = 0
        self.conns = []              # (client_sock, server_sock)
        self.frng = random.Random(cfg.get("seed", 0))
        self.srng = random.Random(cfg.get("seed", 0) ^ 0x5e1ec7)
        self.p_frag = cfg.get("p_frag", 0.0)            # probability that a recv returns a short fragment
        self.p_partial_send = cfg.get("p_partial_send", 0.0)
        # transient errors: a recv()/send() of a socket in timeout mode fails with EAGAIN / EINTR, possibly many times in a row
        # (bursts of up to `retry_burst` consecutive failures of the same call site); only for server-side sockets unless "all"
        self.p_retry_errno = cfg.get("p_retry_errno", 0.0)
        self.retry_burst = cfg.get("retry_burst", 3)
        self.retry_sides = cfg.get("retry_sides", "s")
        self.shuffle_select = cfg.get("shuffle_select", False)
        self.rst_discards_rx = cfg.get("rst_discards_rx", True)
        # connections of a unix-domain style listener: accept() and the server side's getpeername() report '' (no host, no port)
        self.unix_addr = bool(cfg.get("unix_addr", False))
        self.silent_first_epipe = cfg.get("silent_first_epipe", False)
        self.on_connect = None       # callback(conn_idx, client_sock, server_sock)
        self.messages = []           # recorded by MessagePipes
        self.stats = {"frag": 0, "partial_send": 0, "conn": 0, "refused": 0, "rst": 0, "retry_errno": 0}

    def fd(self):
        self.next_fd += 1
        return self.next_fd

    # descriptors of ACCEPTED sockets come from a pool of their own and are handed out lowest-free-first, as a kernel does
    # within the server process: the number of a closed connection is reused by the next accepted one
    def server_fd(self):
        if self.free_sfd:
            return heapq.heappop(self.free_sfd)
        self.next_sfd += 1
        return self.next_sfd

    def release_server_fd(self, fd):
        heapq.heappush(self.free_sfd, fd)

    def port(self):
        self.next_port += 1
        return self.next_port

    def connect_raw(self, addr, timeout=None):
        s = SimSocket(self)
        s.timeout = timeout
        s.connect_to(addr)
        return s


class Pipe:
    """one direction of a connection"""

    def __init__(self, net, src, dst, conn, direction):
        self.net = net
        self.src = src
        self.dst = dst
        self.conn = conn
        self.dir = direction
        self.dead = False     # middlebox cut this direction

    def push(self, data):
        self.deliver(data)

    def deliver(self, data):
        if not self.dst.closed and not self.dead:
            self.dst.rx += data

    def eof(self):
        if not self.dead:
            self.dst.eof = True

    def rst(self):
        d = self.dst
        d.reset = True
        if self.net.rst_discards_rx:
            del d.rx[:]


class MessagePipe(Pipe):
    """re-assembles Pyro messages and hands each complete one to handle(k, info, raw).
    Bytes that do not start a valid header switch the pipe to pass-through."""

    def __init__(self, net, src, dst, conn, direction):
        super().__init__(net, src, dst, conn, direction)
        self.buf = bytearray()
        self.k = 0
        self.raw_mode = False

    def push(self, data):
        if self.raw_mode:
            self.deliver(data)
            return
        self.buf += data
        while True:
            if len(self.buf) < HEADER_SIZE:
                if self.buf and not b"PYRO".startswith(bytes(self.buf[:4])) and len(self.buf) >= 4:
                    self._go_raw()
                return
            h = parse_header(self.buf)
            if h is None or h["dlen"] + h["alen"] > (1 << 26):
                self._go_raw()
                return
            total = HEADER_SIZE + h["alen"] + h["dlen"]
            if len(self.buf) < total:
                return
            raw = bytes(self.buf[:total])
            del self.buf[:total]
            ann = parse_annotations(raw[HEADER_SIZE:HEADER_SIZE + h["alen"]])
            info = dict(h)
            info["ann"] = ann if ann is not None else {}
            info["conn"] = self.conn
            info["dir"] = self.dir
            info["k"] = self.k
            info["stamp"] = self.net.s.stamp()
            info["payload"] = raw[HEADER_SIZE + h["alen"]:]
            self.net.messages.append(info)
            k = self.k
            self.k += 1
            self.handle(k, info, raw)

    def _go_raw(self):
        self.raw_mode = True
        b = bytes(self.buf)
        del self.buf[:]
        self.deliver(b)

    def handle(self, k, info, raw):
        self.deliver(raw)

    def eof(self):
        if self.buf:
            b = bytes(self.buf)
            del self.buf[:]
            self.deliver(b)
        super().eof()


class SimSocket:
    family = rsock.AF_INET
    type = rsock.SOCK_STREAM
    proto = 0

    def __init__(self, net):
        self.net = net
        self.s = net.s
        self._fd = net.fd()
        self._sfd = False         # _fd was handed out by accept() and goes back to the pool on close
        self._burst = 0           # remaining consecutive transient errors
        self.rx = bytearray()
        self.peer = None
        self.out = None           # Pipe towards the peer
        self.eof = False          # peer closed its write side
        self.reset = False
        self.closed = False
        self.shut_rd = False
        self.shut_wr = False
        self.timeout = None
        self.listening = False
        self.backlog = []
        self.addr = None
        self.peeraddr = None
        self.conn = None
        self.side = None          # "c" | "s"
        self.sent_after_peer_close = False
        self.nrecv = 0
        self.nsend = 0

    # -- plumbing
    def fileno(self):
        return -1 if self.closed else self._fd

    def settimeout(self, t):
        self.timeout = t

    def gettimeout(self):
        return self.timeout

    def setblocking(self, flag):
        self.timeout = None if flag else 0.0

    def setsockopt(self, *a):
        pass

    def getsockopt(self, *a):
        return 0

    def getsockname(self):
        if self.closed:
            raise OSError(errno.EBADF, "Bad file descriptor")
        return self.addr

    def getpeername(self):
        if self.closed:
            raise OSError(errno.EBADF, "Bad file descriptor")
        if self.peeraddr is None or self.reset:
            # (after the peer reset the connection the socket is no longer connected)
            raise OSError(errno.ENOTCONN, "Transport endpoint is not connected")
        if self._sfd and self.net.unix_addr:
            return ""
        return self.peeraddr

    def readable(self):
        if self.closed:
            return False
        if self.listening:
            return bool(self.backlog)
        return bool(self.rx) or self.eof or self.reset or self.shut_rd

    def listen_on(self, addr):
        host, port = addr[0], addr[1]
        if port == 0:
            port = self.net.port()
        self.addr = (host or "127.0.0.1", port)
        if self.addr in self.net.listeners:
            raise OSError(errno.EADDRINUSE, "Address already in use")
        self.listening = True
        self.net.listeners[self.addr] = self

    def listen(self, n=0):
        pass

    def connect_to(self, addr):
        self.s.yield_point("connect")
        lst = self.net.listeners.get((addr[0], addr[1]))
        if lst is None or lst.closed:
            self.net.stats["refused"] += 1
            self.s.ev("refused", addr[1])
            raise ConnectionRefusedError(errno.ECONNREFUSED, "Connection refused")
        idx = self.net.nconn
        self.net.nconn += 1
        self.net.stats["conn"] += 1
        self.addr = ("127.0.0.1", self.net.port())
        srv = SimSocket(self.net)
        srv.addr = lst.addr
        srv.peeraddr = self.addr
        srv.peer = self
        srv.conn = idx
        srv.side = "s"
        self.peer = srv
        self.peeraddr = lst.addr
        self.conn = idx
        self.side = "c"
        self.out = Pipe(self.net, self, srv, idx, "c2s")
        srv.out = Pipe(self.net, srv, self, idx, "s2c")
        self.net.conns.append((self, srv))
        self.s.sev("connect", idx)
        if self.net.on_connect is not None:
            self.net.on_connect(idx, self, srv)
        lst.backlog.append(srv)

    def accept(self):
        if self.closed:
            raise OSError(errno.EBADF, "Bad file descriptor")
        self.s.yield_point("accept")
        if not self.backlog:
            if self.timeout == 0.0:
                raise BlockingIOError(errno.EAGAIN, "Resource temporarily unavailable")
            ok = self.s.block(lambda: bool(self.backlog) or self.closed, self.timeout, "accept")
            if not ok:
                raise rsock.timeout("timed out")
        if self.closed:
            raise OSError(errno.EBADF, "Bad file descriptor")
        c = self.backlog.pop(0)
        if not c._sfd:
            c._fd = self.net.server_fd()
            c._sfd = True
        self.s.sev("accept", c.conn)
        return c, ("" if self.net.unix_addr else c.peeraddr)

    def recv(self, n, flags=0):
        if self.closed:
            raise OSError(errno.EBADF, "Bad file descriptor")
        self.s.yield_point("recv")
        self.nrecv += 1
        self._maybe_transient("recv")
        waitall = bool(flags & rsock.MSG_WAITALL) and self.timeout is None
        if waitall:
            def need():
                return len(self.rx) >= n or self.eof or self.reset or self.closed or self.shut_rd
        else:
            def need():
                return bool(self.rx) or self.eof or self.reset or self.closed or self.shut_rd
        if not need():
            if self.timeout == 0.0:
                raise BlockingIOError(errno.EAGAIN, "Resource temporarily unavailable")
            ok = self.s.block(need, self.timeout, "recv")
            if not ok:
                self.s.sev("rtimeout", self.conn, self.side)
                raise rsock.timeout("timed out")
        if self.closed:
            raise OSError(errno.EBADF, "Bad file descriptor")
        if self.reset and not self.rx:
            self.s.sev("recv-rst", self.conn, self.side)
            raise ConnectionResetError(errno.ECONNRESET, "Connection reset by peer")
        k = min(n, len(self.rx))
        if k > 1 and not waitall and self.net.p_frag and self.net.frng.random() < self.net.p_frag:
            k = self.net.frng.randint(1, k - 1)
            self.net.stats["frag"] += 1
        out = bytes(self.rx[:k])
        if flags & rsock.MSG_PEEK:
            self.s.sev("peek", self.conn, self.side, n, k)
            return out
        del self.rx[:k]
        self.s.sev("recv", self.conn, self.side, n, k)
        return out

    def recv_into(self, buffer, nbytes=0, flags=0):
        mv = memoryview(buffer).cast("B")
        n = nbytes or len(mv)
        data = self.recv(n, flags)
        mv[:len(data)] = data
        return len(data)

    def send(self, data, flags=0):
        if self.closed:
            raise OSError(errno.EBADF, "Bad file descriptor")
        self.s.yield_point("send")
        self.nsend += 1
        self._maybe_transient("send")
        p = self.peer
        if p is None:
            raise OSError(errno.ENOTCONN, "Transport endpoint is not connected")
        if self.reset:
            raise ConnectionResetError(errno.ECONNRESET, "Connection reset by peer")
        if self.shut_wr:
            raise BrokenPipeError(errno.EPIPE, "Broken pipe")
        if p.closed:
            if self.net.silent_first_epipe and not self.sent_after_peer_close:
                self.sent_after_peer_close = True
                self.s.sev("send-lost", self.conn, self.side, len(data))
                return len(data)
            self.s.sev("send-epipe", self.conn, self.side)
            raise BrokenPipeError(errno.EPIPE, "Broken pipe")
        data = bytes(data)
        k = len(data)
        if k > 1 and self.timeout is not None and self.net.p_partial_send and \
                self.net.frng.random() < self.net.p_partial_send:
            k = self.net.frng.randint(1, k - 1)
            self.net.stats["partial_send"] += 1
        self.s.sev("send", self.conn, self.side, k)
        self.out.push(data[:k])
        return k

    def sendall(self, data, flags=0):
        data = bytes(data)
        while data:
            k = self.send(data)
            data = data[k:]

    def shutdown(self, how):
        if self.closed:
            raise OSError(errno.EBADF, "Bad file descriptor")
        if self.peer is None or self.reset:
            # also after the peer reset the connection: the socket is no longer connected (Linux: ENOTCONN)
            raise OSError(errno.ENOTCONN, "Transport endpoint is not connected")
        if how in (rsock.SHUT_WR, rsock.SHUT_RDWR) and not self.shut_wr:
            self.shut_wr = True
            if self.out is not None:
                self.out.eof()
        if how in (rsock.SHUT_RD, rsock.SHUT_RDWR):
            self.shut_rd = True

    def close(self):
        if self.closed:
            return
        self.closed = True
        self._release_fd()
        if self.listening:
            self.net.listeners.pop(self.addr, None)
            for c in self.backlog:
                if c.peer is not None:
                    c.peer.reset = True
            self.backlog = []
            self.s.ev("close-listener")
            return
        if self.conn is not None:
            self.s.ev("close", self.conn, self.side)
        if self.out is not None and not self.shut_wr:
            self.shut_wr = True
            self.out.eof()

    def rst(self):
        """abortive close (SO_LINGER 0): the peer sees ECONNRESET"""
        if self.closed:
            return
        self.closed = True
        self._release_fd()
        self.net.stats["rst"] += 1
        self.s.ev("rst", self.conn, self.side)
        if self.out is not None:
            self.out.rst()

    def detach(self):
        return self._fd

    def _maybe_transient(self, what):
        """EAGAIN / EINTR from a call on a socket in timeout mode (the retry loops of socketutil are written for them)"""
        n = self.net
        if not n.p_retry_errno or self.timeout is None or self.listening or (n.retry_sides != "all" and self.side != n.retry_sides):
            return
        if self._burst > 0:
            self._burst -= 1
        elif n.frng.random() < n.p_retry_errno:
            self._burst = n.frng.randint(1, max(1, n.retry_burst)) - 1
        else:
            return
        n.stats["retry_errno"] += 1
        self.s.sev("transient", self.conn, self.side, what)
        if n.frng.random() < 0.5:
            raise BlockingIOError(errno.EAGAIN, "Resource temporarily unavailable")
        raise InterruptedError(errno.EINTR, "Interrupted system call")

    def _release_fd(self):
        if self._sfd:
            self._sfd = False
            self.net.release_server_fd(self._fd)

    def __enter__(self):
        return self

    def __exit__(self, *a):
        self.close()


class SimSelector:
    """selectors.BaseSelector semantics: keys live in a map by DESCRIPTOR NUMBER; a socket that was closed without being
    unregistered leaves a stale key behind (never ready), and registering a new socket that got the same number fails"""

    def __init__(self, net):
        self.net = net
        self.s = net.s
        self.map = {}           # fd -> SelectorKey
        self.closed = False

    @staticmethod
    def _sock(fo):
        return getattr(fo, "sock", fo)

    def _lookup(self, fileobj):
        fd = fileobj if isinstance(fileobj, int) else self._sock(fileobj).fileno()
        if fd < 0:
            for key in self.map.values():       # closed meanwhile: search by object, as the stdlib does
                if key.fileobj is fileobj:
                    return key.fd
            raise ValueError("Invalid file descriptor: {}".format(fd))
        return fd

    def register(self, fileobj, events, data=None):
        if (not events) or (events & ~(rsel.EVENT_READ | rsel.EVENT_WRITE)):
            raise ValueError("Invalid events: {!r}".format(events))
        fd = self._lookup(fileobj)
        if fd in self.map:
            raise KeyError("{!r} (FD {}) is already registered".format(fileobj, fd))
        key = rsel.SelectorKey(fileobj, fd, events, data)
        self.map[fd] = key
        return key

    def unregister(self, fileobj):
        try:
            return self.map.pop(self._lookup(fileobj))
        except KeyError:
            raise KeyError("{!r} is not registered".format(fileobj)) from None

    def modify(self, fileobj, events, data=None):
        self.unregister(fileobj)
        return self.register(fileobj, events, data)

    def get_key(self, fileobj):
        try:
            return self.map[self._lookup(fileobj)]
        except KeyError:
            raise KeyError("{!r} is not registered".format(fileobj)) from None

    def get_map(self):
        return dict(self.map)

    def close(self):
        self.map = {}
        self.closed = True

    def _ready(self):
        # (a closed descriptor silently leaves the kernel's interest set: a stale key is never reported)
        return [k for k in self.map.values() if not self._sock(k.fileobj).closed and self._sock(k.fileobj).readable()]

    def select(self, timeout=None):
        self.s.yield_point("select")
        r = self._ready()
        if not r and (timeout is None or timeout > 0):
            self.s.block(lambda: bool(self._ready()) or self.closed, timeout, "select")
            r = self._ready()
        if len(r) > 1 and self.net.shuffle_select:
            self.net.srng.shuffle(r)
        self.s.sev("select", tuple(self._sock(k.fileobj).conn if self._sock(k.fileobj).conn is not None else -1
                                   for k in r))
        return [(k, rsel.EVENT_READ) for k in r]

    def __enter__(self):
        return self

    def __exit__(self, *a):
        self.close()


class SelectFacade:
    """stands in for the ``select`` module attribute of Pyro5 modules: select() over the in-memory sockets (a changed tree that
    polls a connection would otherwise reach the real select() with simulated descriptor numbers)"""

    def __init__(self, net):
        import select as _rselect
        self._net = net
        self._real = _rselect
        self.error = _rselect.error

    def __getattr__(self, name):
        if name in ("poll", "epoll", "devpoll", "kqueue"):
            raise AttributeError("select.%s has no simulated counterpart" % name)
        return getattr(self._real, name)

    @staticmethod
    def _sock(fo):
        s = getattr(fo, "sock", fo)
        if not isinstance(s, SimSocket):
            raise ValueError("select() on something that is not a simulated socket: %r" % (fo,))
        if s.closed:
            raise OSError(errno.EBADF, "Bad file descriptor")
        return s

    def select(self, rlist, wlist, xlist, timeout=None):
        s = self._net.s
        s.yield_point("select.select")
        rl, wl = list(rlist), list(wlist)

        def ready():
            return [fo for fo in rl if self._sock(fo).readable()]
        for fo in wl:
            self._sock(fo)
        r = ready()
        if not r and not wl and (timeout is None or timeout > 0):
            s.block(lambda: bool(ready()), timeout, "select.select")
            r = ready()
        return r, wl, []


class SelectorsFacade:
    EVENT_READ = rsel.EVENT_READ
    EVENT_WRITE = rsel.EVENT_WRITE
    SelectorKey = rsel.SelectorKey

    def __init__(self, net):
        self._net = net

    def DefaultSelector(self):
        return SimSelector(self._net)


def make_create_socket(net):
    def create_socket(bind=None, connect=None, reuseaddr=False, keepalive=True, timeout=-1, noinherit=False,
                      ipv6=False, nodelay=True, sslContext=None):
        if bind and connect:
            raise ValueError("bind and connect cannot both be specified at the same time")
        sock = SimSocket(net)
        if timeout is not None:
            if timeout == 0:
                pass
            elif timeout >= 0:
                sock.settimeout(timeout)
        if bind:
            sock.listen_on(bind)
        if connect:
            sock.connect_to(connect)
        return sock
    return create_socket
