"""Batch driver: seeded search over plans and schedules on 16 processes, determinism self-test,
minimisation, replay files, known findings, evidence.

exit 0  property held on everything explored (known findings are printed as KNOWN-FINDING)
exit 1  VIOLATION property=<id> replay=<path>   (minimised, confirmed in a fresh interpreter)
exit 2  harness error (seam escape, nondeterminism, watchdog, step cap, starved probe)
exit 3  --replay did not reproduce the recorded violation
"""
import argparse
import concurrent.futures as cf
import copy
import faulthandler
import importlib
import re
import json
import multiprocessing
import os
import subprocess
import sys
import time
import traceback
from collections import Counter

VERIF = os.path.dirname(os.path.dirname(os.path.abspath(__file__)))

WORLDS = {
    "C03": "rpc", "C05": "hostile", "C06": "wire", "C08": "prehandshake", "C09": "inst", "C10": "stream",
    "C11": "batch", "C12": "ctx", "C13": "conn", "C14": "nsmodel", "C15": "nsconc", "C16": "registry",
    "C17": "sockio", "C18": "pool",
}


def load_world(prop):
    from . import seams
    from .world import start_monitor
    seams.quiet()
    start_monitor()
    mod = importlib.import_module("sim.worlds." + WORLDS[prop])
    return mod.WORLD


def run_seed_of(base, prop, idx):
    from .world import derive_seed
    return derive_seed(base, prop, idx)


# ------------------------------------------------------------------ chunk (runs in a forked child)
def run_chunk(prop, tier, base, indices, keep_digests):
    from .world import signature, plan_digest
    world = load_world(prop)
    faulthandler.enable()       # a crash of the interpreter itself (e.g. inside a C decoder) leaves a traceback in the log
    import gc
    gc.collect()
    gc.freeze()     # everything imported so far is permanent: makes the per-run gc.collect() cheap
    # workload objects whose finalisation fails on purpose (a generator's clean-up code that raises) are reported by Python through
    # sys.unraisablehook whenever they happen to be dropped: not part of any verdict, keep the check's output clean
    sys.unraisablehook = lambda *a: None
    out = {"n": 0, "harness": [], "disturbed": Counter(), "viol": {}, "violcount": Counter(), "probes": Counter(),
           "faults": Counter(), "digests": {}, "sched_digests": set(), "plan_digests": set(), "nontrivial": set(),
           "steps": 0, "sim_s": 0.0, "switches": 0, "preempts": 0, "samples": [], "violating_runs": 0}
    for idx in indices:
        faulthandler.dump_traceback_later(400, exit=True)
        try:
            with open("/tmp/.pyro5dst-current-%d" % os.getpid(), "w") as fcur:
                fcur.write("%s %s %d %d\n" % (prop, tier, base, idx))
        except OSError:
            pass
        seed = run_seed_of(base, prop, idx)
        plan = world.make_plan(seed, tier)
        try:
            res = world.run(plan)
        except BaseException:
            out["harness"].append((idx, "run raised: " + traceback.format_exc()[-800:]))
            continue
        finally:
            faulthandler.cancel_dump_traceback_later()
        out["n"] += 1
        if res["harness"]:
            out["harness"].append((idx, res["harness"]))
            continue
        if idx in keep_digests:
            out["digests"][idx] = res["digest"]
        pd = plan_digest(plan)
        out["plan_digests"].add(pd)
        out["sched_digests"].add(res["sched_digest"])
        if res["disturbed"]:
            out["disturbed"][res["disturbed"]] += 1
        elif res["nontrivial"]:
            out["nontrivial"].add(pd + res["sched_digest"])
        out["probes"].update(res["probes"])
        out["faults"].update(res["faults"])
        out["steps"] += res["steps"]
        out["sim_s"] += res["sim_s"]
        out["switches"] += res["switches"]
        out["preempts"] += res["preempts"]
        if len(out["samples"]) < 2 and res["nontrivial"]:
            out["samples"].append({"index": idx, "plan": plan, "result": {k: res[k] for k in ("probes", "faults", "steps", "sim_s", "info")}})
        if res["violations"]:
            out["violating_runs"] += 1
            seen = set()
            for v in res["violations"]:
                sig = signature(prop, v)
                if sig in seen:
                    continue
                seen.add(sig)
                out["violcount"][sig] += 1
                cur = out["viol"].get(sig)
                size = len(json.dumps(plan)) + 20 * len(res["choices"])
                if cur is None or size < cur["size"]:
                    out["viol"][sig] = {"idx": idx, "v": v, "plan": plan, "size": size, "digest": res["digest"]}
    try:
        os.remove("/tmp/.pyro5dst-current-%d" % os.getpid())      # (stays behind only if this process dies in a run)
    except OSError:
        pass
    return out


def merge(total, part):
    for k in ("n", "steps", "sim_s", "switches", "preempts", "violating_runs"):
        total[k] += part[k]
    total["harness"].extend(part["harness"])
    for k in ("disturbed", "violcount", "probes", "faults"):
        total[k].update(part[k])
    total["digests"].update(part["digests"])
    for k in ("sched_digests", "plan_digests", "nontrivial"):
        total[k] |= part[k]
    for s in part["samples"]:
        if len(total["samples"]) < 3:
            total["samples"].append(s)
    for sig, e in part["viol"].items():
        cur = total["viol"].get(sig)
        if cur is None or e["size"] < cur["size"]:
            total["viol"][sig] = e


def empty_total():
    return {"n": 0, "harness": [], "disturbed": Counter(), "viol": {}, "violcount": Counter(), "probes": Counter(),
            "faults": Counter(), "digests": {}, "sched_digests": set(), "plan_digests": set(), "nontrivial": set(),
            "steps": 0, "sim_s": 0.0, "switches": 0, "preempts": 0, "samples": [], "violating_runs": 0}


# ------------------------------------------------------------------ known findings
def load_known():
    p = os.path.join(VERIF, "known_findings.json")
    if not os.path.exists(p):
        return []
    with open(p) as f:
        return json.load(f)["findings"]


# ------------------------------------------------------------------ replay
def do_replay(prop, path, trace=False):
    from .world import signature
    world = load_world(prop)
    with open(path) as f:
        rep = json.load(f)
    res = world.run(rep["plan"], trace=trace)
    sigs = [signature(prop, v) for v in res["violations"]]
    if trace:
        for e in res.get("trace", []):
            print("  ", e)
    if res["harness"]:
        print("HARNESS-ERROR during replay: %s" % res["harness"])
        return 2
    if rep["signature"] in sigs:
        v = next(v for v in res["violations"] if signature(prop, v) == rep["signature"])
        print("VIOLATION property=%s replay=%s" % (prop, path))
        print("  signature=%s" % rep["signature"])
        print("  message=%s" % v["msg"])
        print("  digest=%s expected=%s %s" % (res["digest"], rep.get("digest"),
                                             "MATCH" if res["digest"] == rep.get("digest") else "DIFFERENT"))
        return 1 if res["digest"] == rep.get("digest") or not rep.get("digest") else 3
    print("replay did not reproduce %s (got %r)" % (rep["signature"], sigs))
    return 3


def print_digests(prop, tier, base, lo, hi):
    world = load_world(prop)
    out = {}
    for idx in range(lo, hi):
        plan = world.make_plan(run_seed_of(base, prop, idx), tier)
        out[str(idx)] = world.run(plan)["digest"]
    print("DIGESTS " + json.dumps(out))


# ------------------------------------------------------------------ main check
def main(argv=None):
    ap = argparse.ArgumentParser()
    ap.add_argument("prop")
    ap.add_argument("--tier", default=os.environ.get("VERIF_TIER", "quick"), choices=["quick", "thorough"])
    ap.add_argument("--replay")
    ap.add_argument("--trace", action="store_true")
    ap.add_argument("--digests")
    ap.add_argument("--runs", type=int)
    ap.add_argument("--budget", type=float)
    ap.add_argument("--procs", type=int, default=int(os.environ.get("VERIF_PROCS", "16")))
    ap.add_argument("--no-selftest", action="store_true")
    ap.add_argument("--no-evidence", action="store_true")
    ap.add_argument("--one", type=int, help="run a single index verbosely")
    a = ap.parse_args(argv)
    prop = a.prop
    if prop not in WORLDS:
        print("unknown / not claimed property %s" % prop)
        return 2
    base = int(os.environ.get("VERIF_SEED", "0") or 0)
    if a.replay:
        return do_replay(prop, a.replay, a.trace)
    if a.digests:
        lo, hi = a.digests.split(":")
        print_digests(prop, a.tier, base, int(lo), int(hi))
        return 0
    if a.one is not None:
        world = load_world(prop)
        plan = world.make_plan(run_seed_of(base, prop, a.one), a.tier)
        res = world.run(plan, trace=a.trace)
        tr = res.pop("trace", None)
        print(json.dumps(plan, indent=1, default=str))
        if tr:
            for e in tr:
                print("  ", e)
        print(json.dumps(res, indent=1, default=str))
        return 0
    return check(prop, a.tier, base, a)


def check(prop, tier, base, a):
    from .world import signature
    t0 = time.time()
    world = load_world(prop)
    procs = max(1, a.procs)
    if tier == "quick":
        nruns = a.runs or world.QUICK_RUNS
        budget = a.budget or float(os.environ.get("VERIF_BUDGET_S", "0") or 0) or 150.0
    else:
        nruns = a.runs or world.THOROUGH_RUNS or 10 ** 9
        budget = a.budget or float(os.environ.get("VERIF_BUDGET_S", "0") or 0) or 900.0
    nself = 0 if a.no_selftest else (32 if tier == "quick" else 200)
    keep = set(range(nself))
    total = empty_total()
    chunk = world.CHUNK
    ctx = multiprocessing.get_context("fork")
    next_idx = 0
    dead = None
    deadline = t0 + budget
    with cf.ProcessPoolExecutor(max_workers=procs, mp_context=ctx) as ex:
        pending = set()

        def submit():
            nonlocal next_idx
            if next_idx >= nruns:
                return False
            hi = min(nruns, next_idx + chunk)
            pending.add(ex.submit(run_chunk, prop, tier, base, list(range(next_idx, hi)), keep))
            next_idx = hi
            return True
        for _ in range(procs * 2):
            if not submit():
                break
        while pending:
            done, _ = cf.wait(pending, timeout=5, return_when=cf.FIRST_COMPLETED)
            for f in done:
                pending.discard(f)
                try:
                    merge(total, f.result())
                except Exception as x:  # noqa - BrokenProcessPool etc.
                    dead = "worker process died: %r" % (x,)
            if dead:
                for f in pending:
                    f.cancel()
                break
            while len(pending) < procs * 2 and time.time() < deadline:
                if not submit():
                    break
    wall_batch = time.time() - t0
    status = 0
    selftest_failed = False
    notes = []
    if dead:
        print("HARNESS-ERROR %s" % dead)
        status = 2
    harness_errors = bool(total["harness"])
    if total["harness"]:
        # (like the disturbed-run gate below: decides only when no violation is confirmed)
        for idx, msg in total["harness"][:5]:
            print("HARNESS-ERROR run index %d: %s" % (idx, msg))
        print("HARNESS-ERROR %d runs had harness errors" % len(total["harness"]))

    # ---- determinism self-test
    selftest = {"sampled": 0, "ok": None}
    if nself and status == 0:
        idxs = sorted(i for i in total["digests"] if i < nself)
        if idxs:
            lo, hi = idxs[0], idxs[-1] + 1
            again = {}
            for idx in idxs:
                plan = world.make_plan(run_seed_of(base, prop, idx), tier)
                again[idx] = world.run(plan)["digest"]
            hashseeds = ["12345"] if tier == "quick" else ["12345", "5"]
            bad = [i for i in idxs if total["digests"][i] != again[i]]
            pr = None
            for hs in hashseeds:
                env = dict(os.environ)
                env["PYTHONHASHSEED"] = hs
                env["VERIF_NO_REEXEC"] = "1"
                env["VERIF_SEED"] = str(base)
                pr = subprocess.run([sys.executable, os.path.join(VERIF, "check"), prop, "--tier", tier,
                                     "--digests", "%d:%d" % (lo, hi)], env=env, capture_output=True, text=True, timeout=1200)
                fresh = {}
                for line in pr.stdout.splitlines():
                    if line.startswith("DIGESTS "):
                        fresh = {int(k): v for k, v in json.loads(line[8:]).items()}
                bad += [i for i in idxs if total["digests"][i] != fresh.get(i) and i not in bad]
            selftest = {"sampled": len(idxs), "ok": not bad,
                        "processes": "pool worker, batch parent, fresh interpreter(s) with PYTHONHASHSEED=" + "/".join(hashseeds)}
            if bad:
                # (decides only when no violation is confirmed below: a changed tree that keeps state in the process across runs
                #  makes sampled digests differ, and can still show violations that replay exactly in a fresh interpreter)
                selftest_failed = True
                print("HARNESS-NONDETERMINISM digests differ for run indices %s" % bad[:10])
                if pr.returncode != 0:
                    print(pr.stderr[-1500:])

    # ---- disturbed runs
    ndist = sum(total["disturbed"].values())
    known = load_known()
    too_disturbed = bool(total["n"] and ndist > 0.05 * total["n"])
    if too_disturbed:
        # decides only when no violation is confirmed below: on a tree that breaks the scaffolding of many runs the judged runs
        # can still show a real, replayable violation - that is reported; without one, a batch this disturbed proves nothing
        print("HARNESS-ERROR %d of %d runs disturbed: %s" % (ndist, total["n"], dict(total["disturbed"])))

    # ---- violations
    kn = {k["signature"]: k for k in known if k.get("status") == "known" and k["property"] == prop}
    new_viol = []
    for sig in sorted(total["viol"]):
        e = total["viol"][sig]
        if sig in kn:
            continue
        new_viol.append((sig, e))
    for k in known:
        if k["property"] == prop and k.get("status") == "known":
            seen = total["violcount"].get(k["signature"], 0)
            print("KNOWN-FINDING: property=%s %s [signature %s; seen in %d of %d runs; replay %s]"
                  % (prop, k["text"], k["signature"], seen, total["n"], k.get("replay")))
    replay_paths = []
    # ---- regression: replay the committed files of fixed / known findings of this property
    regress = {}
    for k in known:
        if k["property"] != prop or not k.get("replay"):
            continue
        rp = os.path.join(VERIF, k["replay"])
        if not os.path.exists(rp):
            continue
        with open(rp) as f:
            rep = json.load(f)
        try:
            rres = world.run(rep["plan"])
        except Exception:
            rres = {"violations": [], "harness": traceback.format_exc()[-400:]}
        hit = any(signature(prop, v) == k["signature"] for v in rres["violations"])
        regress[k["replay"]] = {"status": k["status"], "reproduced": hit}
        if k["status"] == "fixed" and hit:
            print("VIOLATION property=%s replay=%s" % (prop, rp))
            print("  signature=%s (listed as fixed in %s, but its committed replay file fails again)" % (k["signature"], k.get("commit")))
            if status == 0:
                status = 1
        elif k["status"] == "known" and not hit:
            notes.append("known finding %s no longer reproduces from %s" % (k["signature"], k["replay"]))
    total["regress"] = regress
    if new_viol and status != 2:
        from . import shrink as SH
        os.makedirs(os.path.join(VERIF, "replays"), exist_ok=True)
        per = max(10.0, (60.0 if tier == "quick" else 240.0) / len(new_viol))
        unconfirmed = 0
        for sig, e in new_viol:
            plan = e["plan"]
            try:
                small, ntests = SH.shrink(world, copy.deepcopy(plan), sig, budget_s=per)
            except Exception:
                small, ntests = plan, 0
                notes.append("shrinker failed: " + traceback.format_exc()[-300:])
            res = world.run(small, trace=True)
            v = next((v for v in res["violations"] if signature(prop, v) == sig), None)
            if v is None:
                small = plan
                res = world.run(small, trace=True)
                v = next((v for v in res["violations"] if signature(prop, v) == sig), e["v"])
            rep = {"property": prop, "world": world.NAME, "signature": sig, "message": v["msg"], "digest": res["digest"],
                   "found": {"verif_seed": base, "index": e["idx"], "tier": tier, "shrink_tests": ntests,
                             "seen_in_runs": total["violcount"][sig]},
                   "plan": small, "trace_tail": [list(map(str, t)) for t in (res.get("trace") or [])[-60:]]}
            path = os.path.join(VERIF, "replays", "%s-%s-%d.json" % (prop, sig.split("/", 1)[1].replace("/", "_"), e["idx"]))
            with open(path, "w") as f:
                json.dump(rep, f, indent=1, default=str)
            env = dict(os.environ)
            env["VERIF_NO_REEXEC"] = "1"
            env["PYTHONHASHSEED"] = "777"
            pr = subprocess.run([sys.executable, os.path.join(VERIF, "check"), prop, "--replay", path],
                                env=env, capture_output=True, text=True, timeout=600)
            if pr.returncode == 3 and ("signature=%s\n" % sig) in pr.stdout:
                # The same violation, by another path: the run in this worker process differed from the run of the same plan in a
                # fresh interpreter (a changed tree that keeps state in the process across runs). What counts is the fresh
                # interpreter: the replay file gets the digest and message seen there, and must then reproduce twice, exactly.
                mo = re.search(r"digest=([0-9a-f]+) expected=", pr.stdout)
                mm = re.search(r"^  message=(.*)$", pr.stdout, re.M)
                if mo:
                    rep["digest"] = mo.group(1)
                    if mm:
                        rep["message"] = v["msg"] = mm.group(1)
                    rep["found"]["digest_in_batch_process_differed"] = True
                    with open(path, "w") as f:
                        json.dump(rep, f, indent=1, default=str)
                    for _ in range(2):
                        pr = subprocess.run([sys.executable, os.path.join(VERIF, "check"), prop, "--replay", path],
                                            env=env, capture_output=True, text=True, timeout=600)
                        if pr.returncode != 1:
                            break
            if pr.returncode != 1:
                print("HARNESS-NONDETERMINISM violation %s did not reproduce in a fresh interpreter (exit %d)\n%s"
                      % (sig, pr.returncode, (pr.stdout + pr.stderr)[-800:]))
                unconfirmed += 1
                continue
            print("VIOLATION property=%s replay=%s" % (prop, path))
            print("  signature=%s seen_in=%d/%d runs" % (sig, total["violcount"][sig], total["n"]))
            print("  message=%s" % v["msg"])
            replay_paths.append(path)
            if status == 0:
                status = 1
        if status == 0 and (too_disturbed or harness_errors or selftest_failed):
            status = 2
        if unconfirmed and status == 0:
            # violations were seen, but none of them replays in a fresh interpreter: nothing this batch says can be believed.
            # (When at least one violation does replay exactly, that one is reported - exit 1 - and the others are listed above:
            #  typically the changed code keeps state in the process across runs, which a fresh interpreter does not have.)
            status = 2

    if (too_disturbed or harness_errors or selftest_failed) and status == 0:
        status = 2

    # ---- starved probes (thorough only)
    starved = [p for p in world.PROBES if not total["probes"].get(p)]
    if starved and tier == "thorough" and status == 0 and not a.runs:
        print("HARNESS-ERROR probes never hit: %s" % starved)
        status = 2

    wall = time.time() - t0
    if not a.no_evidence:
        write_evidence(world, prop, tier, base, total, wall, wall_batch, selftest, starved, status, new_viol, kn, notes, procs)
    print("%s %s: %d runs in %.1fs (%.0f runs/h), %d distinct interleavings, %d distinct non-trivial, "
          "%.0f simulated s, violations: %d new / %d known signatures, exit %d"
          % (prop, tier, total["n"], wall, total["n"] / max(wall_batch, 1e-9) * 3600, len(total["sched_digests"]),
             len(total["nontrivial"]), total["sim_s"], len(new_viol),
             len([s for s in total["viol"] if s in kn]), status))
    return status


def write_evidence(world, prop, tier, base, total, wall, wall_batch, selftest, starved, status, new_viol, kn, notes, procs):
    n = total["n"]
    cov = {
        "evaluations": n,
        "distinct_nontrivial": len(total["nontrivial"]),
        "rule": world.RULE,
        "samples": total["samples"][:3] or [{"note": "no non-trivial sample recorded"}],
        "distinct_interleavings": len(total["sched_digests"]),
        "distinct_plans": len(total["plan_digests"]),
        "runs_per_hour": round(n / max(wall_batch, 1e-9) * 3600),
        "worker_processes": procs,
        "simulated_seconds": round(total["sim_s"], 3),
        "scheduler_steps": total["steps"],
        "thread_switches": total["switches"],
        "line_preemptions": total["preempts"],
        "faults_fired": dict(total["faults"]),
        "probes": {p: total["probes"].get(p, 0) for p in sorted(set(world.PROBES) | set(total["probes"]))},
        "probes_never_hit": starved,
        "disturbed_runs": dict(total["disturbed"]),
        "violating_runs": total["violating_runs"],
        "violation_signatures": {s: total["violcount"][s] for s in sorted(total["violcount"])},
        "known_finding_signatures_seen": sorted(s for s in total["viol"] if s in kn),
        "determinism_selftest": selftest,
        "components_real": world.REAL,
        "components_stub": world.STUB,
        "regression_replays": total.get("regress", {}),
        "exit_status": status,
        "exhaustive": False,
        "notes": notes,
    }
    ev = {"property_id": prop, "tier": tier, "seed": base, "level": world.LEVEL, "coverage": cov,
          "assumptions": world.ASSUMPTIONS, "wall_s": round(wall, 2), "violations": len(new_viol)}
    os.makedirs(os.path.join(VERIF, "evidence"), exist_ok=True)
    with open(os.path.join(VERIF, "evidence", "%s.json" % prop), "w") as f:
        json.dump(ev, f, indent=1, default=str)
