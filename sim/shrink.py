"""Class-preserving minimisation of a failing plan: ddmin over operation / fault lists and over the
explicit schedule (list of non-default scheduling choices), plus world-specific simplifications."""
import copy
import time

from .world import signature


def has_sig(world, res, sig):
    if res.get("harness"):
        return False
    return any(signature(world.PROPERTY, v) == sig for v in res["violations"])


def _step(o, p):
    if isinstance(o, dict):
        return o.get(p)
    if isinstance(o, list) and p.isdigit() and int(p) < len(o):
        return o[int(p)]
    return None


def _get(plan, path):
    o = plan
    for p in path.split("."):
        if o is None:
            return None
        o = _step(o, p)
    return o


def _set(plan, path, val):
    ps = path.split(".")
    o = plan
    for p in ps[:-1]:
        o = _step(o, p)
    if isinstance(o, list):
        o[int(ps[-1])] = val
    else:
        o[ps[-1]] = val


def ddmin(items, test, deadline):
    items = list(items)
    n = 2
    while len(items) >= 2 and time.time() < deadline:
        chunk = max(1, len(items) // n)
        reduced = False
        for i in range(0, len(items), chunk):
            if time.time() >= deadline:
                break
            cand = items[:i] + items[i + chunk:]
            if test(cand):
                items = cand
                n = max(n - 1, 2)
                reduced = True
                break
        if not reduced:
            if chunk == 1:
                break
            n = min(n * 2, len(items))
    if len(items) == 1 and time.time() < deadline and test([]):
        items = []
    return items


def explicit(world, plan, sig):
    """turn a random-schedule plan into its explicit sparse choice list (exactly the same run)"""
    if plan["sched"].get("mode") == "replay":
        return plan
    res = world.run(plan)
    if not has_sig(world, res, sig):
        return None
    p2 = copy.deepcopy(plan)
    p2["sched"] = {"mode": "replay", "choices": res["choices"]}
    r2 = world.run(p2)
    if has_sig(world, r2, sig):
        return p2
    return None


def shrink(world, plan, sig, budget_s=30.0):
    """returns (minimised plan, number of test runs)"""
    deadline = time.time() + budget_s
    tests = [0]
    best = explicit(world, plan, sig)
    if best is None:
        return plan, 0

    def ok(p):
        tests[0] += 1
        return has_sig(world, world.run(p), sig)

    progress = True
    while progress and time.time() < deadline:
        progress = False
        for path in world.SHRINK_LISTS:
            lst = _get(best, path)
            if not lst:
                continue

            def test_list(cand, path=path):
                p = copy.deepcopy(best)
                _set(p, path, cand)
                return ok(p)
            new = ddmin(lst, test_list, deadline)
            if len(new) < len(lst):
                _set(best, path, new)
                progress = True
        ch = best["sched"].get("choices", [])
        if ch:
            def test_ch(cand):
                p = copy.deepcopy(best)
                p["sched"]["choices"] = cand
                return ok(p)
            new = ddmin(ch, test_ch, deadline)
            if len(new) < len(ch):
                best["sched"]["choices"] = new
                progress = True
        for cand in world.simplify(copy.deepcopy(best)):
            if time.time() >= deadline:
                break
            if ok(cand):
                best = cand
                progress = True
                break
    return best, tests[0]
