"""C11 - a batch behaves like the same calls made one after another.

Targets: two registered INSTANCES (A batch / B one by one), or two registrations of identical module-level CLASSES in
instance mode "session" (state per connection) or "percall" (fresh instance per request; reference = fresh session
instance per batch).  With class targets a second client with its own connections does the same with other calls,
and the first client may release, reconnect (fresh session instances) and batch again.

Three identical stateful objects of one exposed class live in a real Daemon (both server types): A receives the
generated call sequence as ONE batch (BatchProxy, normal or one-way), B receives the same sequence call by call
through a normal proxy, stopping at the first failure - B is the executable reference.  A local, never-remoted
instance M replays B's prefix in-process and guards the reference itself.  C is hammered by an unrelated
background client.  A second batch on the same BatchProxy follows in part of the runs.  At quiescence the states
of A and B are compared directly and through fresh normal calls.
"""
import array
import copy
import errno
import json
import select as _select
import socket as _socket
import sys
import threading
import uuid

from ..world import World
from .. import sched as S
from .. import net as N
from .common import Server, SERIALIZERS
from ..seams import config, CL, SV, SU
import Pyro5.api as api
import Pyro5.errors as E     # noqa: E402 (used by the exception table right below)


_RUN = {"sched": None}


def _user_exc(name):
    """an application exception class of THIS module whose short name may collide with a builtin / Pyro5 exception"""
    return type(name, (Exception,), {"__module__": __name__, "__qualname__": name})


# user classes: round-trip through a registered dict-to-class converter for their qualified name (see _UserExcs)
def _str_fails(self):
    raise RuntimeError("this exception cannot be rendered as text")


USER_EXCS = {"u_timeout": _user_exc("TimeoutError"), "u_naming": _user_exc("NamingError"), "u_key": _user_exc("KeyError"),
             "u_conn": _user_exc("ConnectionClosedError"), "u_app": _user_exc("AppError"),
             # an application exception whose __str__ raises (whoever formats it for a log line or an error text finds out)
             "u_nostr": type("Unprintable", (Exception,), {"__module__": __name__, "__qualname__": "Unprintable", "__str__": _str_fails})}
# StopIteration is drawn rarely (known finding, see BatchWorld.ASSUMPTIONS); never raised: Pyro5 CommunicationError / SecurityError
# (handleRequest treats those specially for a single call: no reply / connection dropped - not a batch matter)
FAIL_KINDS = {"timeout": TimeoutError, "connreset": ConnectionResetError, "conn": ConnectionError, "brokenpipe": BrokenPipeError,
              "key": KeyError, "lookup": LookupError, "runtime": RuntimeError, "os": OSError, "interrupted": InterruptedError,
              "arith": ArithmeticError, "naming": E.NamingError, "daemon": E.DaemonError, "pyro": E.PyroError,
              "stopiter": StopIteration}
FAIL_KINDS.update(USER_EXCS)
GEN_FAIL_KINDS = sorted(k for k in FAIL_KINDS if k != "stopiter")       # "stopiter" is drawn separately (rarely)


def _safe_str(x):
    try:
        return str(x)
    except Exception:  # noqa - workload exceptions may refuse to be rendered
        return "<unprintable %s>" % type(x).__name__


def qualname(t):
    return "%s.%s" % (t.__module__, t.__qualname__)


class _UserExcs:
    """dict-to-class converters for the user exception classes, registered for the duration of a run"""

    @staticmethod
    def install():
        import Pyro5.serializers as SER
        for cls in USER_EXCS.values():
            SER.SerializerBase.register_dict_to_class(qualname(cls), lambda name, d, cls=cls: cls(*d.get("args", ())))

    @staticmethod
    def uninstall():
        import Pyro5.serializers as SER
        for cls in USER_EXCS.values():
            SER.SerializerBase.unregister_dict_to_class(qualname(cls))


class Acc:
    """exposure is per method: `hidden` is deliberately left unexposed, `_secret` is private"""

    def __init__(self):
        self.total = 0
        self.items = []
        self.kv = {}
        self.last = None
        self.log = []

    def _snapshot(self):
        return copy.deepcopy({"total": self.total, "items": self.items, "kv": self.kv, "last": self.last, "log": self.log})

    @api.expose
    def add(self, x):
        self.log.append(["add", x])
        self.total += x
        return self.total

    @api.expose
    def addneg(self, x):
        self.log.append(["addneg", x])
        self.total -= x
        return self.total

    @api.expose
    def flip(self):
        """re-binds an exposed method ON THE INSTANCE: until the next flip(), add() is addneg() (an object that switches
        behaviour: what a name resolves to can change between two calls of one batch)"""
        self.log.append(["flip"])
        if "add" in self.__dict__:
            del self.__dict__["add"]
        else:
            self.add = self.addneg
        return "add" in self.__dict__

    @api.expose
    def req(self, path, method="GET"):
        """a method with a parameter called 'method' (an http-style facade): code that forwards **kwargs through a helper
        with a parameter of that name trips over it"""
        self.log.append(["req", path, method])
        self.last = [path, method]
        return "%s %s" % (method, path)

    @api.expose
    def push(self, v):
        self.log.append(["push", v])
        self.items.append(v)
        return len(self.items)

    @api.expose
    def put(self, key, value=None, times=1):
        self.log.append(["put", key, value, times])
        self.kv[key] = [value] * times
        return [len(self.kv), times]

    @api.expose
    def get(self):
        self.log.append(["get"])
        return self._snapshot()

    @api.expose
    def ident(self):
        """result of a type that every serializer converts on the way (uuid -> text)"""
        self.log.append(["ident"])
        return uuid.UUID(int=len(self.log) * 0x10001 + 7)

    @api.expose
    def arr(self, n):
        """result of a type that every serializer converts on the way (array -> list)"""
        self.log.append(["arr", n])
        return array.array("i", range(n % 7))

    @api.expose
    def div(self, a, b):
        self.log.append(["div", a, b])
        self.last = a / b
        return self.last

    @api.expose
    def check(self, x):
        self.log.append(["check", x])
        if x < 0:
            raise ValueError(x, "negative")
        self.last = x
        return [x, len(self.log)]

    @api.expose
    def work(self, d):
        """takes d seconds of the run's virtual clock (nothing on the local, never-remoted model instance)"""
        self.log.append(["work", d])
        s = _RUN.get("sched")
        if s is not None and not getattr(self, "_local", False):
            s.sleep(d)
        self.last = d
        return len(self.log)

    @api.expose
    def fail(self, kind, x):
        """raises its own exception of the requested type: builtin, Pyro5, or an application class"""
        self.log.append(["fail", kind, x])
        cls = FAIL_KINDS[kind]
        if kind == "os":
            raise OSError(1 + x % 30, "boom %d" % x)
        if x % 3 == 0:
            # an argument that is a container (the offending values, a key): it must arrive as what it is, batched or not
            raise cls(x, kind, [x, [kind, None]], {"k": x})
        raise cls(x, kind)

    def hidden(self, x):
        self.log.append(["hidden", x])
        self.total += 1000
        return "hidden-ran"

    def _secret(self, x):
        self.log.append(["_secret", x])
        self.total += 100000
        return "secret-ran"


class _Tracked(Acc):
    """registered as a CLASS: the daemon creates the instances (per connection / per request); every instance
    is remembered so that the judge can look at all of them at quiescence"""

    def __init__(self):
        super().__init__()
        type(self)._made.append(self)


@api.behavior(instance_mode="session")
class AccSA(_Tracked):
    _made = []


@api.behavior(instance_mode="session")
class AccSB(_Tracked):
    _made = []


@api.behavior(instance_mode="percall")
class AccPA(_Tracked):
    _made = []


@api.behavior(instance_mode="session")
class AccPB(_Tracked):
    """reference of the per-call class: a batch on a per-call class runs on ONE fresh instance, so the identical object
    for the one-by-one run is a fresh session instance (the reference connection is renewed before every batch)"""
    _made = []


CLASS_TARGETS = {"session": (AccSA, AccSB), "percall": (AccPA, AccPB)}


NAME_FAILS = {"hidden": "unexposed_name", "_secret": "private_name", "nosuch": "missing_name"}
_INT64 = [2 ** 31, 2 ** 53 + 1, 2 ** 62, -2 ** 62, 2 ** 63 - 1, -2 ** 63, 2 ** 64 - 1]
_HUGE = [2 ** 64, 2 ** 70 + 3, -2 ** 90, 10 ** 30]
_FLOATS = [0.1, -0.0, 1.5, -2.25, 1e-9, 3.141592653589793, 1.5e300, -7e22, 2.0 ** 53]
_STRS = ["", "a", "hello world", "héllo", "中文", "\U0001f600 smile", "line\nbreak\t\"quote\"'", "x" * 150, "é" * 70]
_KEYS = ["k", "key2", "ümlaut", "K" * 40]


def _num(rng, huge):
    r = rng.random()
    if r < 0.5:
        return rng.randint(-20, 50)
    if r < 0.7:
        return rng.choice(_INT64 + (_HUGE if huge else []))
    return rng.choice(_FLOATS)


def _val(rng, huge, depth=0):
    r = rng.random()
    if r < 0.3:
        return _num(rng, huge)
    if r < 0.5:
        return rng.choice(_STRS)
    if r < 0.57:
        return None
    if r < 0.65:
        return rng.random() < 0.5
    if depth >= 2:
        return rng.randint(0, 9)
    if r < 0.85:
        return [_val(rng, huge, depth + 1) for _ in range(rng.randint(0, 3))]
    return {rng.choice(_KEYS): _val(rng, huge, depth + 1) for _ in range(rng.randint(0, 3))}


def _call(rng, huge, slow=False):
    k = rng.choices(["add", "push", "put", "get", "div", "check", "hidden", "_secret", "nosuch", "addstr", "work", "fail", "ident", "arr", "flip"],
                    [4, 3, 3, 1, 2, 2, 0.35, 0.35, 0.25, 0.2, 10 if slow else 0.3, 2.2, 0.8, 0.6, 0.9])[0]
    if k == "flip":
        if rng.random() < 0.4:
            kw = rng.choice([{"method": "POST"}, {"method": "PUT"}, {"method": "DELETE"}, {}])    # (a keyword 'self' cannot even leave the client)
            return {"m": "req", "a": ["/p%d" % rng.randint(0, 9)], "k": kw}
        return {"m": "flip", "a": [], "k": {}}
    if k == "ident":
        return {"m": "ident", "a": [], "k": {}}
    if k == "arr":
        return {"m": "arr", "a": [rng.randint(0, 20)], "k": {}}
    if k == "fail":
        # StopIteration rarely: a batch hands it to its consumer as RuntimeError (PEP 479, known finding with a signature of its own)
        kind = "stopiter" if rng.random() < 0.06 else rng.choice(GEN_FAIL_KINDS + ["u_nostr", "u_nostr"])
        return {"m": "fail", "a": [kind, rng.randint(0, 99)], "k": {}}
    if k == "work":
        return {"m": "work", "a": [rng.choice([0.4, 0.5, 0.6, 0.7])], "k": {}}
    if k == "add":
        return {"m": "add", "a": [_num(rng, huge)], "k": {}}
    if k == "addstr":       # a method that fails by itself on the argument type
        return {"m": "add", "a": [rng.choice(["oops", None, [1]])], "k": {}}
    if k == "push":
        return {"m": "push", "a": [_val(rng, huge)], "k": {}}
    if k == "put":
        key, v, t = rng.choice(_KEYS), _val(rng, huge), rng.randint(0, 3)
        shape = rng.randint(0, 4)
        if shape == 0:
            return {"m": "put", "a": [key, v, t], "k": {}}
        if shape == 1:
            return {"m": "put", "a": [key], "k": {"value": v}}
        if shape == 2:
            return {"m": "put", "a": [key], "k": {"times": t, "value": v}}
        if shape == 3:
            return {"m": "put", "a": [], "k": {"key": key, "value": v, "times": t}}
        return {"m": "put", "a": [key], "k": {}}
    if k == "get":
        return {"m": "get", "a": [], "k": {}}
    if k == "div":
        a = _num(rng, False)
        b = 0 if rng.random() < 0.3 else rng.choice([1, 2, 3, -4, 0.5, 7, 0.0 if rng.random() < 0.2 else 8])
        return {"m": "div", "a": [a, b], "k": {}}
    if k == "check":
        x = rng.randint(-30, -1) if rng.random() < 0.35 else rng.randint(0, 99)
        return {"m": "check", "a": [x], "k": {}}
    return {"m": k, "a": [rng.randint(0, 9)], "k": {}}


def _wire_form(v):
    """what every serializer makes of the two convertible result types on their way to the client"""
    if isinstance(v, uuid.UUID):
        return str(v)
    if isinstance(v, array.array):
        return v.tolist()
    return v


def same(a, b):
    """equality that also distinguishes 1 / 1.0 / True, list / tuple and -0.0 / 0.0"""
    if type(a) is not type(b):
        return False
    if isinstance(a, (list, tuple)):
        return len(a) == len(b) and all(same(x, y) for x, y in zip(a, b))
    if isinstance(a, dict):
        return a.keys() == b.keys() and all(same(v, b[k]) for k, v in a.items())
    if isinstance(a, float):
        return repr(a) == repr(b)
    return a == b


def short(v):
    r = repr(v)
    return r if len(r) <= 160 else r[:157] + "..."


_CODES = None


def _codes():
    global _CODES
    if _CODES is None:
        _CODES = S.code_objects(SV.Daemon.handleRequest)
    return _CODES


_SER_CODES = None


def _ser_codes():
    global _SER_CODES
    if _SER_CODES is None:
        import Pyro5.serializers as SER
        import Pyro5.core as CORE
        _SER_CODES = S.code_objects(*([v for v in vars(SER).values()
                                       if (isinstance(v, type) and v.__module__ == SER.__name__) or
                                       (hasattr(v, "__code__") and getattr(v, "__module__", "") == SER.__name__)]
                                      + [CORE._ExceptionWrapper]))
    return _SER_CODES


class BatchWorld(World):
    PROPERTY = "C11"
    NAME = "batch"
    LEVEL = "exploration"
    REAL = ["Pyro5.client.BatchProxy/_BatchedRemoteMethod/Proxy._pyroInvokeBatch/_pyroInvoke/_RemoteMethod",
            "Pyro5.server.Daemon.handleRequest (batch branch, _get_attribute, exposure metadata)",
            "Daemon._getInstance (registered instances, session-mode and percall-mode classes)", "Pyro5.core._ExceptionWrapper",
            "Pyro5.serializers (all four)", "Pyro5.protocol (compression on/off)", "SocketServer_Threadpool / SocketServer_Multiplex",
            "socketutil.receive_data/send_data (MSG_WAITALL on/off, fragmented receives)"]
    STUB = ["sockets/selector (in-memory)", "threads (baton scheduler, line pre-emption in handleRequest on the thread server)",
            "time (virtual clock)", "uuid4 (seeded)"]
    PROBES = ["empty_batch", "all_ok", "failure_midway", "failure_first", "unexposed_name", "private_name", "missing_name",
              "oneway_batch", "oneway_with_failure", "state_compared", "serpent", "json", "marshal", "msgpack",
              "multiplex", "thread", "second_batch", "concurrent", "kwargs", "failure_at_position", "failure_at_submission", "oversize_batch", "oversize_batch_refused",
              "background_interleaved", "compressed", "fragmented", "instance_target", "session_class", "percall_class",
              "peer_client", "reconnected", "session_state_compared", "class_instances_compared", "slow_batch",
              "hangup_after_oneway", "abandoned_slow_oneway", "client_gave_up", "serializer_lines",
              "exc_builtin", "exc_pyro", "exc_user", "exc_name_collision", "stopiteration_in_batch", "consume_for_loop", "rst_after_oneway"]
    RULE = ("plan = (target: registered instances / session-mode classes / percall-mode classes; server type, serializer, "
            "compression, MSG_WAITALL, fragmentation, batch mode normal/one-way, 0-8 calls over add/push/put(kwargs)/get/div/check/"
            "hidden/_secret/nosuch with arguments from the lossless core, optional second batch of 0-4 calls on the same BatchProxy; "
            "instances: batch and sequential run in one thread or concurrently; classes: a peer client with its own connections and "
            "its own batches, optional release + reconnect + third batch; 0-6 background calls on a third object, start delays, "
            "pre-emption probabilities); distinct = distinct plan x interleaving digest; "
            "non-trivial = a batch of at least one call was submitted and judged against the sequential reference")
    ASSUMPTIONS = ["arguments stay inside the lossless core every serializer transports unchanged (lists not tuples, str dict keys, "
                   "finite floats; under msgpack integer ARGUMENTS stay inside 64 bits: msgpack's loadsCall has no ext_hook - a C01 matter)",
                   "for an unexposed / private / missing name only the class AttributeError is compared (the sequential proxy refuses "
                   "client-side from metadata, the batch is refused by the server; the texts differ by design)",
                   "a failure that surfaces when the batch is submitted hides the earlier results; only their effects are compared",
                   "after a submission that raised, the next batch uses a fresh BatchProxy (re-use of a BatchProxy whose submission "
                   "failed is not covered by the statement)",
                   "a one-way batch is judged at quiescence (all threads idle, 0.5 virtual seconds later)",
                   "session-mode class: the identical object of a connection's batches is the session instance of the reference "
                   "connection (same client, same generation); states are read with get() on those same connections",
                   "percall-mode class: a batch runs on one fresh instance, so its identical object is a fresh instance that gets the "
                   "calls one by one (a session-mode reference class whose connection is renewed before every batch)",
                   "instances the daemon created for a class are compared as a multiset of states, untouched instances ignored",
                   "a batched call that raises StopIteration reaches the consumer of the result generator as RuntimeError('generator "
                   "raised StopIteration') (PEP 479): reported under its own signature failure-mismatch/position:StopIteration-as-"
                   "RuntimeError, only when the reference raised builtins.StopIteration at that very position; prefix, results "
                   "and state of such a batch are judged as usual"]
    QUICK_RUNS = 4000
    CHUNK = 100
    SHRINK_LISTS = ["calls", "second", "again", "peer.calls", "peer.second", "oversize.calls"]

    # ------------------------------------------------------------------
    def gen(self, rng, tier):
        big = tier == "thorough"
        servertype = rng.choice(["thread", "multiplex"])
        serializer = rng.choice(SERIALIZERS)
        huge = serializer != "msgpack"
        lines = servertype == "thread" and rng.random() < 0.6
        target = rng.choices(["instance", "session", "percall"], [5, 3, 2])[0]
        modes = ["normal", "normal", "oneway"]
        slow = rng.random() < 0.3
        n = rng.randint(0, 8)
        calls = [_call(rng, huge, slow) for _ in range(n)]
        second = None
        if rng.random() < 0.35:
            second = [_call(rng, huge, slow) for _ in range(rng.randint(0, 6 if big else 4))]
        plan = {"target": target, "servertype": servertype, "serializer": serializer, "compression": rng.random() < 0.35,
                "waitall": rng.random() < 0.5, "mode": rng.choice(modes),
                "calls": calls, "second": second, "mode2": rng.choice(modes),
                "concurrent": rng.random() < 0.5, "a_first": rng.random() < 0.5, "bg": rng.choice([0, 2, 4, 6]),
                "net": {"p_frag": rng.choice([0.0, 0.0, 0.3, 0.8]), "shuffle_select": rng.random() < 0.5},
                "lines": lines, "p_line": rng.choice([0.01, 0.03, 0.1]) if lines else 0.0,
                "p_block": rng.choice([0.0, 0.2, 0.6, 1.0]),
                # the client releases its proxy right after submitting a one-way batch (fire and forget)
                "hangup": rng.random() < (0.75 if slow else 0.4), "impatient": None, "ser_lines": False,
                "commtimeout": rng.choice([0, 0, 0, 90.0]), "consume": rng.choice(["next", "for"])}
        if plan["hangup"] and rng.random() < 0.4:
            # abortive variant: the client's socket is reset right after the one-way batch(es); queued bytes stay readable
            plan["hangup"] = "rst"
            plan["net"]["rst_discards_rx"] = False
        if slow and rng.random() < 0.5:
            plan["mode"] = "oneway"
        if servertype == "thread" and rng.random() < (0.6 if serializer == "msgpack" else 0.25):
            # pre-emption at source lines inside Pyro5.serializers too (hooks that run in the middle of a dumps())
            plan["lines"] = plan["ser_lines"] = True
            plan["p_line"] = rng.choice([0.02, 0.05, 0.1, 0.3])
            plan["bg"] = max(plan["bg"], 4)         # somebody else serialises at the same time
            plan["concurrent"] = True
        if target == "instance" and slow and rng.random() < 0.35:
            # a normal batch whose client gives up waiting (proxy timeout) while the server is still running it
            plan["impatient"] = rng.choice([0.5, 0.9, 1.3])
            plan["mode"] = "normal"
            plan["second"] = None
        if rng.random() < 0.02:
            # a LONG batch (size boundaries: a client or server that splits, chunks or pre-allocates shows here): cheap calls and
            # one failing call somewhere (or none); everything else plain
            n = rng.choice([130, 257, 501, 513, 1001, 1030])
            calls = [{"m": "add", "a": [rng.randint(-5, 9)], "k": {}} if rng.random() < 0.8 else {"m": "push", "a": [rng.randint(0, 99)], "k": {}}
                     for _ in range(n)]
            if rng.random() < 0.75:
                calls[rng.randrange(n)] = rng.choice([{"m": "check", "a": [-3], "k": {}}, {"m": "div", "a": [1, 0], "k": {}},
                                                      {"m": "hidden", "a": [1], "k": {}}, {"m": "fail", "a": ["key", 5], "k": {}}])
            plan.update(target="instance", calls=calls, second=None, lines=False, ser_lines=False, p_line=0.0, p_block=0.0, bg=0,
                        concurrent=False, impatient=None, hangup=False, commtimeout=0, long=True)
            plan["net"]["p_frag"] = 0.0
            target = "instance"
        if "long" not in plan and rng.random() < 0.03:
            # a batch beyond MAX_MESSAGE_SIZE (every single call fits): one failing call early, many calls behind it
            n = rng.randint(20, 60)
            calls = [{"m": "push", "a": ["x" * rng.choice([60, 100, 150])], "k": {}} for _ in range(n)]
            if rng.random() < 0.8:
                calls[rng.randint(0, 6)] = rng.choice([{"m": "check", "a": [-3], "k": {}}, {"m": "div", "a": [1, 0], "k": {}},
                                                       {"m": "hidden", "a": [1], "k": {}}, {"m": "fail", "a": ["key", 5], "k": {}}])
            return {"servertype": servertype, "serializer": serializer, "net": {"p_frag": 0.0, "shuffle_select": False}, "p_block": 0.0,
                    "oversize": {"limit": rng.choice([1000, 1500, 2000]), "calls": calls, "mode": rng.choice(["normal", "normal", "oneway"])}}
        if any(c["m"] == "fail" and c["a"][0] == "u_nostr" for c in calls) and rng.random() < 0.6:
            plan["debuglog"] = True     # Pyro's logging at DEBUG: whatever formats the exception for a log line meets its __str__
        if target != "instance":
            plan["concurrent"] = False
            plan["start"] = rng.choice([0, 0, 0.01, 2.0])
            plan["again"] = [_call(rng, huge, slow) for _ in range(rng.randint(0, 5))] if rng.random() < 0.5 else None
            plan["mode3"] = rng.choice(modes)
            plan["peer"] = None
            if rng.random() < 0.75:
                plan["peer"] = {"calls": [_call(rng, huge, slow) for _ in range(rng.randint(0, 6))], "mode": rng.choice(modes),
                                "second": [_call(rng, huge, slow) for _ in range(rng.randint(0, 4))] if rng.random() < 0.35 else None,
                                "mode2": rng.choice(modes), "start": rng.choice([0, 0, 0.01, 2.0]), "a_first": rng.random() < 0.5}
        return plan

    def line_codes(self, plan):
        if not plan.get("lines"):
            return ()
        return _codes() + _ser_codes() if plan.get("ser_lines") else _codes()

    def simplify(self, plan):
        if plan.get("oversize"):
            return
        if plan.get("second") is not None and not plan["second"]:
            yield dict(plan, second=None)
        if plan.get("again") is not None and not plan["again"]:
            yield dict(plan, again=None)
        if plan.get("peer") is not None:
            pe = plan["peer"]
            if not pe["calls"] and not pe.get("second"):
                yield dict(plan, peer=None)
            if pe.get("second") is not None and not pe["second"]:
                yield dict(plan, peer=dict(pe, second=None))
            if pe.get("start"):
                yield dict(plan, peer=dict(pe, start=0))
        if plan.get("start"):
            yield dict(plan, start=0)
        if plan.get("hangup") == "rst":
            yield dict(plan, hangup=True)
        if plan.get("hangup"):
            yield dict(plan, hangup=False)
        if plan.get("commtimeout"):
            yield dict(plan, commtimeout=0)
        if plan.get("ser_lines"):
            yield dict(plan, ser_lines=False)
        if plan["compression"]:
            yield dict(plan, compression=False)
        if plan["net"].get("p_frag"):
            yield dict(plan, net=dict(plan["net"], p_frag=0.0))
        if plan["bg"]:
            yield dict(plan, bg=0)
        if plan["concurrent"]:
            yield dict(plan, concurrent=False)
        if not plan["waitall"]:
            yield dict(plan, waitall=True)
        for key in ("calls", "second", "again"):
            for i, c in enumerate(plan.get(key) or []):
                for j, v in enumerate(c["a"]):
                    if isinstance(v, (list, dict, str)) and v:
                        cs = copy.deepcopy(plan[key])
                        cs[i]["a"][j] = 1
                        yield dict(plan, **{key: cs})
                if c["k"] and c["m"] == "put" and c["a"]:
                    cs = copy.deepcopy(plan[key])
                    cs[i]["k"] = {}
                    yield dict(plan, **{key: cs})

    # ------------------------------------------------------------------
    def scenario(self, ctx):
        registered = []
        _RUN["sched"] = ctx.sched
        _UserExcs.install()
        try:
            if ctx.plan.get("oversize"):
                self._oversize(ctx)
            else:
                self._scenario(ctx, registered)
        finally:
            _UserExcs.uninstall()
            _RUN["sched"] = None
            for daemon, cls in registered:
                try:
                    daemon.unregister(cls)      # module-level classes must not keep this run's daemon alive
                except Exception:  # noqa
                    pass
                cls._made = []

    def _oversize(self, ctx):
        """focus shape 'batch beyond MAX_MESSAGE_SIZE' (own small oracle): every single call fits, the batch request does not.
        Whatever the client makes of that - refuse it as a whole, or send it in parts - no call after the first failing one may
        run, and a batch that was refused as a whole must have run nothing."""
        plan, sched, ov = ctx.plan, ctx.sched, ctx.plan["oversize"]
        config.SERIALIZER = plan["serializer"]
        config.COMPRESSION = False
        config.MAX_RETRIES = 0
        config.MAX_MESSAGE_SIZE = int(ov["limit"])
        srv = Server(ctx, plan["servertype"], pool=(1, 4))
        acc = Acc()
        uri = srv.register(acc, "objA")
        calls = json.loads(json.dumps(ov["calls"]))
        k = next((i for i, c in enumerate(calls) if c["m"] in ("check", "div", "fail", "hidden")), None)
        px = CL.Proxy(uri)
        px._pyroBind()
        bp = CL.BatchProxy(px)
        for c in calls:
            getattr(bp, c["m"])(*c["a"], **c["k"])
        sub_exc = it_exc = None
        results = []
        try:
            r = bp(oneway=ov["mode"] == "oneway")
            if r is not None:
                try:
                    for v in r:
                        results.append(v)
                except Exception as x:  # noqa
                    it_exc = x
        except Exception as x:  # noqa
            sub_exc = x
        sched.settle()
        sched.sleep(1.0)
        sched.settle()
        ctx.nontrivial = True
        ctx.probe("oversize_batch")
        ran = [e[0] for e in acc.log]
        tag = "batch of %d calls (%s) with MAX_MESSAGE_SIZE=%d" % (len(calls), ov["mode"], ov["limit"])
        refused = isinstance(sub_exc, E.ProtocolError) and any(w in str(sub_exc).lower() for w in ("size", "too large"))
        if isinstance(sub_exc, E.CommunicationError) and not refused:
            ctx.disturbed = "oversize batch lost its connection: %s" % sub_exc
        elif refused:
            ctx.probe("oversize_batch_refused")
            if ran:
                ctx.violate("oversized-batch-partially-executed", ov["mode"], "%s was refused (%s: %s) yet %d of its calls ran"
                            % (tag, type(sub_exc).__name__, sub_exc, len(ran)))
        else:
            # the client found a way to submit it: then it is a batch like any other
            if k is not None and len(ran) > (k if calls[k]["m"] == "hidden" else k + 1):
                ctx.violate("oneway-state-mismatch" if ov["mode"] == "oneway" else "state-mismatch", "executed-after-failure:oversize",
                            "%s: call %d (%s) fails, yet %d calls ran: %r" % (tag, k, calls[k]["m"], len(ran), ran[k:k + 4]))
            elif k is None and len(ran) != len(calls) and sub_exc is None and it_exc is None:
                ctx.violate("state-mismatch", "calls-lost:oversize", "%s was submitted without an error, %d of its calls ran" % (tag, len(ran)))
        if not srv.loop_alive():
            ctx.disturbed = "daemon loop died: %r" % (srv.loop_death(),)
        px._pyroRelease()

    def _scenario(self, ctx, registered):
        plan, sched = ctx.plan, ctx.sched
        target = plan.get("target", "instance")
        # marshal writes back-references for shared objects: the size of a message depends on the identity structure of the
        # argument values.  A generated plan (interned literals, shared constants) and the same plan loaded from a replay file
        # differ in exactly that, so every run works on a JSON round trip of the calls.
        jp = json.loads(json.dumps({k: plan.get(k) for k in ("calls", "second", "again", "peer")}))
        config.SERIALIZER = plan["serializer"]
        # the handshake reply carries the exposed-member SETS of the object: their iteration order depends on the string
        # hash seed, and so would the compressed length (-> recv sizes in the run digest).  All clients therefore connect
        # uncompressed, meet at a barrier, and only then is compression switched on for the calls themselves; a later
        # reconnect switches it off again for as long as it takes.
        config.COMPRESSION = False
        config.MAX_RETRIES = 0
        SU.USE_MSG_WAITALL = bool(plan["waitall"])
        # a server-side COMMTIMEOUT gives the accepted sockets a timeout: MSG_WAITALL no longer applies there and the server's
        # receives come in pieces too (far longer than any run, so no connection is ever dropped for idling)
        srv = Server(ctx, plan["servertype"], pool=(1, 10), commtimeout=float(plan.get("commtimeout") or 0.0))
        # (accepted sockets take it from config when they are accepted; the proxies of this run wait as long as it takes)
        objA = objB = None
        if target == "instance":
            objA, objB = Acc(), Acc()
            uriA = srv.register(objA, "objA")
            uriB = srv.register(objB, "objB")
        else:
            clsA, clsB = CLASS_TARGETS[target]
            for c in (clsA, clsB):
                c._made = []
            uriA = srv.register(clsA, "accA")
            registered.append((srv.daemon, clsA))
            uriB = srv.register(clsB, "accB")
            registered.append((srv.daemon, clsB))
        objC = Acc()
        uriC = srv.register(objC, "objC")
        units = []          # one per (client, connection generation[, batch]): what was batched on A and done one by one on B
        errors = []         # scaffolding failures of client threads
        bg = {"done": 0, "errors": [], "stamps": []}
        marks = {}
        gate = {"arrived": 0, "expected": 0, "errors": [], "open": False, "nocomp": 0}
        flags = {"reconnected": False}

        def describe(x):
            tb, last = x.__traceback__, None
            while tb is not None:
                last = tb.tb_frame.f_code.co_filename
                tb = tb.tb_next
            # "own": raised by this file's own code (a harness bug if it escapes a call), not somewhere below the Pyro5 API
            cause = getattr(x, "__cause__", None)
            return {"cause": None if cause is None else [qualname(type(cause)), list(getattr(cause, "args", ()))],
                    "cls": qualname(type(x)), "args": list(getattr(x, "args", ())), "comm": isinstance(x, E.CommunicationError),
                    "text": _safe_str(x)[:200], "own": last == __file__}

        def client(uris, body):
            """connect everything, wait for the other clients, then run body(*proxies)"""
            proxies = []
            try:
                for u in uris:
                    p = CL.Proxy(u)
                    p._pyroTimeout = None
                    p._pyroBind()
                    proxies.append(p)
            except Exception as x:  # noqa
                gate["errors"].append(describe(x))
            gate["arrived"] += 1
            if gate["arrived"] == gate["expected"]:
                gate["open"] = True
                config.COMPRESSION = bool(plan["compression"])
            sched.block(lambda: gate["arrived"] >= gate["expected"], 600.0, "connect-barrier")
            if len(proxies) == len(uris):
                try:
                    body(*proxies)
                except Exception as x:  # noqa
                    errors.append(describe(x))
            for p in proxies:
                try:
                    p._pyroRelease()
                except Exception:  # noqa
                    pass

        def reconnect(p):
            gate["nocomp"] += 1
            config.COMPRESSION = False
            try:
                p._pyroRelease()
                p._pyroBind()
            finally:
                gate["nocomp"] -= 1
                if gate["nocomp"] == 0 and gate["open"]:
                    config.COMPRESSION = bool(plan["compression"])

        def new_unit(tag, kind, batches):
            u = {"tag": tag, "kind": kind, "batches": batches, "outA": [], "outB": [], "getA": None, "getB": None}
            units.append(u)
            return u

        # ---- (a) the batches on A (one BatchProxy, re-used from batch to batch)
        def run_batches(p, batches, outA, hold, kind="instance"):
            for bi, (calls, mode) in enumerate(batches):
                b = hold.get("bp")
                if b is None:
                    b = hold["bp"] = api.BatchProxy(p)
                rec = {"results": [], "submit_exc": None, "iter_exc": None, "ret_none": None, "n": len(calls)}
                outA.append(rec)
                for c in calls:
                    getattr(b, c["m"])(*copy.deepcopy(c["a"]), **copy.deepcopy(c["k"]))
                try:
                    r = b(oneway=True) if mode == "oneway" else b()
                except Exception as x:  # noqa - an outcome
                    rec["submit_exc"] = describe(x)
                    hold["bp"] = None
                    continue
                if mode == "oneway":
                    rec["ret_none"] = r is None
                    rec["ret"] = type(r).__name__
                    hang = plan.get("hangup")
                    if hang == "rst":
                        if ctx.net.rst_discards_rx:
                            hang = True     # a reset that discards what is queued: nothing could be demanded; close orderly instead
                        elif bi + 1 < len(batches) and batches[bi + 1][1] == "oneway":
                            hang = False    # pipeline the next one-way batch behind this one, the reset comes after the last
                    if hang and (kind != "session" or bi == len(batches) - 1):
                        # fire and forget: the connection is closed as soon as the request is on the wire (a session
                        # instance lives and dies with its connection, so there only after the generation's last batch)
                        rec["hung_up"] = True
                        if hang == "rst" and p._pyroConnection is not None:
                            # abortive close (client killed, SO_LINGER 0): the server's socket is reset, getpeername() fails
                            # there, but the request it already holds stays readable and must be executed all the same
                            rec["rst"] = True
                            p._pyroConnection.sock.rst()
                        p._pyroRelease()
                        # whatever this client does next travels on a NEW connection, which the server may well serve before
                        # the abandoned one: wait until the one-way batch is through
                        sched.sleep(0.5 + work_of([(calls, mode)]))
                    continue
                try:
                    it = iter(r)
                except Exception as x:  # noqa
                    rec["iter_exc"] = describe(x)
                    rec["not_iterable"] = short(r)
                    continue
                if plan.get("consume") == "for":
                    try:
                        for v in it:
                            rec["results"].append(v)
                    except Exception as x:  # noqa - the failure at its position
                        rec["iter_exc"] = describe(x)
                    continue
                for _ in range(len(calls) + 3):
                    try:
                        rec["results"].append(next(it))
                    except StopIteration:
                        break
                    except Exception as x:  # noqa - the failure at its position
                        rec["iter_exc"] = describe(x)
                        break

        # ---- (b) the same calls one by one on B
        def run_sequential(p, batches, outB):
            for calls, mode in batches:
                rec = {"results": [], "fail": None}
                outB.append(rec)
                for i, c in enumerate(calls):
                    try:
                        rec["results"].append(getattr(p, c["m"])(*copy.deepcopy(c["a"]), **copy.deepcopy(c["k"])))
                    except Exception as x:  # noqa - the reference's first failure
                        rec["fail"] = dict(describe(x), pos=i, m=c["m"])
                        break

        def run_background(p):
            try:
                for i in range(plan["bg"]):
                    if i % 2 == 1:
                        bb = api.BatchProxy(p)
                        bb.add(1)
                        bb.push(i)
                        bb.add(2)
                        bb.check(i)
                        bb.check(-1 - i)        # fails: its reply carries an _ExceptionWrapper (serializer hooks run)
                        try:
                            list(bb())
                        except ValueError:
                            pass
                    else:
                        p.add(1)
                    bg["stamps"].append(sched.stamp())
                    bg["done"] += 1
            except Exception as x:  # noqa
                bg["errors"].append(describe(x))

        def work_of(group):
            return sum(c["a"][0] for calls, _ in group for c in calls if c["m"] == "work")

        def safe_get(p):
            try:
                return ("ok", p.get())
            except Exception as x:  # noqa
                return ("exc", describe(x))

        def class_body(name, spec):
            """spec = {"gens": [[(calls, mode), ...], ...], "start", "a_first"}: one client of a class target"""
            def body(pa, pb):
                if spec["start"]:
                    sched.sleep(spec["start"])
                hold = {}
                for gi, gen_ in enumerate(spec["gens"]):
                    if gi:
                        reconnect(pa)
                        reconnect(pb)
                        flags["reconnected"] = True
                    groups = [gen_] if target == "session" else [[b] for b in gen_]
                    for bi, group in enumerate(groups):
                        u = new_unit("%s generation %d%s" % (name, gi + 1, "" if target == "session" else " request %d" % (bi + 1)),
                                     target, group)
                        if target == "percall" and bi:
                            reconnect(pb)       # the reference of the next batch is a fresh instance again
                        if name == "client 1" and "a0" not in marks:
                            marks["a0"] = sched.stamp()
                        if spec["a_first"]:
                            run_batches(pa, group, u["outA"], hold, target)
                            run_sequential(pb, group, u["outB"])
                        else:
                            run_sequential(pb, group, u["outB"])
                            run_batches(pa, group, u["outA"], hold, target)
                        if name == "client 1":
                            marks["a1"] = sched.stamp()
                        if target == "session" and not any(r.get("hung_up") for r in u["outA"]):
                            if any(m == "oneway" for _, m in group):
                                # quiescence: the clock only moves when nothing is runnable; calls that take time are waited for
                                sched.sleep(0.5 + work_of(group))
                            u["getA"] = safe_get(pa)
                            u["getB"] = safe_get(pb)
            return body

        batches = [(jp["calls"], plan["mode"])]
        if jp.get("second") is not None and not plan.get("impatient"):
            batches.append((jp["second"], plan["mode2"]))
        ths = []
        if target == "instance":
            u0 = new_unit("client 1", "instance", batches)

            def body_a(p):
                marks["a0"] = sched.stamp()
                if plan.get("impatient"):
                    p._pyroTimeout = plan["impatient"]      # gives up (and closes the connection) while the batch still runs
                run_batches(p, batches, u0["outA"], {})
                marks["a1"] = sched.stamp()

            def body_b(p):
                run_sequential(p, batches, u0["outB"])

            def body_ab(pa, pb):
                if plan["a_first"]:
                    body_a(pa)
                    body_b(pb)
                else:
                    body_b(pb)
                    body_a(pa)

            if plan["concurrent"]:
                ths.append(threading.Thread(target=client, args=([uriA], body_a), name="client-batch"))
                ths.append(threading.Thread(target=client, args=([uriB], body_b), name="client-seq"))
            else:
                ths.append(threading.Thread(target=client, args=([uriA, uriB], body_ab), name="client"))
        else:
            gens = [batches]
            if jp.get("again") is not None:
                gens.append([(jp["again"], plan.get("mode3", "normal"))])
            spec1 = {"gens": gens, "start": plan.get("start", 0), "a_first": plan["a_first"]}
            ths.append(threading.Thread(target=client, args=([uriA, uriB], class_body("client 1", spec1)), name="client"))
            pe = jp.get("peer")
            if pe is not None:
                pb_ = [(pe["calls"], pe["mode"])]
                if pe.get("second") is not None:
                    pb_.append((pe["second"], pe["mode2"]))
                spec2 = {"gens": [pb_], "start": pe.get("start", 0), "a_first": pe.get("a_first", True)}
                ths.append(threading.Thread(target=client, args=([uriA, uriB], class_body("client 2", spec2)), name="client-peer"))
        if plan["bg"]:
            ths.append(threading.Thread(target=client, args=([uriC], run_background), name="client-bg"))
        gate["expected"] = len(ths)
        for t in ths:
            t.start()
        for t in ths:
            t.join(600.0)
        for t in ths:
            st = sched.sim_thread_of(t)
            if st.died:
                raise S.HarnessError("client thread died: %r" % (st.died,))
            if st.state != "done":
                if not srv.loop_alive():
                    ctx.disturbed = "daemon loop died: %r" % (srv.loop_death(),)
                else:
                    ctx.violate("batch-hung", t.name, "client thread %s did not finish within 600 virtual seconds" % t.name)
                return
        # quiescence: a batch whose client is gone may still be running; every call that takes time is bounded by the plan
        total_work = sum(work_of([(cl, None)]) for cl in (jp["calls"], jp.get("second") or [], jp.get("again") or [],
                                                           (jp.get("peer") or {}).get("calls") or [],
                                                           (jp.get("peer") or {}).get("second") or []))
        sched.sleep(0.5 + total_work)
        sched.settle(5.0)
        if not srv.loop_alive():
            ctx.disturbed = "daemon loop died: %r" % (srv.loop_death(),)
            return
        for lst, what in ((gate["errors"], "could not connect"), (errors, "scaffolding failed")):
            if lst:
                if not any(e["own"] for e in lst):
                    # nothing is injected in this world: the Pyro5 API itself failed outside a judged call
                    ctx.disturbed = "a client %s: %s: %s" % (what, lst[0]["cls"], lst[0]["text"][:80])
                    return
                raise S.HarnessError("client %s: %r" % (what, lst))
        config.COMPRESSION = False      # the reader's handshakes again carry hash-ordered sets

        remote = {}
        direct = None
        if target == "instance":
            direct = (objA._snapshot(), objB._snapshot())

            # ---- fresh normal calls read both states back
            def reader():
                for k, u in (("A", uriA), ("B", uriB)):
                    try:
                        with CL.Proxy(u) as p:
                            p._pyroTimeout = None
                            remote[k] = ("ok", p.get())
                    except Exception as x:  # noqa
                        remote[k] = ("exc", describe(x))

            rt = threading.Thread(target=reader, name="reader")
            rt.start()
            rt.join(600.0)
            if sched.sim_thread_of(rt).state != "done":
                ctx.violate("batch-hung", "reader", "reading the states back did not finish within 600 virtual seconds")
                return
        ctx.probe(plan["servertype"])
        ctx.probe(plan["serializer"])
        ctx.probe({"instance": "instance_target", "session": "session_class", "percall": "percall_class"}[target])
        if plan["compression"]:
            ctx.probe("compressed")
        if ctx.net.stats.get("frag"):
            ctx.probe("fragmented")
        if plan["concurrent"] and target == "instance":
            ctx.probe("concurrent")
        if flags["reconnected"]:
            ctx.probe("reconnected")
        if plan.get("ser_lines"):
            ctx.probe("serializer_lines")
        if plan.get("consume") == "for":
            ctx.probe("consume_for_loop")
        if target != "instance" and plan.get("peer") is not None:
            ctx.probe("peer_client")
        if bg["stamps"] and "a1" in marks and any(marks["a0"] < s < marks["a1"] for s in bg["stamps"]):
            ctx.probe("background_interleaved")
        ctx.info["bg"] = [bg["done"], bg["errors"][:1]]

        # ---- judge
        any_oneway = False
        for u in units:
            r = self._judge_unit(ctx, u)
            if r is None:
                return
            any_oneway = any_oneway or any(m == "oneway" for _, m in u["batches"])
        if target == "instance":
            self._judge_instances(ctx, units[0], direct, remote)
        else:
            clsA, clsB = CLASS_TARGETS[target]

            def bag(cls):
                return sorted(json.dumps(i._snapshot(), sort_keys=True) for i in cls._made if i.log)

            ba, bb = bag(clsA), bag(clsB)
            ctx.probe("class_instances_compared")
            if ba != bb:
                only_a = [x for x in ba if x not in bb]
                only_b = [x for x in bb if x not in ba]
                ctx.violate("oneway-state-mismatch" if any_oneway else "state-mismatch", "class-instances",
                            "%s-mode class: the instances that served the batches differ from the instances that served the same calls "
                            "one by one: %d vs %d touched instances; only batched: %s; only one-by-one: %s"
                            % (target, len(ba), len(bb), short(only_a[:2]), short(only_b[:2])))

    # ------------------------------------------------------------------
    def _judge_unit(self, ctx, u):
        """results / failures of one unit; returns None if the run is disturbed, else whether the reference failed somewhere"""
        batches, outA, outB = u["batches"], u["outA"], u["outB"]
        if len(outA) != len(batches) or len(outB) != len(batches):
            raise S.HarnessError("%s: incomplete outcome lists %d/%d of %d" % (u["tag"], len(outA), len(outB), len(batches)))
        # ---- the reference must itself be sane: B's prefix replayed on a local, never-remoted instance
        model = Acc()
        model._local = True
        for (calls, mode), rb in zip(batches, outB):
            fail = rb["fail"]
            if fail is not None and fail["comm"]:
                ctx.disturbed = "reference call failed with a communication error: %s" % fail["text"]
                return None
            for i, c in enumerate(calls):
                if c["m"] in NAME_FAILS:
                    local = ("exc", "builtins.AttributeError", None)
                else:
                    try:
                        local = ("ok", _wire_form(getattr(model, c["m"])(*copy.deepcopy(c["a"]), **copy.deepcopy(c["k"]))))
                    except Exception as x:  # noqa
                        local = ("exc", qualname(type(x)), list(x.args))
                if local[0] == "ok":
                    if i >= len(rb["results"]) or not same(rb["results"][i], local[1]):
                        ctx.disturbed = "%s: sequential reference diverged from local execution at call %d (%s)" % (u["tag"], i, c["m"])
                        return None
                else:
                    if fail is not None and fail["pos"] == i and not fail["comm"] and \
                            (fail["cls"] != local[1] or (local[2] is not None and not same(fail["args"], local[2]))):
                        # the one-by-one call failed where it should, with another exception than the method raised (how faithfully
                        # an exception travels is not this property's business): the one-by-one run stays the reference
                        ctx.probe("reference_exception_differs_from_local")
                    elif fail is None or fail["pos"] != i:
                        ctx.disturbed = "%s: sequential reference diverged from local execution at failing call %d (%s): %r" \
                                        % (u["tag"], i, c["m"], fail)
                        return None
                    break
        u["model"] = model
        impatient = u["kind"] == "instance" and ctx.plan.get("impatient")

        any_fail = False
        for bi, ((calls, mode), ra, rb) in enumerate(zip(batches, outA, outB)):
            n = len(calls)
            tag = "%s batch %d (%s, %d calls)" % (u["tag"], bi + 1, mode, n)
            fail = rb["fail"]
            k = fail["pos"] if fail else None
            name_fail = bool(fail) and fail["m"] in NAME_FAILS
            any_fail = any_fail or bool(fail)
            if bi == 0:
                if n:
                    ctx.nontrivial = True
                if n == 0:
                    ctx.probe("empty_batch")
                elif fail is None:
                    ctx.probe("all_ok")
                elif k == 0:
                    ctx.probe("failure_first")
                else:
                    ctx.probe("failure_midway")
            else:
                ctx.probe("second_batch")
            if name_fail:
                ctx.probe(NAME_FAILS[fail["m"]])
            if fail and fail["m"] == "fail":
                kind = calls[k]["a"][0]
                ctx.probe("exc_user" if kind in USER_EXCS else "exc_pyro" if kind in ("naming", "daemon", "pyro") else "exc_builtin")
                if kind in ("timeout", "u_timeout", "u_naming", "u_key", "u_conn"):
                    ctx.probe("exc_name_collision")
            if any(c["k"] for c in calls[:(k + 1) if fail else n]):
                ctx.probe("kwargs")
            if sum(c["a"][0] for c in calls[:(k + 1) if fail else n] if c["m"] == "work") > 1.0:
                ctx.probe("slow_batch")
            if ra.get("rst"):
                ctx.probe("rst_after_oneway")
            if ra.get("hung_up"):
                ctx.probe("hangup_after_oneway")
                acc, m = 0.0, (k + 1) if fail else n
                for i, c in enumerate(calls[:m]):
                    if acc > 1.0:
                        ctx.probe("abandoned_slow_oneway")      # calls still to be run > 1 s after the client has gone
                        break
                    acc += c["a"][0] if c["m"] == "work" else 0.0
            if mode == "oneway":
                ctx.probe("oneway_batch")
                if fail:
                    ctx.probe("oneway_with_failure")
                if ra["submit_exc"] is not None:
                    ctx.violate("batch-unexpected-exception", "oneway-submission",
                                "%s: submitting the one-way batch raised %s%r" % (tag, ra["submit_exc"]["cls"], ra["submit_exc"]["args"]))
                elif not ra["ret_none"]:
                    ctx.violate("oneway-batch-returned-value", "", "%s returned a %s" % (tag, ra.get("ret")))
                continue
            # ---- normal batch
            sub, itx, res = ra["submit_exc"], ra["iter_exc"], ra["results"]
            if impatient and sub is not None and sub["cls"] == "Pyro5.errors.TimeoutError" and sub["comm"]:
                # the client gave up waiting: no results to compare, the effects are judged at quiescence
                ctx.probe("client_gave_up")
                continue
            if "not_iterable" in ra:
                ctx.violate("result-mismatch", "not-a-sequence", "%s returned %s" % (tag, ra["not_iterable"]))
                continue
            if sub is not None:
                where, got = "submission", sub
            elif itx is not None:
                where, got = "position", itx
            else:
                where, got = None, None
            # results observable before the failure (or all of them)
            limit = n if fail is None else k
            if where != "submission":
                for i, v in enumerate(res[:limit]):
                    if not same(v, rb["results"][i]):
                        ctx.violate("result-mismatch", "value", "%s: result %d (%s) is %s, the sequential call returned %s"
                                    % (tag, i, calls[i]["m"], short(v), short(rb["results"][i])))
                        break
            if fail is None:
                if got is not None:
                    ctx.violate("batch-unexpected-exception", where, "%s: no call fails sequentially, but the batch raised %s%r at %s"
                                % (tag, got["cls"], got["args"], where if where == "submission" else "position %d" % len(res)))
                elif len(res) != n:
                    ctx.violate("result-mismatch", "length", "%s yielded %d results" % (tag, len(res)))
                continue
            # the reference failed at position k
            want = "%s%r" % (fail["cls"], fail["args"])
            if got is None:
                ctx.violate("failure-mismatch", "missing", "%s: call %d (%s) fails sequentially with %s, the batch yielded %d results %s and no exception"
                            % (tag, k, fail["m"], want, len(res), short(res[k:k + 2])))
                continue
            if where == "position" and len(res) != k:
                if len(res) < k:
                    ctx.violate("batch-unexpected-exception", "position", "%s: raised %s%r at position %d, the first sequential failure is call %d (%s)"
                                % (tag, got["cls"], got["args"], len(res), k, want))
                else:
                    ctx.violate("failure-mismatch", "missing", "%s: call %d (%s) fails sequentially with %s, the batch yielded %d results before raising %s%r"
                                % (tag, k, fail["m"], want, len(res), got["cls"], got["args"]))
                continue
            ctx.probe("failure_at_" + where)
            ok = got["cls"] == fail["cls"] and (name_fail or same(got["args"], fail["args"]))
            if not ok and where == "position" and fail["cls"] == "builtins.StopIteration" and got["cls"] == "builtins.RuntimeError" \
                    and got["args"] == ["generator raised StopIteration"] \
                    and (got.get("cause") is None or (got["cause"][0] == "builtins.StopIteration" and same(got["cause"][1], fail["args"]))):
                # the call's own StopIteration cannot leave BatchProxy's result generator: PEP 479 turns it into RuntimeError.
                # Everything else about this batch (prefix, results, state) is judged as usual.
                ctx.probe("stopiteration_in_batch")
                ctx.violate("failure-mismatch", "position:StopIteration-as-RuntimeError",
                            "%s: call %d (%s) fails sequentially with %s; the batch raised %s%r at its position (cause: %r)"
                            % (tag, k, fail["m"], want, got["cls"], got["args"], got.get("cause")))
            elif not ok:
                ctx.violate("failure-mismatch", where, "%s: call %d (%s) fails sequentially with %s; the batch raised %s%r at %s"
                            % (tag, k, fail["m"], want, got["cls"], got["args"], where))

        # ---- session-mode class: the state of this connection's instance, read on the same connections
        if u["kind"] == "session" and any(r.get("hung_up") for r in outA):
            pass    # the batched connection (and with it its session instance) is gone; the instances are compared at the end
        elif u["kind"] == "session":
            ga, gb = u["getA"], u["getB"]
            if gb is None or gb[0] != "ok":
                if gb is not None and not gb[1]["own"]:
                    ctx.disturbed = "reading the reference state failed: %s: %s" % (gb[1]["cls"], gb[1]["text"][:80])
                    return None
                raise S.HarnessError("%s: reading the reference state failed: %r" % (u["tag"], gb))
            if not same(gb[1], model.get()):
                ctx.disturbed = "%s: state of the sequential reference diverged from local execution" % u["tag"]
                return None
            oneway = any(m == "oneway" for _, m in batches)
            if ga is None or ga[0] != "ok":
                ctx.violate("oneway-state-mismatch" if oneway else "state-mismatch", "session-view",
                            "%s: get() on the batched connection failed: %r" % (u["tag"], ga))
            else:
                ctx.probe("session_state_compared")
                if not same(ga[1], gb[1]):
                    ctx.violate("oneway-state-mismatch" if oneway else "state-mismatch", "session-view",
                                "%s: the session instance behind the batched connection is %s, the one behind the one-by-one connection %s"
                                % (u["tag"], short(ga[1]), short(gb[1])))
        return any_fail

    # ------------------------------------------------------------------
    def _judge_instances(self, ctx, u, direct, remote):
        stateA, stateB = direct
        batches = u["batches"]
        if not same(stateB, u["model"]._snapshot()):
            ctx.disturbed = "state of the sequential reference diverged from local execution"
            return
        any_fail = any(rb["fail"] for rb in u["outB"])
        oneway = any(m == "oneway" for _, m in batches)
        la, lb = stateA["log"], stateB["log"]
        if not same(stateA, stateB):
            extra = len(la) > len(lb) and same(la[:len(lb)], lb)
            detail = "log(A)=%s log(B)=%s; A=%s B=%s" % (short(la), short(lb), short({k: v for k, v in stateA.items() if k != "log"}),
                                                          short({k: v for k, v in stateB.items() if k != "log"}))
            if extra and any_fail and len(batches) == 1:
                ctx.violate("oneway-state-mismatch" if oneway else "executed-after-failure", "executed-after-failure" if oneway else "",
                            "calls after the first failure ran: " + detail)
            elif oneway:
                ctx.violate("oneway-state-mismatch", "", "at quiescence the batched object differs from the sequential one: " + detail)
            else:
                ctx.violate("state-mismatch", "", "the batched object differs from the sequential one: " + detail)
        if remote.get("A", ("",))[0] == "ok" and remote.get("B", ("",))[0] == "ok":
            ctx.probe("state_compared")
            if not same(remote["A"][1], remote["B"][1]) and same(stateA, stateB):
                ctx.violate("state-mismatch", "remote-view", "get() on A returned %s, on B %s" % (short(remote["A"][1]), short(remote["B"][1])))


WORLD = BatchWorld()
