"""C16 - the daemon's registry: ids, objects, proxies and by-value travel stay consistent over every history.

A real Daemon (both server types) serves a pool of 3 objects (class PoolObj, each logs its calls under its serial
number), 2 exposed classes and one permanent Dispenser whose give(k) returns pool object k.  The driver thread plays
the history: register (object | class; chosen / generated / colliding / reserved id; force; weak), unregister (by
object | by id), uriFor, proxyFor, call(id) through a fresh raw Proxy over the simulated network, return(k) through
the dispenser (the client sees a Proxy - then calls through it - or the by-value record), gc points (drop the harness's
only strong reference, collect, verify death through an own weakref), registered() through the Pyro.Daemon object.

Oracle: the model `id -> object` is the truth - what a correct daemon must do; the _pyroId/_pyroDaemon marks Pyro
leaves on objects are an implementation detail and are never read here.  After every mutating step the daemon's own
report (DaemonObject.registered(), called in-process) is compared with the model; the run stops at its first violation
(after a divergence the rest of the history has no defined expectation).

Violation keys are "<tier>:<context>": tier = "extended" iff an object or id the finding is about took part in an
effective force earlier (forced replacement of an id, forced second id of one object), else "core"; context = how the
object lost its registration (unregister-by-id | unregister-by-object | replaced | never-registered), or
registered / registered-multi, or the step after which the daemon's report diverged.
"""
import gc
import json
import re
import threading
import weakref

from ..world import World
from .. import sched as S
from .common import Server, SERIALIZERS
from ..seams import CL, SV
import Pyro5.errors as E
from . import registry_objs as O

DAEMON_ID = "Pyro.Daemon"
DISP_ID = "dispenser"
RESERVED = (DAEMON_ID, DISP_ID)
RET_SERS = ["serpent", "json", "msgpack"]
LIT_IDS = ["id0", "id0", "id1", "id2"]
TIMEOUT = 30.0
NEVER = "never-registered"


_CODES = None


def _codes():
    """code objects that get line pre-emption in plans with concurrent factory calls: everything a registration runs
    through, found by name as well so that a new id helper of Daemon is monitored too"""
    global _CODES
    if _CODES is None:
        fns = [SV.Daemon.register, SV.Daemon.unregister, SV.Daemon.uriFor, SV.Daemon.proxyFor]
        pat = re.compile(r"(?i)object_?id|generat|registered")
        for holder in (SV.Daemon, SV):
            for name, v in sorted(vars(holder).items()):
                if hasattr(v, "__code__") and pat.search(name) and v not in fns:
                    fns.append(v)
        _CODES = S.code_closure(*fns)
    return _CODES


class _Stop(Exception):
    """first violation of the run: the remaining history is not played"""


class _Run:
    def __init__(self, ctx):
        self.ctx = ctx
        self.plan = ctx.plan
        self.sched = ctx.sched
        self.i = -1
        self.op = None
        self.log = []            # serial numbers, appended by PoolObj.who
        self.pool = {}           # slot -> PoolObj: the harness's ONLY strong references
        self.serial = {}         # slot -> serial of the object currently in the slot
        self.next_serial = 0
        self.table = {}          # MODEL: id -> (xkey, weak);  xkey = ("o", serial) | ("c", class index)
        self.lost = {}           # xkey -> how the object lost its registration
        self.id_lost = {}        # id -> how the id became unknown
        self.last_id = {}        # ("o", slot) | ("c", c) -> id of the latest accepted registration
        self.gen_ids = []
        self.taint_x = set()     # objects / ids that took part in an *effective* force (one an unforced call would
        self.taint_id = set()    # have refused): forced replacement of an id, forced second id of an object
        self.multi_x = set()     # objects that were registered under two or more ids at the same time
        self.last_mut = {}       # xkey -> last operation that changed this object's registrations (part of multi-id keys)
        self.shapes = list(self.plan.get("shapes") or ["plain"] * 3)      # class of the object in each pool slot
        self.made = {}           # tag -> Made: what the dispenser's factory method created (never unregistered)
        self.made_by_id = {}     # MODEL of that separate namespace: generated id -> tag
        self.failed_x = set()    # registered objects that went through a register() that had to fail (part of the key)
        self.hooks = {}          # tag -> callable the factory object runs inside Daemon.register() (a slow registration)
        self.remote = 0
        self.accepted = 0
        self._ix, self._iids = [], []
        self.others2 = []        # ... and objects of its own, of a pool object's class
        self.srv2 = None         # focus shape 'two daemons': a second daemon in which a pool object is registered as well
        self.in_b = set()        # xkeys that were ever registered in that second daemon (their marks may name it)

    # ------------------------------------------------------------------ helpers
    def tier(self, xs, ids):
        """'extended' iff an object or id involved in the finding took part in an effective force earlier"""
        xs = [x for x in xs if x is not None]
        ids = [i for i in ids if i is not None]
        if any(x in self.taint_x for x in xs) or any(i in self.taint_id for i in ids):
            return "extended"
        return "core"

    def involve(self, xs=(), ids=(), reset=False):
        """objects / ids the current step is about (decides the tier of a finding)"""
        if reset:
            self._ix, self._iids = [], []
        self._ix += list(xs)
        self._iids += list(ids)

    def viol(self, kind, key, msg):
        tier = self.tier(list(self._ix), list(self._iids))
        if tier == "extended" and any(x in self.multi_x for x in self._ix if x is not None):
            # one root cause (the marks on an object track only its latest id) shows under many contexts: the key is
            # the history pattern - what last changed the registrations of the multi-id object this finding is about
            mx = [x for x in self._ix if x is not None and x in self.multi_x]
            key = "multi-id:" + self.mark_state(mx[0])
        elif any(x in self.failed_x for x in self._ix if x is not None):
            # a registered object for which a further register() had to fail (and did): the failure must have changed nothing
            key = "after-failed-registration"
        self.ctx.violate(kind, "%s:%s" % (tier, key),
                         "step %d %s: %s" % (self.i, json.dumps(self.op, sort_keys=True), msg))
        raise _Stop()

    def mark_state(self, xk):
        """state of the registration marks the daemon left on the object (only used to NAME a multi-id finding):
        the known cluster is 'registered under some id while the marks are stale or gone'"""
        obj = None
        if xk[0] == "o":
            for slot, ser in self.serial.items():
                if ser == xk[1]:
                    obj = self.pool.get(slot) if isinstance(self.pool, dict) else self.pool[slot]
        elif xk[0] == "c":
            obj = O.CLASSES[xk[1]]
        if obj is None:
            return "object-gone"
        pid = getattr(obj, "_pyroId", None)
        pd = getattr(obj, "_pyroDaemon", None)
        if pid is None:
            return "no-id-mark"
        ent = self.table.get(pid)
        if ent is None or ent[0] != xk:
            return "id-mark-stale"
        return "id-mark-valid" if pd is self.daemon else "id-mark-valid:daemon-mark-lost"

    def fresh(self, slot):
        self.serial[slot] = self.next_serial
        self.pool[slot] = O.SHAPES[self.shapes[slot]](self.next_serial, self.log)
        self.next_serial += 1

    def xkey(self, x):
        if x[0] == "o":
            return ("o", self.serial[x[1]])
        return (x[0],) + tuple(x[1:])

    def xobj(self, x):
        if x[0] == "o":
            return self.pool[x[1]]
        if x[0] == "c":
            return O.CLASSES[x[1]]
        return self.dobj

    def shape_probe(self, xk):
        """a call / a returned proxy reached a pool object of a falsy shape"""
        if xk[0] == "o":
            for slot, ser in self.serial.items():
                if ser == xk[1] and self.shapes[slot] != "plain":
                    self.ctx.probe("shape_" + self.shapes[slot])

    def listing(self):
        """what registered() must report"""
        return sorted(list(self.table) + list(RESERVED) + list(self.made_by_id))

    def ids_of(self, xk):
        return sorted(i for i, (x, _w) in self.table.items() if x == xk)

    def state_of(self, xk):
        ids = self.ids_of(xk)
        if not ids:
            return self.lost.get(xk, NEVER)
        return "registered" if len(ids) == 1 else "registered-multi"

    def resolve(self, spec):
        if spec is None or not spec.startswith("@"):
            return spec
        if spec[1] in "oc":
            n = int(spec[2:])
            xk = ("o", self.serial[n]) if spec[1] == "o" else ("c", n)
            ids = self.ids_of(xk)
            if ids:
                return ids[0]
            return self.last_id.get((spec[1], n), "nope")
        if spec[1] == "g":
            return self.gen_ids[int(spec[2:]) % len(self.gen_ids)] if self.gen_ids else "nope"
        raise S.HarnessError("bad id spec %r" % (spec,))

    def settle(self):
        self.sched.settle(5.0)

    def proxy(self, oid, ser):
        p = CL.Proxy("PYRO:%s@%s" % (oid, self.loc))
        p._pyroSerializer = ser
        p._pyroTimeout = TIMEOUT
        return p

    def invoke(self, p, method, args=()):
        """outcome of one remote call through p, as plain data (never keeps an exception object)"""
        self.remote += 1
        try:
            r = getattr(p, method)(*args)
        except E.CommunicationError as x:
            s = str(x)
            if "unknown object" in s:
                return ("unknown",)
            return ("comm", type(x).__name__, s[:200])
        except E.DaemonError as x:
            if str(x) == "unknown object":      # the daemon's answer to a request for an id it does not know
                return ("unknown",)
            return ("error", type(x).__name__, str(x)[:200])
        except Exception as x:  # noqa - a remote exception is an outcome
            return ("error", type(x).__name__, str(x)[:200])
        return ("ok", r)

    def remote_call(self, oid, ser, method="who", args=()):
        p = self.proxy(oid, ser)
        try:
            out = self.invoke(p, method, args)
        finally:
            p._pyroRelease()
        self.settle()
        return out

    def expected_who(self, xk):
        return ["obj", xk[1]] if xk[0] == "o" else ["cls", xk[1]]

    def check_routed(self, what, xk, out, new, kind, key):
        """out = outcome of who() that must have reached xk; new = log entries written meanwhile"""
        want_log = [xk[1]] if xk[0] == "o" else []
        if out[0] != "ok" or out[1] != self.expected_who(xk) or new != want_log:
            self.viol(kind, key, "%s must reach %s; outcome %r, calls logged by objects %r" % (what, self.name(xk), out, new))

    def name(self, xk):
        if xk[0] == "o":
            return "object#%d" % xk[1]
        if xk[0] == "c":
            return "class#%d" % xk[1]
        return "the daemon object"

    def audit(self, label):
        """the daemon's own report must equal the model after every mutating step"""
        got = self.dobj.registered()
        want = self.listing()
        if DAEMON_ID not in got or self.daemon.objectsById.get(DAEMON_ID) is not self.dobj:
            self.viol("daemon-object-lost", label, "after this step the daemon reports %r / serves %r under Pyro.Daemon"
                      % (sorted(got), type(self.daemon.objectsById.get(DAEMON_ID)).__name__))
        if sorted(got) != want:
            missing = sorted(set(want) - set(got))
            extra = sorted(set(got) - set(want))
            self.involve(ids=missing + extra)
            if missing:
                self.viol("registered-id-lost", label, "after this step the daemon no longer reports %r, which %s registered "
                          "(daemon reports %r, model has %r)" % (missing, "are" if len(missing) > 1 else "is", sorted(got), want))
            self.viol("unregistered-id-still-reported", label, "after this step the daemon still reports %r, which %s not registered "
                      "(daemon reports %r, model has %r)" % (extra, "are" if len(extra) > 1 else "is", sorted(got), want))

    def held_by_daemon(self, w):
        """is the object behind weakref w reachable from the daemon (bounded backwards search through referrers)?"""
        roots = (id(self.daemon), id(vars(self.daemon)))
        seen = set()
        level = [w()]
        seen.add(id(level))
        for _depth in range(5):
            nxt = []
            seen.add(id(nxt))
            for o in level:
                refs = gc.get_referrers(o)
                seen.add(id(refs))
                for r in refs:
                    if id(r) in seen or type(r).__name__ == "frame":
                        continue
                    seen.add(id(r))
                    if id(r) in roots:
                        del level, nxt, refs, o, r
                        return True
                    nxt.append(r)
                del refs
            level = nxt
            if len(level) > 2000:
                break
        del level
        return False

    # ------------------------------------------------------------------ steps
    def do_reg(self, op):
        ctx = self.ctx
        x = op["x"]
        xk = self.xkey(x)
        oid = self.resolve(op["id"])
        force, weak = bool(op.get("force")), bool(op.get("weak"))
        if force and oid in RESERVED:
            return      # never generated; a shrunk / resolved plan must not do it either
        mine = self.ids_of(xk)
        self.involve([xk], [oid] + mine, reset=True)
        dup_obj = bool(mine)
        dup_id = oid is not None and (oid in self.table or oid in RESERVED)
        try:
            uri = self.daemon.register(self.xobj(x), oid, force=force, weak=weak)
            got = ("ok", uri.object, uri.location)
        except E.DaemonError as e:
            got = ("refused", str(e)[:120])
        except Exception as e:  # noqa
            got = ("error", type(e).__name__, str(e)[:160])
        self.sched.ev("reg", self.i, x, oid, force, weak, got[0])
        shape = self.shapes[x[1]] if x[0] == "o" else None
        if shape == "frozen" or (shape == "noweak" and weak):
            # this registration cannot succeed: the object cannot take the daemon's marks / cannot be referenced weakly.
            # Which exception is raised does not matter; the failed operation must not have changed anything.
            if got[0] == "ok":
                if shape == "noweak":
                    self.viol("weak-registration-not-weak", "no-weakref-support", "%s does not support weak references, so the weak "
                              "registration under %r that the daemon accepted can only be a strong one: the daemon keeps the object alive "
                              "and its id known after the application dropped it" % (self.name(xk), got[1]))
                self.viol("unmarkable-object-registered", shape, "%s cannot take the registration marks yet register() returned %r"
                          % (self.name(xk), got[1]))
            ctx.probe("register_failed_" + shape)
            if mine:
                self.failed_x.add(xk)
            self.audit("register-failed:" + ("forced" if force else "unforced"))
            return
        if got[0] == "error":
            self.viol("unexpected-error", "register:" + got[1], "register raised %s: %s" % (got[1], got[2]))
        must_refuse = (not force) and (dup_obj or dup_id)
        if must_refuse:
            if got[0] == "ok":
                if oid == DAEMON_ID:
                    self.viol("reserved-id-not-refused", "register", "an unforced registration under Pyro.Daemon was accepted")
                if dup_obj:
                    wk = "weak" if any(self.table[i][1] for i in mine) else "strong"
                    self.viol("duplicate-object-not-refused", wk,
                              "%s is already registered under %r (%s) yet an unforced second registration under %r was accepted"
                              % (self.name(xk), mine, wk, got[1]))
                wk = "reserved" if oid in RESERVED else ("weak" if self.table[oid][1] else "strong")
                self.viol("duplicate-id-not-refused", wk, "id %r is taken by %s yet an unforced registration of %s was accepted"
                          % (oid, "a permanent object" if oid in RESERVED else self.name(self.table[oid][0]), self.name(xk)))
            ctx.probe("duplicate_refused")
            if oid == DAEMON_ID:
                ctx.probe("reserved_refused")
            self.audit("register-refused")
            return
        if got[0] == "refused":
            self.viol("registration-refused", self.state_of(xk), "model: %s is %s and id %r is free%s, yet register was refused: %s"
                      % (self.name(xk), self.state_of(xk), oid, " (or forced)" if force else "", got[1]))
        new_id = got[1]
        if oid is not None:
            if new_id != oid:
                self.viol("register-wrong-uri", "chosen", "registered under %r but the returned uri names %r" % (oid, new_id))
        else:
            if new_id in self.table or new_id in RESERVED or not new_id.startswith("obj_"):
                self.viol("register-wrong-uri", "generated", "generated id %r (table %r)" % (new_id, sorted(self.table)))
            self.gen_ids.append(new_id)
            ctx.probe("generated_id")
        if got[2] != self.loc:
            self.viol("register-wrong-uri", "location", "returned uri is at %r, the daemon at %r" % (got[2], self.loc))
        old = self.table.get(new_id)
        if force and ((old is not None and old[0] != xk) or [i for i in mine if i != new_id]):
            # effective force: another occupant replaced, or a further id for an object that already had one
            self.taint_x.add(xk)
            self.taint_id.add(new_id)
            if old is not None:
                self.taint_x.add(old[0])
            ctx.probe("forced")
        self.table[new_id] = (xk, weak)
        self.last_mut[xk] = "register-forced" if force else "register"
        if old is not None and old[0] != xk:
            self.last_mut[old[0]] = "replaced"
        if len(self.ids_of(xk)) >= 2:
            self.multi_x.add(xk)     # this object has (had) several ids at once: only a forced registration can do that
        if old is not None and old[0] != xk and not self.ids_of(old[0]):
            self.lost[old[0]] = "replaced"
        self.lost.pop(xk, None)
        self.id_lost.pop(new_id, None)
        self.last_id[(x[0], x[1])] = new_id
        self.accepted += 1
        self.audit("register-forced" if force else "register")

    def do_unreg(self, op):
        ctx = self.ctx
        if op["by"] == "obj":
            x = op["x"]
            xk = self.xkey(x)
            ids = self.ids_of(xk) if x[0] != "d" else []
            st = "daemon-object" if x[0] == "d" else self.state_of(xk)
            self.involve([xk], ids, reset=True)
            try:
                self.daemon.unregister(self.xobj(x))
                got = ("ok",)
            except E.DaemonError as e:
                got = ("refused", str(e)[:120])
            except Exception as e:  # noqa
                got = ("error", type(e).__name__, str(e)[:160])
            self.sched.ev("unreg-obj", self.i, x, got[0])
            if got[0] == "error":
                self.viol("unexpected-error", "unregister:" + got[1], "unregister(object) raised %s: %s" % (got[1], got[2]))
            if ids:
                if got[0] != "ok":
                    self.viol("unregister-refused", st, "%s is registered under %r, unregister(object) said: %s" % (self.name(xk), ids, got[1]))
                for i in ids:
                    del self.table[i]
                    self.id_lost[i] = "unregister-by-object"
                self.lost[xk] = "unregister-by-object"
                self.last_mut[xk] = "unregister-by-object"
                ctx.probe("unregister_by_object")
            # an object that is not registered: refusing and doing nothing are both fine; the table must not change
            self.audit("unregister-by-object:" + st)
            return
        oid = self.resolve(op["id"])
        if oid is None or oid == DISP_ID:
            return
        self.involve([], [oid], reset=True)
        try:
            self.daemon.unregister(oid)
            got = ("ok",)
        except E.DaemonError as e:
            got = ("refused", str(e)[:120])
        except Exception as e:  # noqa
            got = ("error", type(e).__name__, str(e)[:160])
        self.sched.ev("unreg-id", self.i, oid, got[0])
        if got[0] == "error":
            self.viol("unexpected-error", "unregister:" + got[1], "unregister(%r) raised %s: %s" % (oid, got[1], got[2]))
        st = "daemon-object" if oid == DAEMON_ID else ("registered" if oid in self.table else "unknown-id")
        if oid in self.table:
            if got[0] != "ok":
                self.viol("unregister-refused", "by-id", "id %r is registered, unregister(id) said: %s" % (oid, got[1]))
            xk = self.table.pop(oid)[0]
            latest = self.last_id.get((xk[0], xk[1])) if xk[0] == "c" else None
            for slot_key, lid in self.last_id.items():
                if slot_key[0] == "o" and xk[0] == "o" and self.serial.get(slot_key[1]) == xk[1]:
                    latest = lid
            self.last_mut[xk] = "unregister-by-id:" + ("latest" if oid == latest else "older")
            self.id_lost[oid] = "unregister-by-id"
            if not self.ids_of(xk):
                self.lost[xk] = "unregister-by-id"
            ctx.probe("unregister_by_id")
        self.audit("unregister-by-id:" + st)

    def do_uri(self, op):
        if "id" in op:
            oid = self.resolve(op["id"]) or "nope"
            self.involve([], [oid], reset=True)
            try:
                u = self.daemon.uriFor(oid)
                got = ("ok", u.object, u.location)
            except Exception as e:  # noqa
                got = ("error", type(e).__name__, str(e)[:160])
            self.sched.ev("uri-id", self.i, oid, got[0])
            if got != ("ok", oid, self.loc):
                self.viol("urifor-id-wrong", "by-id", "uriFor(%r) at %s gave %r" % (oid, self.loc, got))
            return
        x = op["x"]
        xk = self.xkey(x)
        ids = self.ids_of(xk)
        self.involve([xk], ids, reset=True)
        try:
            u = self.daemon.uriFor(self.xobj(x))
            got = ("ok", u.object, u.location)
            self.involve(ids=[u.object])
        except E.DaemonError as e:
            got = ("refused", str(e)[:120])
        except Exception as e:  # noqa
            got = ("error", type(e).__name__, str(e)[:160])
        self.sched.ev("uri-obj", self.i, x, got[0])
        if got[0] == "error":
            self.viol("unexpected-error", "uriFor:" + got[1], "uriFor(object) raised %s: %s" % (got[1], got[2]))
        if not ids:
            if got[0] == "ok":
                self.viol("urifor-unregistered-object", self.state_of(xk), "%s is not registered (%s) yet uriFor(object) names id %r%s"
                          % (self.name(xk), self.state_of(xk), got[1],
                             ", which belongs to %s" % self.name(self.table[got[1]][0]) if got[1] in self.table else ""))
            return
        if got[0] != "ok":
            self.viol("urifor-refused-registered-object", self.state_of(xk), "%s is registered under %r, uriFor(object) said: %s"
                      % (self.name(xk), ids, got[1]))
        if got[1] not in ids or got[2] != self.loc:
            self.viol("urifor-wrong-id", self.state_of(xk), "%s is registered under %r at %s, uriFor(object) gave %r@%s"
                      % (self.name(xk), ids, self.loc, got[1], got[2]))

    def do_proxy(self, op):
        if "id" in op:
            oid = self.resolve(op["id"]) or "nope"
            if oid == DISP_ID:
                return
            arg = oid
            ent = self.table.get(oid)
            target = ent[0] if ent else (("d",) if oid == DAEMON_ID else None)
            ids = [oid] if target else []
            st = "by-id"
        else:
            x = op["x"]
            target = self.xkey(x)
            ids = self.ids_of(target)
            st = self.state_of(target)
            self.involve([target], reset=True)
            if not ids:
                target = None
            arg = self.xobj(x)
        p = None
        self.involve([target], ids, reset="id" in op)
        try:
            p = self.daemon.proxyFor(arg)
            got = ("ok", p._pyroUri.object, p._pyroUri.location)
            self.involve(ids=[got[1]])
        except E.DaemonError as e:
            got = ("refused", str(e)[:120])
        except Exception as e:  # noqa
            got = ("error", type(e).__name__, str(e)[:160])
        del arg
        self.sched.ev("proxyfor", self.i, op.get("id", op.get("x")), got[0])
        if got[0] == "error":
            self.viol("unexpected-error", "proxyFor:" + got[1], "proxyFor raised %s: %s" % (got[1], got[2]))
        if target is None:
            if got[0] == "ok":
                self.viol("proxyfor-unregistered", st, "nothing registered here (%s) yet proxyFor returned a proxy for id %r" % (st, got[1]))
            return
        if got[0] != "ok":
            self.viol("proxyfor-refused-registered", st, "%s is registered under %r, proxyFor said: %s" % (self.name(target), ids, got[1]))
        if got[1] not in ids or got[2] != self.loc:
            self.viol("proxyfor-wrong-id", st, "%s is registered under %r at %s, proxyFor gave a proxy for %r@%s"
                      % (self.name(target), ids, self.loc, got[1], got[2]))
        p._pyroSerializer = op.get("ser", "serpent")
        p._pyroTimeout = TIMEOUT
        n0 = len(self.log)
        try:
            if target[0] == "d":
                out = self.invoke(p, "registered")
            else:
                out = self.invoke(p, "who")
        finally:
            p._pyroRelease()
        self.settle()
        if target[0] == "d":
            if out[0] != "ok" or sorted(out[1]) != self.listing():
                self.viol("listing-mismatch", "via-proxyfor", "registered() through proxyFor(Pyro.Daemon) gave %r" % (out,))
            return
        self.check_routed("a call through proxyFor's proxy (id %r)" % got[1], target, out, self.log[n0:], "proxyfor-misrouted", st)
        self.ctx.probe("call_routed")

    def do_list(self, ser):
        self.involve(reset=True)
        out = self.remote_call(DAEMON_ID, ser, "registered")
        want = self.listing()
        self.sched.ev("list", self.i, out[0])
        if out[0] == "ok":
            self.involve(ids=sorted(set(want) ^ set(out[1])))
        if out[0] != "ok":
            self.viol("listing-failed", out[0], "registered() through the Pyro.Daemon object failed: %r" % (out,))
        if sorted(out[1]) != want:
            self.viol("listing-mismatch", "remote", "registered() gave %r, model has %r" % (sorted(out[1]), want))
        self.ctx.probe("registered_listing")

    def do_call(self, op):
        ctx = self.ctx
        oid = self.resolve(op["id"]) or "nope"
        ser = op.get("ser", "serpent")
        if oid == DISP_ID:
            return
        if oid == DAEMON_ID:
            return self.do_list(ser)
        self.involve([], [oid], reset=True)
        n0 = len(self.log)
        out = self.remote_call(oid, ser)
        new = self.log[n0:]
        ent = self.table.get(oid)
        self.sched.ev("call", self.i, oid, out[0])
        if out[0] in ("comm", "error"):
            self.viol("call-failed", "%s:%s" % ("registered" if ent else "unknown", out[1]),
                      "call to id %r (%s) failed with %s: %s" % (oid, "registered" if ent else "not registered", out[1], out[2]))
        if ent is None:
            why = self.id_lost.get(oid, NEVER)
            if out[0] != "unknown":
                self.viol("call-reached-unknown-id", why, "id %r is not registered (%s) yet the call returned %r (logged by %r)"
                          % (oid, why, out[1], new))
            ctx.probe("call_unknown")
            if why == "collected":
                ctx.probe("weak_collected_unknown")
            return
        xk, weak = ent
        if out[0] == "unknown":
            self.viol("registered-id-unknown", "weak" if weak else "strong", "id %r is registered for %s yet the daemon says unknown object"
                      % (oid, self.name(xk)))
        self.check_routed("a call to id %r" % oid, xk, out, new, "call-misrouted", "weak" if weak else "strong")
        ctx.probe("call_routed")
        self.shape_probe(xk)
        if xk[0] == "c":
            ctx.probe("class_registered")

    def do_ret(self, op):
        ctx = self.ctx
        k, ser = op["k"], op["ser"]
        xk = ("o", self.serial[k])
        ids = self.ids_of(xk)
        st = self.state_of(xk)
        self.involve([xk], ids, reset=True)
        n0 = len(self.log)
        rp = None
        p = self.proxy(DISP_ID, ser)
        try:
            out = self.invoke(p, "give", (k,))
        finally:
            p._pyroRelease()
        if out[0] == "ok":
            r = out[1]
            if isinstance(r, CL.Proxy):
                rp = r
                out = ("proxy", r._pyroUri.object, r._pyroUri.location)
                self.involve(ids=[out[1]])
            elif isinstance(r, list) and len(r) == 2 and r[0] == "byvalue":
                out = ("value", r[1])
            elif isinstance(r, (list, tuple, set, frozenset)) and len(r) == 1 and str(list(r)[0]).startswith("bv:"):
                out = ("value", int(str(list(r)[0])[3:]))      # a pool object that IS a set, as the value it is (json, msgpack)
            else:
                out = ("other", repr(r)[:200])
            del r
        self.settle()
        self.sched.ev("ret", self.i, k, ser, out[0])
        if out[0] == "unknown" or out[0] == "comm":
            raise S.HarnessError("dispenser unreachable: %r" % (out,))
        if ser == "marshal":
            # marshal has no auto-proxy hook: whatever the registry says, the object travels by value (and the copy that is
            # made for the wire must leave the object itself, and its registration, as they were: later steps show)
            if rp is not None:
                rp._pyroRelease()
            if out != ("value", xk[1]):
                self.viol("returned-object-not-by-value", "marshal", "%s returned to a marshal client must travel by value; the client got %s"
                          % (self.name(xk), self.describe(out)))
            ctx.probe("return_marshal_by_value")
            if ids:
                ctx.probe("registered_object_returned_by_value_marshal")
            return
        if not ids:
            if out != ("value", xk[1]):
                if rp is not None:
                    rp._pyroRelease()
                self.viol("returned-object-not-by-value", st, "%s is not registered (%s) and must travel by value [%s]; the client got %s"
                          % (self.name(xk), st, ser, self.describe(out)))
            ctx.probe("return_by_value")
            ctx.probe(ser)
            return
        if out[0] != "proxy":
            self.viol("returned-object-not-proxy", st, "%s is registered under %r (%s) and must arrive as a proxy [%s]; the client got %s"
                      % (self.name(xk), ids, st, ser, self.describe(out)))
        if xk in self.in_b:
            # registered in a second daemon as well: the marks on an object name one daemon only, so the proxy may lead to the
            # other daemon (possibly closed by now). What this daemon owes is a proxy for one of the object's ids, not a copy.
            rp._pyroRelease()
            if out[1] not in ids:
                self.viol("returned-proxy-wrong-id", st, "%s is registered under %r, the proxy that arrived is for %r" % (self.name(xk), ids, out[1]))
            ctx.probe("return_proxy_two_daemons")
            return
        if out[1] not in ids or out[2] != self.loc:
            rp._pyroRelease()
            self.viol("returned-proxy-wrong-id", st, "%s is registered under %r at %s, the proxy that arrived is for %r@%s"
                      % (self.name(xk), ids, self.loc, out[1], out[2]))
        rp._pyroSerializer = ser
        rp._pyroTimeout = TIMEOUT
        own = getattr(self.pool.get(k), "OWN", None)
        if own and self.i % 2 == 0:
            # first thing done with the proxy that arrived (before any connection refreshes what it knows): a method that only the
            # class family of THIS object has. The proxy must describe this object as it is registered now - not one remembered
            # from an earlier holder of the id, with that one's methods
            try:
                out3 = self.invoke(rp, own)
            finally:
                rp._pyroRelease()
            self.settle()
            if out3[0] == "error" and out3[1] == "AttributeError":
                self.viol("returned-proxy-stale-interface", st, "%s arrived as a proxy for id %r that does not know the object's own method "
                          "%s() (%s): the proxy describes another object" % (self.name(xk), out[1], own, out3[2][:100]))
            self.check_routed("a call of %s() through the returned proxy (id %r)" % (own, out[1]), xk, out3, self.log[n0:], "returned-proxy-misrouted", st)
            n0 = len(self.log)
        try:
            out2 = self.invoke(rp, "who")
        finally:
            rp._pyroRelease()
        self.settle()
        self.check_routed("a call through the returned proxy (id %r)" % out[1], xk, out2, self.log[n0:], "returned-proxy-misrouted", st)
        ctx.probe("return_proxy")
        ctx.probe(ser)
        self.shape_probe(xk)

    def do_reg2(self, op):
        """focus shape 'two daemons': the pool object is registered, under the id it has here, in a second daemon too"""
        ctx = self.ctx
        xk = ("o", self.serial[op["k"]])
        ids = self.ids_of(xk)
        if op.get("other"):
            # ANOTHER object of the pool object's class is registered in the second daemon (and taken out again by 'unreg2'):
            # what the serializers know about the class is process-wide, what is registered is a matter of each daemon
            if self.srv2 is None:
                self.srv2 = Server(ctx, self.plan["servertype"])
            o2 = O.SHAPES[self.shapes[op["k"]]](-100 - len(self.others2), [])
            try:
                self.srv2.daemon.register(o2, "other%d" % len(self.others2))
            except Exception as x:  # noqa
                raise S.HarnessError("registration in the second daemon failed: %r" % (x,))
            self.others2.append(o2)
            self.sched.ev("reg2-other", self.i, op["k"])
            ctx.probe("same_class_in_second_daemon")
            return
        if len(ids) != 1:
            return
        if self.srv2 is None:
            self.srv2 = Server(ctx, self.plan["servertype"])
        try:
            self.srv2.daemon.register(self.pool[op["k"]], ids[0])
        except Exception as x:  # noqa
            raise S.HarnessError("registration in the second daemon failed: %r" % (x,))
        self.in_b.add(xk)
        self.sched.ev("reg2", self.i, op["k"], ids[0])
        ctx.probe("registered_in_two_daemons")

    def do_unreg2(self, op):
        """the second daemon unregisters its own objects of the pool object's class again (its last ones of that class)"""
        if self.srv2 is None or not self.others2:
            return
        for n, o2 in enumerate(self.others2):
            self.srv2.daemon.unregister(o2 if (self.i + n) % 2 else o2._pyroId)
        del self.others2[:]
        self.settle()
        self.sched.ev("unreg2", self.i)
        self.ctx.probe("second_daemon_unregistered_its_last_of_class")

    def do_close2(self, op):
        if self.srv2 is None:
            return
        d = self.srv2.daemon
        d.shutdown()
        self.sched.block(lambda: not self.srv2.loop_alive(), 30.0, "second daemon's loop")
        d.close()
        self.settle()
        self.sched.ev("close2", self.i)
        self.ctx.probe("second_daemon_closed")

    def describe(self, out):
        if out[0] == "proxy":
            t = self.table.get(out[1])
            return "a proxy for id %r (%s)" % (out[1], "registered for " + self.name(t[0]) if t else "unknown id")
        if out[0] == "value":
            return "the by-value record of object#%s" % (out[1],)
        if out[0] == "error":
            return "%s: %s" % (out[1], out[2])
        return repr(out)

    def do_gc(self, op, audit=True):
        k = op["k"]
        xk = ("o", self.serial[k])
        ids = self.ids_of(xk)
        self.involve([xk], ids, reset=True)
        if self.shapes[k] == "noweak":
            # cannot be watched through a weak reference (and can only be registered strongly): if it is registered the
            # daemon keeps it, else it is simply replaced by a fresh object
            if not ids:
                del self.pool[k]
                gc.collect()
                self.fresh(k)
            return
        if any(not self.table[i][1] for i in ids):
            # strongly registered: the harness lets go of it all the same - the registration must keep it alive and known
            # (no settle() here: nothing is scheduled, so histories recorded before this check existed replay unchanged)
            w = weakref.ref(self.pool[k])
            del self.pool[k]
            gc.collect()
            if w() is None:
                if audit:
                    self.audit("gc:strong")
                self.viol("registered-object-collected", "gc:strong", "%s is strongly registered under %r; when the application dropped "
                          "its own reference the object was collected" % (self.name(xk), [i for i in ids if not self.table[i][1]]))
            self.pool[k] = w()
            self.ctx.probe("strong_survives_gc")
            return
        self.settle()   # no server thread is inside a request (a frame could still hold the object)
        w = weakref.ref(self.pool[k])
        del self.pool[k]
        gc.collect()
        if w() is None:
            # the successor is created at once: the allocator tends to hand out the block that was just freed, so the new
            # object often lives at the dead one's address (whatever remembers objects by id() now meets a stranger)
            self.fresh(k)
        if w() is not None:
            if not self.held_by_daemon(w):
                raise S.HarnessError("gc point: object#%d did not die and the daemon does not hold it (%d referrers)"
                                     % (xk[1], len(gc.get_referrers(w()))))
            if ids:
                self.viol("weak-object-kept-alive", "weak", "%s is only weakly registered (%r), the harness dropped its last reference, "
                          "yet the daemon keeps the object alive" % (self.name(xk), ids))
            # an unregistered object the daemon still refers to: the statement does not forbid that - no gc point here
            self.pool[k] = w()
            self.sched.ev("gc-skipped", self.i, k)
            return
        for i in ids:
            del self.table[i]
            self.id_lost[i] = "collected"
        self.lost.pop(xk, None)
        self.sched.ev("gc", self.i, k, len(ids))
        if ids:
            self.ctx.probe("weak_collected")
        if audit:
            self.audit("gc:" + ("weak" if ids else "unregistered"))

    def do_par(self, op):
        """2-3 clients (own threads, own proxies) call the dispenser's factory method at the same instant; each call
        registers a brand-new object WITHOUT an id.  Every caller must get an id of its own that reaches its own object."""
        ctx, sched = self.ctx, self.sched
        self.involve(reset=True)
        callers = op["callers"]
        base = 1000 + 10 * self.i
        res = [None] * len(callers)
        pre0 = sched.preempts + sched.stalls

        def client(j, spec):
            out = ("crash", "?", "")
            try:
                p = self.proxy(DISP_ID, spec["ser"])
                try:
                    out = self.invoke(p, "make", (base + j, spec["mode"]))
                    if out[0] == "ok":
                        r = out[1]
                        if isinstance(r, CL.Proxy):
                            out = ("proxy", r._pyroUri.object, r._pyroUri.location)
                        elif isinstance(r, str) and r.startswith("PYRO:") and "@" in r:
                            out = ("uri",) + tuple(r[5:].split("@", 1))
                        else:
                            out = ("other", repr(r)[:200], "")
                        del r
                finally:
                    p._pyroRelease()
            except Exception as x:  # noqa - recorded as an outcome, never escapes the thread
                out = ("crash", type(x).__name__, str(x)[:200])
            res[j] = out

        for j, c in enumerate(callers):
            if c.get("slow"):
                # this caller's object is slow to take its marks: its thread sits inside register() for a while
                self.hooks[base + j] = lambda d=c["slow"]: sched.sleep(d)
        ths = [threading.Thread(target=client, args=(j, c), name="client%d" % j) for j, c in enumerate(callers)]
        for t in ths:
            t.start()
        collected = False
        g = op.get("gc")
        if g is not None:
            # one more actor, the application itself: while the factory calls are under way it drops a pool object
            # (interesting when that object is weakly registered: its finalizer runs here, next to the registrations)
            if g.get("after"):
                sched.sleep(g["after"])
            n_before = len(self.table)
            self.do_gc({"k": g["k"]}, audit=False)
            collected = len(self.table) < n_before
            self.op = op
        for t in ths:
            t.join(600.0)
        self.hooks.clear()
        if any(sched.sim_thread_of(t).state != "done" for t in ths):
            self.viol("make-hung", "par-make", "a factory call did not return within 600 virtual seconds: %r" % (res,))
        sched.quiesce()
        sched.ev("par", self.i, [r[0] for r in res])
        what = lambda j: "caller %d (object tag %d, %s, %s)" % (j, base + j, callers[j]["mode"], callers[j]["ser"])  # noqa: E731
        for j, r in enumerate(res):
            if r[0] == "error" and r[1] == "DaemonError" and "already registered" in r[2]:
                self.viol("generated-id-refused", "par-make", "%s: registering a brand-new object without an id was refused: %s"
                          % (what(j), r[2]))
            if r[0] in ("error", "comm", "crash", "unknown"):
                self.viol("make-failed", "par-make:" + str(r[1] if len(r) > 1 else r[0]), "%s failed: %r" % (what(j), r))
            if r[0] == "other" or (callers[j]["mode"] == "obj") != (r[0] == "proxy"):
                self.viol("made-object-not-proxy", "par-make", "%s: the freshly registered object must arrive as a proxy (or its uri "
                          "as a string); the client got %r" % (what(j), r))
            if r[2] != self.loc:
                self.viol("register-wrong-uri", "par-make", "%s got a uri at %r, the daemon is at %r" % (what(j), r[2], self.loc))
        ids = [r[1] for r in res]
        self.involve(ids=ids)
        for j, i in enumerate(ids):
            clash = [k for k in range(j) if ids[k] == i]
            taken = i in self.table or i in RESERVED or i in self.made_by_id
            if clash or taken:
                self.viol("generated-ids-not-distinct", "par-make", "%s was given the id %r, which %s" % (
                    what(j), i, "caller %d got as well" % clash[0] if clash else "is registered for something else already"))
        for j, i in enumerate(ids):
            self.made_by_id[i] = base + j
        self.audit("par-make:gc" if collected else "par-make")
        for j, i in enumerate(ids):
            self.check_made(i, callers[j]["ser"])
        ctx.probe("par_make")
        if collected:
            ctx.probe("par_gc_weak")
        if sched.preempts + sched.stalls > pre0:
            ctx.probe("par_overlap")

    def held_by_pyro(self, w):
        """is the object behind weakref w referred to (within a few hops) by an object of the library under test?"""
        seen = set()
        level = [w()]
        seen.add(id(level))
        for _depth in range(4):
            nxt = []
            seen.add(id(nxt))
            for o in level:
                refs = gc.get_referrers(o)
                seen.add(id(refs))
                for r in refs:
                    if id(r) in seen or type(r).__name__ == "frame":
                        continue
                    seen.add(id(r))
                    if (type(r).__module__ or "").startswith("Pyro5"):
                        del level, nxt, refs, o, r
                        return True
                    nxt.append(r)
                del refs
            level = nxt
            if len(level) > 2000:
                break
        del level
        return False

    def do_tmake(self, op):
        """a per-client object made on demand: the factory registers it WEAKLY, tracks it as a resource of the calling
        client's connection and returns it; the application drops it while that client is still connected: it must be
        collected and its id must be gone, like for any weakly registered object"""
        ctx = self.ctx
        self.involve(reset=True)
        tag, ser = 5000 + self.i, op["ser"]
        p = self.proxy(DISP_ID, ser)
        try:
            out = self.invoke(p, "make", (tag, "tracked"))
            self.settle()
            if out[0] != "ok":
                self.viol("make-failed", "tracked:" + str(out[1] if len(out) > 1 else out[0]), "factory call (weak + tracked) failed: %r" % (out,))
            if not isinstance(out[1], CL.Proxy):
                self.viol("made-object-not-proxy", "tracked", "the weakly registered factory object must arrive as a proxy; got %r" % (out[1],))
            oid, loc = out[1]._pyroUri.object, out[1]._pyroUri.location
            del out
            self.sched.ev("tmake", self.i, oid)
            self.involve(ids=[oid])
            if loc != self.loc or oid in self.table or oid in RESERVED or oid in self.made_by_id:
                self.viol("generated-ids-not-distinct", "tracked", "factory object got id %r at %r" % (oid, loc))
            self.made_by_id[oid] = tag
            self.audit("tracked-make")
            self.check_made(oid, ser)
            # the application lets go of it; the client that made it is still connected
            del self.made_by_id[oid]
            w = weakref.ref(self.made.pop(tag))
            self.settle()
            gc.collect()
            if w() is not None:
                if not self.held_by_pyro(w):
                    raise S.HarnessError("tracked factory object did not die and nothing of Pyro5 holds it (%d referrers)"
                                         % len(gc.get_referrers(w())))
                self.viol("weak-object-kept-alive", "tracked-resource", "the factory object is registered weakly (%r) and tracked as a "
                          "resource of the still connected client; the application dropped it, yet the library keeps it alive" % (oid,))
            self.id_lost[oid] = "collected"
            self.audit("tracked-gc")
            out = self.remote_call(oid, ser)
            if out[0] != "unknown":
                self.viol("call-reached-unknown-id", "collected", "id %r belonged to a collected weakly registered object yet a call gave %r"
                          % (oid, out))
            ctx.probe("tracked_weak_collected")
        finally:
            p._pyroRelease()
        self.settle()

    def check_made(self, oid, ser):
        tag = self.made_by_id[oid]
        obj = self.made.get(tag)
        if obj is None:
            raise S.HarnessError("factory object %r not recorded" % (tag,))
        n0 = obj.calls
        out = self.remote_call(oid, ser)
        if out != ("ok", ["made", tag]) or obj.calls != n0 + 1:
            self.viol("made-object-misrouted", "par-make", "id %r was handed out for the factory object with tag %r; a call to it gave %r "
                      "(that object saw %d call(s))" % (oid, tag, out, obj.calls - n0))

    # ------------------------------------------------------------------
    def run(self):
        ctx, plan = self.ctx, self.plan
        O.reset_class_marks()
        ctx.probe(plan["servertype"])
        self.srv = Server(ctx, plan["servertype"])
        self.daemon = self.srv.daemon
        self.loc = "%s:%d" % self.srv.addr[:2]
        if self.daemon.locationStr != self.loc:
            raise S.HarnessError("daemon location %r vs socket %r" % (self.daemon.locationStr, self.loc))
        self.dobj = self.daemon.objectsById[DAEMON_ID]
        for slot in range(3):
            self.fresh(slot)
        self.daemon.register(O.Dispenser(self.pool, self.made, self.hooks), DISP_ID)
        steps = {"par": self.do_par, "tmake": self.do_tmake, "reg": self.do_reg, "unreg": self.do_unreg, "uri": self.do_uri, "proxy": self.do_proxy, "call": self.do_call,
                 "ret": self.do_ret, "gc": self.do_gc, "list": lambda op: self.do_list(op.get("ser", "serpent")),
                 "reg2": self.do_reg2, "close2": self.do_close2, "unreg2": self.do_unreg2}
        for i, op in enumerate(plan["ops"]):
            self.i, self.op = i, op
            steps[op["op"]](op)
            if not self.srv.loop_alive():
                ctx.disturbed = "daemon loop died: %r" % (self.srv.loop_death(),)
                return
        if plan.get("sweep"):
            self.sweep(plan.get("sweep_ser") or RET_SERS)
        ctx.nontrivial = self.remote > 0 and self.accepted > 0

    def sweep(self, sers):
        """epilogue: the whole observable state once more - listing, every id ever seen, every pool object returned"""
        n = len(self.plan["ops"])
        self.i, self.op = n, {"op": "list", "ser": sers[0], "sweep": True}
        self.do_list(sers[0])
        seen = sorted(set(self.table) | set(self.id_lost) | {"id0"})
        for j, oid in enumerate(seen):
            self.i, self.op = n + 1 + j, {"op": "call", "id": oid, "ser": SERIALIZERS[j % 4], "sweep": True}
            self.do_call(self.op)
        base = n + 1 + len(seen)
        for k in range(3):
            self.i, self.op = base + k, {"op": "uri", "x": ["o", k], "sweep": True}
            self.do_uri(self.op)
            self.i, self.op = base + 3 + k, {"op": "ret", "k": k, "ser": sers[k % len(sers)], "sweep": True}
            self.do_ret(self.op)
        for c in range(2):
            self.i, self.op = base + 6 + c, {"op": "uri", "x": ["c", c], "sweep": True}
            self.do_uri(self.op)
        for j, oid in enumerate(sorted(self.made_by_id, key=self.made_by_id.get)):
            self.i, self.op = base + 8 + j, {"op": "call-made", "id": oid, "sweep": True}
            self.involve([], [oid], reset=True)
            self.check_made(oid, SERIALIZERS[j % 4])


class RegistryWorld(World):
    PROPERTY = "C16"
    NAME = "registry"
    REAL = ["Pyro5.server.Daemon.register/unregister/uriFor/proxyFor (incl. weak registration + weakref.finalize)",
            "_pyro_obj_to_auto_proxy + the serializers' type-replacement hooks (serpent, json, msgpack)", "_unpack_weakref",
            "DaemonObject.registered / get_metadata", "Daemon._handshake + handleRequest object lookup, _getInstance",
            "Pyro5.client.Proxy (raw, proxyFor-made and deserialised ones)", "both transport servers", "Pyro5.protocol",
            "garbage collector (real gc.collect() at gc points)"]
    STUB = ["sockets/selector (in-memory)", "threads (baton scheduler)", "time (virtual clock)", "uuid4 (seeded)"]
    PROBES = ["call_routed", "call_unknown", "return_proxy", "return_by_value", "unregister_by_id", "unregister_by_object",
              "weak_collected", "weak_collected_unknown", "duplicate_refused", "reserved_refused", "forced", "class_registered",
              "generated_id", "registered_listing", "serpent", "json", "msgpack", "multiplex", "thread",
              "shape_len0", "shape_bool0", "shape_state", "par_make", "par_overlap", "par_gc_weak", "strong_survives_gc",
              "shape_inst", "shape_noweak", "shape_eq", "shape_vars", "shape_setlike", "return_marshal_by_value", "registered_object_returned_by_value_marshal", "registered_in_two_daemons", "same_class_in_second_daemon", "second_daemon_unregistered_its_last_of_class", "second_daemon_closed", "return_proxy_two_daemons", "register_failed_frozen", "register_failed_noweak", "tracked_weak_collected"]
    RULE = ("plan = (server type, generator tier core|extended, 3-10 steps (thorough: -16) of register / unregister / uriFor / "
            "proxyFor / call / return-object / gc / registered over 3 pool objects + 2 classes + ids id0..id2, generated, "
            "colliding ('the current or last id of object k'), reserved; force only in the extended tier; weak for objects; "
            "serializer per remote step; 40% of the plans embed a directed motif - id re-use after an object lost it, forced "
            "replacement, forced second id - among random steps) followed by a fixed epilogue (listing, a call to every id ever seen, uriFor + return of every pool "
            "object, a call to every factory-made object); each pool slot holds a plain object or one that is falsy (always-empty "
            "__len__, __bool__ False, or a __len__ that follows its state); 19% of the plans end with a directed tail (forced re-registration under "
            "the own id with the weak flag flipped, then gc; class K registered, then an instance of K force-registered under the "
            "same id; or:  (object a loses id X but keeps its marks - "
            "forced takeover or unregister-by-id + re-registration -, the new holder is registered weakly, a is unregistered by "
            "object, the holder is collected, then X is listed / called / registered again); another 10% run on the thread server with "
            "line pre-emption (p_line 0.1-0.4, optional stalls) inside Daemon.register & helpers and contain 1-2 'par' steps: "
            "2-3 clients call the dispenser's factory method (register without id, return object or uri) at the same "
            "instant, optionally one of the new objects is slow to take its marks (its thread sits inside register()) and the "
            "driver drops + collects a weakly registered pool object meanwhile; a gc point on a strongly registered object "
            "drops the harness reference too: the object must survive; pool shapes also include objects that cannot take the "
            "registration marks ('frozen') and objects without weak-reference support ('noweak'): their (weak) registration must "
            "fail and change nothing; 'tmake' = factory object registered weakly + tracked as a connection resource, dropped while "
            "the creating client is still connected; distinct = distinct plan; non-trivial = a registration was accepted and a remote step ran")
    ASSUMPTIONS = ["the id -> object table is the truth; marks on objects are not consulted",
                   "register(x, 'Pyro.Daemon', force=True) and any forced registration over the dispenser are not generated",
                   "unregistering something that is not registered may be refused or silently ignored; the table must not change",
                   "unregister(object) of an object registered under several ids (only possible with force) removes all of them",
                   "uriFor / proxyFor of an object with several ids may name any of them",
                   "histories are sequential except for 'par' steps, whose factory-made objects live in a namespace of their "
                   "own (generated ids, never unregistered): the sequential model of the 3-slot pool is not touched by them",
                   "a registered object's truth value / length has no bearing on any clause",
                   "a register() that cannot succeed (object refuses the marks; weak=True without weak-reference support) may "
                   "raise anything but must change nothing; an ACCEPTED weak registration of an object without weak-reference "
                   "support can only be a strong one and is reported",
                   "pool objects' class is never itself registered as a class",
                   "the tier in a violation key is 'extended' iff an effective force (one that an unforced call would have refused) "
                   "was accepted earlier in the history"]
    QUICK_RUNS = 10000
    CHUNK = 100
    SHRINK_LISTS = ["ops"]

    # ------------------------------------------------------------------ generator
    def _x(self, rng, p_class=0.2, p_daemon=0.0):
        r = rng.random()
        if r < p_daemon:
            return ["d"]
        if r < p_daemon + p_class:
            return ["c", rng.randrange(2)]
        return ["o", rng.randrange(3)]

    def _idref(self, rng):
        r = rng.random()
        if r < 0.30:
            return rng.choice(LIT_IDS)
        if r < 0.70:
            return "@o%d" % rng.randrange(3)
        if r < 0.80:
            return "@c%d" % rng.randrange(2)
        if r < 0.87:
            return "@g%d" % rng.randrange(3)
        if r < 0.95:
            return DAEMON_ID
        return "nope"

    def _op(self, rng, gtier):
        r = rng.random()
        if r < 0.32:
            x = self._x(rng)
            q = rng.random()
            if q < 0.45:
                oid = rng.choice(LIT_IDS)
            elif q < 0.67:
                oid = None
            elif q < 0.85:
                oid = "@o%d" % rng.randrange(3)
            elif q < 0.88:
                oid = "@c%d" % rng.randrange(2)
            elif q < 0.96:
                oid = DAEMON_ID
            else:
                oid = DISP_ID
            force = gtier == "extended" and oid not in RESERVED and rng.random() < 0.45
            weak = x[0] == "o" and rng.random() < 0.3
            return {"op": "reg", "x": x, "id": oid, "force": force, "weak": weak}
        if r < 0.49:
            if rng.random() < 0.45:
                return {"op": "unreg", "by": "obj", "x": self._x(rng, 0.15, 0.06)}
            return {"op": "unreg", "by": "id", "id": self._idref(rng)}
        if r < 0.64:
            return {"op": "ret", "k": rng.randrange(3), "ser": rng.choice(RET_SERS + RET_SERS + ["marshal"])}
        if r < 0.76:
            return {"op": "call", "id": self._idref(rng), "ser": rng.choice(SERIALIZERS)}
        if r < 0.84:
            return {"op": "gc", "k": rng.randrange(3)}
        if r < 0.90:
            if rng.random() < 0.6:
                return {"op": "uri", "x": self._x(rng)}
            return {"op": "uri", "id": self._idref(rng)}
        if r < 0.96:
            if rng.random() < 0.6:
                return {"op": "proxy", "x": self._x(rng), "ser": rng.choice(SERIALIZERS)}
            return {"op": "proxy", "id": self._idref(rng), "ser": rng.choice(SERIALIZERS)}
        if r < 0.985:
            return {"op": "list", "ser": rng.choice(SERIALIZERS)}
        return {"op": "tmake", "ser": rng.choice(RET_SERS)}

    def _focus_failed_registration(self, rng, a, shape):
        """directed tail around a registration that must fail (a = slot of an object that cannot take the marks, or one
        without weak-reference support registered weakly): over an id in use with force, under a fresh / generated id;
        the failed operation must leave everything as it was"""
        b = rng.choice([k for k in range(3) if k != a])
        seq = [{"op": "reg", "x": ["o", b], "id": rng.choice(LIT_IDS + [None]), "force": False, "weak": rng.random() < 0.3}]
        if shape == "noweak" and rng.random() < 0.6:
            # the object itself is registered (strongly) already: a failed forced weak re-registration must not touch that
            seq.append({"op": "reg", "x": ["o", a], "id": rng.choice(["id1", "id2", None]), "force": False, "weak": False})
        seq.append({"op": "reg", "x": ["o", a], "id": rng.choice(["@o%d" % b, "@o%d" % b, "@o%d" % a, "id2", None]), "force": True,
                    "weak": shape == "noweak" or rng.random() < 0.3})
        seq += [{"op": "call", "id": "@o%d" % b, "ser": rng.choice(SERIALIZERS)}, {"op": "ret", "k": b, "ser": rng.choice(RET_SERS)},
                {"op": "ret", "k": a, "ser": rng.choice(RET_SERS)}, {"op": "uri", "x": ["o", a]}]
        seq.append({"op": "reg", "x": ["o", a], "id": rng.choice([None, "id0"]), "force": False, "weak": shape == "noweak"})
        seq.append({"op": "list", "ser": rng.choice(SERIALIZERS)})
        if rng.random() < 0.5:
            seq.append({"op": "unreg", "by": "obj", "x": ["o", a]})
        return seq

    def _motif(self, rng, gtier):
        """a short directed sequence (id re-use after an object lost it, second id for one object) ending in a step
        that looks at the first object; it is interleaved with random steps"""
        a, b = rng.sample(range(3), 2)
        ida = "@o%d" % a
        xb = rng.choice([["o", b], ["o", b], ["c", rng.randrange(2)]])
        first = {"op": "reg", "x": ["o", a], "id": rng.choice(LIT_IDS + [None, None]), "force": False, "weak": rng.random() < 0.5}
        weak_b = xb[0] == "o" and rng.random() < 0.3
        r = rng.random()
        if gtier == "extended" and r < 0.3:       # forced replacement of a's id
            seq = [first, {"op": "reg", "x": xb, "id": ida, "force": True, "weak": weak_b}]
        elif gtier == "extended" and r < 0.6:     # forced second id for a, then possibly one of them goes
            seq = [first, {"op": "reg", "x": ["o", a], "id": rng.choice(["id1", "id2", None]), "force": True, "weak": rng.random() < 0.3}]
            q = rng.random()
            if q < 0.4:
                seq.append({"op": "unreg", "by": "id", "id": ida})
            elif q < 0.6:
                seq.append({"op": "unreg", "by": "id", "id": rng.choice(LIT_IDS)})
        else:                                     # a loses its id, somebody else takes it
            lose = {"op": "unreg", "by": "id", "id": ida} if rng.random() < 0.65 else {"op": "unreg", "by": "obj", "x": ["o", a]}
            seq = [first, lose]
            if rng.random() < 0.75:
                seq.append({"op": "reg", "x": xb, "id": ida, "force": False, "weak": weak_b})
        look = rng.choice([{"op": "gc", "k": a}, {"op": "gc", "k": a}, {"op": "unreg", "by": "obj", "x": ["o", a]},
                           {"op": "proxy", "x": ["o", a], "ser": rng.choice(SERIALIZERS)}, {"op": "uri", "x": ["o", a]},
                           {"op": "ret", "k": a, "ser": rng.choice(RET_SERS)}, {"op": "call", "id": ida, "ser": rng.choice(SERIALIZERS)},
                           {"op": "reg", "x": ["o", a], "id": rng.choice(LIT_IDS + [None]), "force": False, "weak": False}])
        return seq + [look]

    def _focus_stale_unregister(self, rng, forced):
        """directed tail: object a loses id X but keeps its marks (forced takeover, or unregister-by-id + re-registration),
        the new holder b of X is registered WEAKLY, a is unregistered by object (stale), b is collected; then X is looked
        at: listing, a call, an unforced registration of a third object under it"""
        a, b, c = rng.sample(range(3), 3)
        ida, idb = "@o%d" % a, "@o%d" % b
        seq = [{"op": "reg", "x": ["o", a], "id": rng.choice(LIT_IDS + [None, None]), "force": False, "weak": rng.random() < 0.4}]
        if forced:
            seq.append({"op": "reg", "x": ["o", b], "id": ida, "force": True, "weak": True})
        else:
            seq.append({"op": "unreg", "by": "id", "id": ida})
            seq.append({"op": "reg", "x": ["o", b], "id": ida, "force": False, "weak": True})
        seq.append({"op": "unreg", "by": "obj", "x": ["o", a]})
        if rng.random() < 0.3:
            seq.append(rng.choice([{"op": "ret", "k": b, "ser": rng.choice(RET_SERS)}, {"op": "call", "id": idb, "ser": rng.choice(SERIALIZERS)},
                                   {"op": "uri", "x": ["o", a]}]))
        seq.append({"op": "gc", "k": b})
        seq.append({"op": "list", "ser": rng.choice(SERIALIZERS)})
        seq.append({"op": "call", "id": idb, "ser": rng.choice(SERIALIZERS)})
        xc = rng.choice([["o", c], ["o", c], ["c", rng.randrange(2)]])
        seq.append({"op": "reg", "x": xc, "id": idb, "force": False, "weak": False})
        seq.append({"op": "call", "id": idb, "ser": rng.choice(SERIALIZERS)})
        return seq

    def _focus_weak_successor(self, rng):
        """directed tail: a weakly registered object is returned (and called), dropped and collected; its successor in the slot
        is registered under another id and returned: it must arrive as a proxy for ITS id, reaching IT"""
        a = rng.randrange(3)
        ser = rng.choice(RET_SERS)
        seq = [{"op": "reg", "x": ["o", a], "id": rng.choice(["id0", None]), "force": False, "weak": True},
               {"op": "ret", "k": a, "ser": ser}]
        if rng.random() < 0.4:
            seq.append({"op": "ret", "k": a, "ser": rng.choice(RET_SERS)})
        seq.append({"op": "gc", "k": a})
        seq.append({"op": "reg", "x": ["o", a], "id": rng.choice(["id1", None]), "force": False, "weak": rng.random() < 0.5})
        seq.append({"op": "ret", "k": a, "ser": ser})
        return seq

    def _focus_force_same_id(self, rng):
        """directed tail: an object is registered again under its OWN id with force and the weak flag flipped, then the
        application drops it: weak -> strong must survive and stay known, strong -> weak must go"""
        a = rng.randrange(3)
        ida = "@o%d" % a
        w0 = rng.random() < 0.6
        seq = [{"op": "reg", "x": ["o", a], "id": rng.choice(LIT_IDS + [None, None]), "force": False, "weak": w0}]
        if rng.random() < 0.3:
            seq.append({"op": "call", "id": ida, "ser": rng.choice(SERIALIZERS)})
        seq.append({"op": "reg", "x": ["o", a], "id": ida, "force": True, "weak": not w0})
        if rng.random() < 0.3:
            seq.append({"op": "ret", "k": a, "ser": rng.choice(RET_SERS)})
        seq += [{"op": "gc", "k": a}, {"op": "list", "ser": rng.choice(SERIALIZERS)}, {"op": "call", "id": ida, "ser": rng.choice(SERIALIZERS)}]
        return seq

    def _focus_class_then_instance(self, rng, a):
        """directed tail: class K (index 2) is registered under X, then pool object a - an INSTANCE of K - is registered
        under X with force: X must now reach that very instance, and the instance must come back as a proxy to itself.
        (Slot a is not looked at while K is registered and a is not: an instance of a registered class stands for the
        class registration by design, which is another statement.)"""
        seq = [{"op": "reg", "x": ["c", 2], "id": rng.choice(LIT_IDS + [None]), "force": False, "weak": False}]
        if rng.random() < 0.4:
            seq.append({"op": "call", "id": "@c2", "ser": rng.choice(SERIALIZERS)})
        seq.append({"op": "reg", "x": ["o", a], "id": "@c2", "force": True, "weak": False})
        seq.append({"op": "call", "id": "@o%d" % a, "ser": rng.choice(SERIALIZERS)})
        seq.append({"op": "ret", "k": a, "ser": rng.choice(RET_SERS)})
        if rng.random() < 0.4:
            seq.append({"op": "proxy", "x": ["o", a], "ser": rng.choice(SERIALIZERS)})
        return seq

    def line_codes(self, plan):
        return _codes() if plan.get("par") and plan["servertype"] == "thread" else ()

    def gen(self, rng, tier):
        big = tier == "thorough"
        gtier = rng.choice(["core", "core", "extended", "extended", "extended"])
        if rng.random() < 0.4:
            ops = self._motif(rng, gtier)
            for _ in range(rng.randint(0, 8 if big else 5)):
                ops.insert(rng.randint(0, len(ops)), self._op(rng, gtier))
        else:
            n = rng.randint(3, 16 if big else 10)
            ops = [self._op(rng, gtier) for _ in range(n)]
        plan = {"servertype": rng.choice(["thread", "multiplex"]), "gtier": gtier, "ops": ops, "sweep": True,
                "sweep_ser": [rng.choice(RET_SERS) for _ in range(3)],
                "net": {"p_frag": rng.choice([0.0, 0.0, 0.3])}, "p_block": rng.choice([0.0, 0.0, 0.3])}
        if rng.random() < 0.10:
            # focus: a stale unregister(object) next to a weak holder of the same id, then the holder is collected
            forced = rng.random() < 0.5
            gtier = plan["gtier"] = "extended" if forced else gtier
            del ops[:]
            for _ in range(rng.choice([0, 0, 1, 2])):
                ops.append(self._op(rng, gtier))
            ops.extend(self._focus_stale_unregister(rng, forced))
            plan["focus"] = "stale-unregister-weak-holder"
        shapes = ["plain", "plain", "plain"]
        if rng.random() < 0.5:
            shapes = [rng.choice(["plain", "plain", "len0", "bool0", "state", "frozen", "noweak", "eq", "vars", "vars"]) for _ in range(3)]
            if rng.random() < 0.2:
                shapes = ["eq"] * 3       # value-style objects: distinct objects that compare equal to each other
        if "focus" not in plan:
            r = rng.random()
            if r >= 0.09 and r < 0.15:
                a = rng.randrange(3)
                shape = rng.choice(["frozen", "noweak"])
                del ops[:]
                for _ in range(rng.choice([0, 0, 1, 2])):
                    ops.append(self._op(rng, gtier))
                ops.extend(self._focus_failed_registration(rng, a, shape))
                shapes[a] = shape
                gtier = plan["gtier"] = "extended"
                plan["focus"] = "failed-registration"
            if r < 0.05:
                del ops[:]
                for _ in range(rng.choice([0, 0, 1, 2])):
                    ops.append(self._op(rng, gtier))
                ops.extend(self._focus_force_same_id(rng))
                gtier = plan["gtier"] = "extended"
                plan["focus"] = "force-same-id-flip"
            elif r < 0.09:
                a = rng.randrange(3)
                del ops[:]
                for _ in range(rng.choice([0, 0, 1, 2])):
                    o = self._op(rng, "core")
                    if o.get("x") != ["o", a] and o.get("k") != a and o.get("id") != "@o%d" % a:
                        ops.append(o)       # nothing touches slot a before the tail
                ops.extend(self._focus_class_then_instance(rng, a))
                shapes[a] = "inst"
                gtier = plan["gtier"] = "extended"
                plan["focus"] = "class-then-instance"
        if "focus" not in plan and rng.random() < 0.04:
            # focus shape "replaced by an object of another class": A is registered and returned (whatever was remembered about its
            # proxy), then B - of a class with other methods - takes the id over by force and is returned: the proxy must be B's
            a, b = rng.sample(range(3), 2)
            ser = rng.choice(RET_SERS)
            del ops[:]
            ops.append({"op": "reg", "x": ["o", a], "id": rng.choice(["id0", None]), "force": False, "weak": rng.random() < 0.3})
            ops.append({"op": "ret", "k": a, "ser": ser})
            ops.append({"op": "reg", "x": ["o", b], "id": "@o%d" % a, "force": True, "weak": False})
            ops.append({"op": "ret", "k": b, "ser": ser})
            if rng.random() < 0.5:
                ops.append({"op": "call", "id": "@o%d" % b, "ser": rng.choice(SERIALIZERS)})
            fams = rng.sample(["plain", "vars", "noweak"], 2)
            shapes[a], shapes[b] = fams[0], fams[1]
            gtier = plan["gtier"] = "extended"
            plan["focus"] = "replaced-by-other-class"
        if "focus" not in plan and rng.random() < 0.04:
            del ops[:]
            for _ in range(rng.choice([0, 0, 1])):
                ops.append(self._op(rng, "core"))
            tail = self._focus_weak_successor(rng)
            a = tail[0]["x"][1]
            ops[:] = [o for o in ops if o.get("x") != ["o", a] and o.get("k") != a and o.get("id") != "@o%d" % a]
            ops.extend(tail)
            if shapes[a] in ("frozen", "noweak"):
                shapes[a] = "plain"
            plan["focus"] = "weak-successor"
        if "focus" not in plan and rng.random() < 0.04:
            # focus shape "two daemons": an object registered here is registered under the same id in a second daemon of the
            # process as well; that daemon is closed again; this daemon's registry and its answers must be what they were
            a = rng.randrange(3)
            del ops[:]
            for _ in range(rng.choice([0, 0, 1, 2])):
                o = self._op(rng, "core")
                if o.get("x") != ["o", a] and o.get("k") != a and o.get("id") != "@o%d" % a:
                    ops.append(o)
            ops.append({"op": "reg", "x": ["o", a], "id": rng.choice([None, "id0", "idA"]), "force": False, "weak": rng.random() < 0.25})
            if rng.random() < 0.5:
                # ... or: ANOTHER object of the same class lives in the second daemon for a while
                for _ in range(rng.randint(1, 2)):
                    ops.append({"op": "reg2", "k": a, "other": True})
                if rng.random() < 0.5:
                    ops.append({"op": "ret", "k": a, "ser": rng.choice(RET_SERS)})
                ops.append({"op": "unreg2"})
            else:
                ops.append({"op": "reg2", "k": a})
            if rng.random() < 0.5:
                ops.append({"op": "ret", "k": a, "ser": rng.choice(RET_SERS)})
            if rng.random() < 0.8:
                ops.append({"op": "close2"})
            ops.append({"op": rng.choice(["ret", "uri", "proxy"]), "k": a, "x": ["o", a], "ser": rng.choice(RET_SERS)})
            if shapes[a] in ("frozen", "noweak"):
                shapes[a] = "plain"
            plan["focus"] = "two-daemons"
            plan["sweep"] = True
        if "focus" not in plan and rng.random() < 0.05:
            # focus shape "class derived from a builtin value type": the pool object is a set with remote methods. Registered it
            # must arrive as a proxy with every auto-proxying serializer, unregistered as the value it is (marshal kept away)
            a = rng.randrange(3)
            ida = "@o%d" % a
            del ops[:]
            for _ in range(rng.choice([0, 0, 1, 2])):
                o = self._op(rng, "core")
                if o.get("x") != ["o", a] and o.get("k") != a and o.get("id") != ida:
                    ops.append(o)
            if rng.random() < 0.3:
                ops.append({"op": "ret", "k": a, "ser": rng.choice(RET_SERS)})
            ops.append({"op": "reg", "x": ["o", a], "id": rng.choice([None, "id0"]), "force": False, "weak": rng.random() < 0.25})
            for _ in range(rng.randint(1, 3)):
                ops.append(rng.choice([{"op": "ret", "k": a, "ser": rng.choice(RET_SERS)}, {"op": "ret", "k": a, "ser": rng.choice(RET_SERS)},
                                       {"op": "call", "id": ida, "ser": rng.choice(SERIALIZERS)},
                                       {"op": "proxy", "x": ["o", a], "ser": rng.choice(SERIALIZERS)}]))
            if rng.random() < 0.4:
                ops.append({"op": "unreg", "by": rng.choice(["id", "obj"]), "id": ida, "x": ["o", a]})
                ops.append({"op": "ret", "k": a, "ser": rng.choice(RET_SERS)})
            shapes[a] = "setlike"
            plan["focus"] = "builtin-subclass"
        plan["shapes"] = shapes
        if "focus" not in plan and rng.random() < 0.11:
            # concurrent factory calls: thread server, line pre-emption inside the registration code
            plan["par"] = True
            plan["servertype"] = "thread"
            plan["p_line"] = rng.choice([0.1, 0.2, 0.3, 0.4])
            plan["p_stall"] = rng.choice([0.0, 0.0, 0.03])
            plan["p_block"] = rng.choice([0.0, 0.3, 0.6])
            del ops[5:]
            for _ in range(rng.randint(1, 2)):
                callers = [{"mode": rng.choice(["obj", "obj", "uri"]), "ser": rng.choice(RET_SERS)} for _ in range(rng.randint(2, 3))]
                par = {"op": "par", "callers": callers}
                at = rng.randint(0, len(ops))
                if rng.random() < 0.6:
                    # the application drops a weakly registered pool object while the factory calls are under way
                    k = rng.randrange(3)
                    par["gc"] = {"k": k, "after": rng.choice([0.0, 0.05, 0.2])}
                    if rng.random() < 0.7:
                        callers[rng.randrange(len(callers))]["slow"] = rng.choice([0.1, 0.3, 1.0])
                    ops.insert(at, {"op": "reg", "x": ["o", k], "id": rng.choice(LIT_IDS + [None, None]), "force": False, "weak": True})
                    at += 1
                ops.insert(at, par)
        return plan

    def simplify(self, plan):
        if plan.get("sweep"):
            yield dict(plan, sweep=False)
        if plan["servertype"] != "multiplex" and not plan.get("par"):
            yield dict(plan, servertype="multiplex")
        if any(s != "plain" for s in plan.get("shapes") or ()):
            yield dict(plan, shapes=["plain"] * 3)
            for i, s in enumerate(plan["shapes"]):
                if s != "plain":
                    yield dict(plan, shapes=plan["shapes"][:i] + ["plain"] + plan["shapes"][i + 1:])
        for i, op in enumerate(plan["ops"]):
            if op["op"] == "par" and len(op["callers"]) > 2:
                ops = list(plan["ops"])
                ops[i] = dict(op, callers=op["callers"][:2])
                yield dict(plan, ops=ops)
        if plan["net"].get("p_frag"):
            yield dict(plan, net=dict(plan["net"], p_frag=0.0))
        for i, op in enumerate(plan["ops"]):
            for flag in ("weak", "force"):
                if op.get(flag):
                    ops = list(plan["ops"])
                    ops[i] = dict(op, **{flag: False})
                    yield dict(plan, ops=ops)

    # ------------------------------------------------------------------
    def scenario(self, ctx):
        run = _Run(ctx)
        try:
            try:
                run.run()
            except _Stop:
                pass
            # close the daemon while time is still virtual: otherwise the thread server's __del__ (run by the
            # collector between runs) closes its worker pool with a REAL time.sleep(0.1)
            try:
                run.daemon.close()
            except (S.Deadlock, S.StepCap, S.HarnessError):
                raise
            except Exception:  # noqa - tidying up only
                pass
        finally:
            run.pool.clear()
            O.reset_class_marks()


WORLD = RegistryWorld()
