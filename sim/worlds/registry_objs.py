"""Workload classes of the C16 registry world.

They live in their own importable module (dotted name without a double underscore: Pyro refuses to deserialise
class tags containing "__") and install their by-value converters ONCE, at import - serializer registries are
process-global and survive across runs.

By value, a PoolObj travels as the plain record {"__class__": TAG, "serial": n}:
  * json / msgpack / marshal: SerializerBase.class_to_dict finds the converter registered below;
  * serpent: no serpent-specific converter is installed (serpent_too=False) - the first Daemon.register() of a PoolObj
    installs the auto-proxy hook for the type anyway (and it stays for the life of the process), and that hook falls
    back to serpent's default class record, which is built from __getstate__().  Without a hook serpent uses the very
    same default class record, so the bytes on the wire do not depend on what earlier runs in this process did.
The receiving side turns the record into the plain list ["byvalue", n].
"""
import Pyro5.api as api
from Pyro5.callcontext import current_context
from Pyro5.serializers import SerializerBase

TAG = "sim.worlds.registry_objs.PoolObj"


@api.expose
class PoolObj:
    """pool object: every call is logged under the object's serial number in a list owned by the scenario"""
    # Unused slots give the instances a size that hardly anything else in a run has: CPython's small-object allocator then hands
    # the block of a pool object that has just died to the next pool object that is created - the successor lives at the dead
    # object's address, run after run (whatever remembers objects by id() meets a stranger; see Run.do_gc).
    __slots__ = tuple("_pad%02d" % i for i in range(31)) + ("__dict__", "__weakref__")

    def __init__(self, serial, log):
        self.serial = serial
        self._log = log

    def who(self):
        self._log.append(self.serial)
        return ["obj", self.serial]

    OWN = "who_plain"       # a method that only this family of pool classes has (the other families have theirs)

    def who_plain(self):
        self._log.append(self.serial)
        return ["obj", self.serial]

    def __getstate__(self):
        return {"serial": self.serial}


class PoolObjLen(PoolObj):
    """a container-like pool object that is always empty: falsy through __len__"""

    def __len__(self):
        return 0


class PoolObjBool(PoolObj):
    """a pool object with an explicit truth value: False"""

    def __bool__(self):
        return False


class PoolObjState(PoolObj):
    """a container-like pool object whose length follows its state: it is empty (falsy) before its first call and
    after every second one"""

    def __init__(self, serial, log):
        PoolObj.__init__(self, serial, log)
        self._n = 0

    @api.expose
    def who(self):
        self._n = 1 - self._n
        return PoolObj.who(self)

    def __len__(self):
        return self._n


class PoolObjEq(PoolObj):
    """a value-style pool object: all objects of this class compare equal to each other (and hash alike), as records with
    equal fields do; which of them is registered is a matter of identity, never of equality"""

    def __eq__(self, other):
        return isinstance(other, PoolObjEq)

    def __ne__(self, other):
        return not isinstance(other, PoolObjEq)

    def __hash__(self):
        return 7


class PoolObjK(PoolObj):
    """a pool object whose CLASS is registered as a class as well (class index 2): the daemon makes session instances
    of it without arguments, those answer ["cls", 2]; the pool instance answers and logs like any pool object"""

    def __init__(self, serial=-1, log=None):
        PoolObj.__init__(self, serial, log)

    @api.expose
    def who(self):
        if self._log is None:
            return ["cls", 2]
        return PoolObj.who(self)


class PoolObjFrozen(PoolObj):
    """a pool object that cannot take the daemon's marks (like a frozen dataclass): Daemon.register() of it fails"""

    def __setattr__(self, name, value):
        if name.startswith("_pyro"):
            raise AttributeError("cannot assign to field %r" % name)
        object.__setattr__(self, name, value)


@api.expose
class PoolObjSlots:
    """a pool object that has room for the daemon's marks but no weak-reference support (__slots__ without __weakref__):
    it can be registered, but not with weak=True"""
    __slots__ = ("serial", "_log", "_pyroId", "_pyroDaemon")

    def __init__(self, serial, log):
        self.serial = serial
        self._log = log

    def who(self):
        self._log.append(self.serial)
        return ["obj", self.serial]

    OWN = "who_slots"

    def who_slots(self):
        self._log.append(self.serial)
        return ["obj", self.serial]

    def __getstate__(self):
        return {"serial": self.serial}


@api.expose
class PoolObjVars:
    """a pool object of a class for which the application registered NO by-value converter: a serializer without an auto-proxy
    hook (marshal) sends it as Pyro's default class record, built from vars(obj)"""

    def __init__(self, serial, log):
        self.serial = serial
        self._log = log

    def who(self):
        self._log.append(self.serial)
        return ["obj", self.serial]

    OWN = "who_vars"

    def who_vars(self):
        self._log.append(self.serial)
        return ["obj", self.serial]


@api.expose
class PoolObjSet(set):
    """a pool object whose class derives from a builtin value type (a tag set with remote methods): registered, it is a Pyro
    object like any other and arrives as a proxy; not registered, it travels as the value it is - serpent: the default class
    record (-> ["byvalue", n]); json / msgpack: the list of its elements (-> ["bv:n"]); marshal cannot carry it at all (plans
    keep marshal away from it).  Identity semantics, so that equality plays no part."""

    def __init__(self, serial, log):
        set.__init__(self, ["bv:%d" % serial])
        self.serial = serial
        self._log = log

    __hash__ = object.__hash__

    def __eq__(self, other):
        return self is other

    def __ne__(self, other):
        return self is not other

    def who(self):
        self._log.append(self.serial)
        return ["obj", self.serial]

    OWN = "who_set"

    def who_set(self):
        self._log.append(self.serial)
        return ["obj", self.serial]

    def __getstate__(self):
        return {"serial": self.serial}


# (the subclasses are not class-exposed: that would publish __len__ / __bool__ as remote methods; who() is inherited exposed)
SHAPES = {"plain": PoolObj, "len0": PoolObjLen, "bool0": PoolObjBool, "state": PoolObjState, "inst": PoolObjK,
          "frozen": PoolObjFrozen, "noweak": PoolObjSlots, "eq": PoolObjEq, "vars": PoolObjVars, "setlike": PoolObjSet}


@api.expose
class Made:
    """what Dispenser.make() creates, registers without an id and hands out; lives outside the 3-slot pool"""

    def __init__(self, tag, hook=None):
        self.tag = tag
        self.calls = 0
        self._hook = hook

    def __setattr__(self, name, value):
        """user code that runs INSIDE Daemon.register(): when the daemon marks the object, a hook of the scenario runs once
        (it makes this registration slow, so that other threads act while this one is inside register())"""
        object.__setattr__(self, name, value)
        if name == "_pyroId" and self.__dict__.get("_hook") is not None:
            hook = self._hook
            object.__setattr__(self, "_hook", None)
            hook()

    def who(self):
        self.calls += 1
        return ["made", self.tag]

    def close(self):
        """called by the connection that tracks this object as a resource, when that connection goes away"""

    def __getstate__(self):
        return {"tag": self.tag}


@api.expose
class ClsA:
    def who(self):
        return ["cls", 0]


@api.expose
class ClsB:
    def who(self):
        return ["cls", 1]


CLASSES = [ClsA, ClsB, PoolObjK]


@api.expose
class Dispenser:
    """permanent object; give(k) returns pool object k (looked up in the dict shared with the scenario, so the
    dispenser never holds a reference of its own)"""

    def __init__(self, pool, made=None, hooks=None):
        self._pool = pool
        self._made = made if made is not None else {}    # tag -> Made, shared with the scenario
        self._hooks = hooks if hooks is not None else {}  # tag -> callable run inside register() of that object

    def give(self, k):
        return self._pool[k]

    def make(self, tag, mode):
        """the everyday factory pattern: create an object, register it WITHOUT an id, hand it out - as the object
        (it travels as a proxy) or as its uri"""
        obj = Made(tag, self._hooks.pop(tag, None))
        self._made[tag] = obj
        if mode == "tracked":
            # a per-client object made on demand: registered weakly (it goes when the application drops it) and
            # tracked as a resource of the calling client's connection (closed when that client goes away)
            self._pyroDaemon.register(obj, weak=True)
            current_context.track_resource(obj)
            return obj
        uri = self._pyroDaemon.register(obj)
        return obj if mode == "obj" else str(uri)


def _to_dict(o):
    return {"__class__": TAG, "serial": o.serial}


def _from_dict(classname, d):
    return ["byvalue", d["serial"]]


MADE_TAG = "sim.worlds.registry_objs.Made"


def _made_to_dict(o):
    return {"__class__": MADE_TAG, "tag": o.tag}


def _made_from_dict(classname, d):
    return ["byvalue-made", d["tag"]]


assert PoolObj.__module__ + "." + PoolObj.__name__ == TAG, "module imported under an unexpected name: %s" % PoolObj.__module__
assert "__" not in TAG
SerializerBase.register_class_to_dict(PoolObj, _to_dict, serpent_too=False)
SerializerBase.register_dict_to_class(TAG, _from_dict)
for _c in SHAPES.values():      # serpent's default class record carries the subclass's own name
    SerializerBase.register_dict_to_class(_c.__module__ + "." + _c.__name__, _from_dict)
SerializerBase.register_class_to_dict(PoolObjSlots, _to_dict, serpent_too=False)
# serpent would write an unregistered PoolObjSet as a set literal until the first Daemon.register() of one installs Pyro's hook
# for the type (for the life of the process), whose fall-back is the default class record: install that fall-back now, so
# that the bytes on the wire do not depend on what earlier runs in this process did
import serpent as _serpent  # noqa: E402
_serpent.register_class(PoolObjSet, lambda obj, ser, out, lvl: ser.ser_default_class(obj, out, lvl))
assert Made.__module__ + "." + Made.__name__ == MADE_TAG
SerializerBase.register_class_to_dict(Made, _made_to_dict, serpent_too=False)
SerializerBase.register_dict_to_class(MADE_TAG, _made_from_dict)


def reset_class_marks():
    """Daemon.register() marks a registered CLASS itself (_pyroId/_pyroDaemon); the classes are module-level, so the
    marks of an earlier run must not leak into the next one"""
    for c in CLASSES:
        for a in ("_pyroId", "_pyroDaemon"):
            if a in vars(c):
                delattr(c, a)
        c._pyroInstancing = ("session", None)
