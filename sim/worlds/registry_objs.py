"""Workload classes of the C16 registry world.

They live in their own importable module (dotted name without a double underscore: Pyro refuses to deserialise
class tags containing "__") and install their by-value converters ONCE, at import - serializer registries are
process-global and survive across runs.

By value, a PoolObj travels as the plain record {"__class__": TAG, "serial": n}:
  * json / msgpack / marshal: SerializerBase.class_to_dict finds the converter registered below;
  * serpent: no serpent-specific converter is installed (serpent_too=False) - the first Daemon.register() of a PoolObj
    installs the auto-proxy hook for the type anyway (and it stays for the life of the process), and that hook falls
    back to serpent's default class record, which is built from __getstate__().  Without a hook serpent uses the very
    same default class record, so the bytes on the wire do not depend on what earlier runs in this process did.
The receiving side turns the record into the plain list ["byvalue", n].
"""
import Pyro5.api as api
from Pyro5.serializers import SerializerBase

TAG = "sim.worlds.registry_objs.PoolObj"


@api.expose
class PoolObj:
    """pool object: every call is logged under the object's serial number in a list owned by the scenario"""

    def __init__(self, serial, log):
        self.serial = serial
        self._log = log

    def who(self):
        self._log.append(self.serial)
        return ["obj", self.serial]

    def __getstate__(self):
        return {"serial": self.serial}


@api.expose
class ClsA:
    def who(self):
        return ["cls", 0]


@api.expose
class ClsB:
    def who(self):
        return ["cls", 1]


CLASSES = [ClsA, ClsB]


@api.expose
class Dispenser:
    """permanent object; give(k) returns pool object k (looked up in the dict shared with the scenario, so the
    dispenser never holds a reference of its own)"""

    def __init__(self, pool):
        self._pool = pool

    def give(self, k):
        return self._pool[k]


def _to_dict(o):
    return {"__class__": TAG, "serial": o.serial}


def _from_dict(classname, d):
    return ["byvalue", d["serial"]]


assert PoolObj.__module__ + "." + PoolObj.__name__ == TAG, "module imported under an unexpected name: %s" % PoolObj.__module__
assert "__" not in TAG
SerializerBase.register_class_to_dict(PoolObj, _to_dict, serpent_too=False)
SerializerBase.register_dict_to_class(TAG, _from_dict)


def reset_class_marks():
    """Daemon.register() marks a registered CLASS itself (_pyroId/_pyroDaemon); the classes are module-level, so the
    marks of an earlier run must not leak into the next one"""
    for c in CLASSES:
        for a in ("_pyroId", "_pyroDaemon"):
            if a in vars(c):
                delattr(c, a)
        c._pyroInstancing = ("session", None)
