"""C08 - nothing is invoked on a connection before an accepted handshake.

Raw peers send a first message M1 (any type, valid or mutated, any serializer id, any handshake payload
shape) with 0-3 further messages pipelined behind it, against a Daemon whose validateHandshake behaves as
the plan says (accept / raise / return odd values).  Every execution of a registered object's method is
logged with the connection it came from; the server->client direction is recorded by the middlebox.
"""
import re
import socket
import threading

from ..world import World
from .. import net as N
from .common import Server, read_msg, SERIALIZERS
from .hostile import Victim, build_msg, gen_msgspec, HANDS
from ..seams import config, CL, SV
import Pyro5.api as api
import Pyro5.errors as E
import Pyro5.serializers as SER


class CustomDenied(Exception):
    pass


class _Unser:
    __slots__ = ("x",)

    def __getstate__(self):
        raise RuntimeError("cannot serialise")

    def __reduce__(self):
        raise RuntimeError("cannot serialise")


class VDaemon(SV.Daemon):
    vmode = {"mode": "accept"}
    vcalls = 0
    ann_fails = False

    def annotations(self):
        if self.ann_fails:
            # the application's annotations() hook is broken: no reply can be built at all (no verdict on what the peer is told
            # is demanded then) - but that must never turn a connection into an accepted one
            raise RuntimeError("annotations hook failed")
        return {}

    def validateHandshake(self, conn, data):
        self.vcalls += 1
        m = self.vmode
        if m["mode"] == "raise":
            exc = {"SecurityError": E.SecurityError, "ValueError": ValueError, "KeyError": KeyError,
                   "Custom": CustomDenied, "Exception": Exception, "PermissionError": PermissionError,
                   "AssertionError": AssertionError, "PyroTimeoutError": E.TimeoutError,
                   "PyroConnectionClosedError": E.ConnectionClosedError, "PyroProtocolError": E.ProtocolError}[m["exc"]]
            if m.get("bare"):
                raise exc()          # an exception without any message is still a refusal
            raise exc("VMSG-%s" % m["exc"])
        if m["mode"] == "return":
            if m["ret"] == "none":
                return None
            if m["ret"] == "large":
                return "L" * 50000
            if m["ret"] == "unserialisable":
                return _Unser()
            if m["ret"] == "dict":
                return {"ok": [1, 2, 3]}
        return "hello"


@api.expose
class LoggingDaemonObject(SV.DaemonObject):
    def ping(self):
        self.daemon._dlog.append((self.daemon._sched.stamp(), _cur_conn(), "daemon.ping"))
        return super().ping()

    def info(self):
        self.daemon._dlog.append((self.daemon._sched.stamp(), _cur_conn(), "daemon.info"))
        return super().info()

    def registered(self):
        self.daemon._dlog.append((self.daemon._sched.stamp(), _cur_conn(), "daemon.registered"))
        return super().registered()


def _cur_conn():
    from Pyro5.callcontext import current_context
    c = current_context.client
    return getattr(getattr(c, "sock", None), "conn", None)


_CODES = None
DEFINITE_FAIL_BASES = ("invoke", "boom", "ping", "ow", "batch", "unknown_member", "private_member", "gen", "blob", "daemon_ping")


def muts_type(m1):
    return next((m["v"] & 0xff for m in m1.get("mut") or [] if m["f"] == "type"), None)


class PreHandshakeWorld(World):
    PROPERTY = "C08"
    NAME = "prehandshake"
    REAL = ["Daemon._handshake / validateHandshake override", "ClientConnectionJob.handleConnection", "SocketServer_Multiplex._handleConnection",
            "Daemon.handleRequest", "Pyro5.protocol", "Pyro5.serializers", "legitimate client: Pyro5.client.Proxy"]
    STUB = ["sockets/selector (in-memory), recording middlebox on the server->client direction", "threads (baton scheduler)",
            "time (virtual clock)", "raw scripted peers"]
    PROBES = ["m1_not_connect", "m1_unknown_serializer", "m1_unknown_object", "m1_bad_shape", "validator_raised", "validator_odd_return",
              "pipelined_after_fail", "pipelined_after_ok", "connectfail_seen", "connectok_seen", "legit_ok", "m1_truncated",
              "m1_mutated", "multiplex", "thread", "validator_bare_exception", "unregister_raced", "proxy_reconnects_to_withdrawn_object", "m1_type_not_connect", "m1_type_undefined", "garbage_bad_prefix", "m1_stalled_until_commtimeout",
              "m1_connect_with_bad_body", "m1_not_connect_body_incomplete", "annotations_hook_fails", "wall_clock_stepped", "m1_in_slow_pieces"]
    RULE = ("plan = (server type, COMMTIMEOUT, validator behaviour, 1-3 raw peers each with first message spec + 0-3 pipelined message "
            "specs sent in one write or several, optional legitimate client); distinct = distinct interleaving digest; "
            "non-trivial = at least one peer's first message was not a pristine accepted CONNECT")
    ASSUMPTIONS = ["no reply is demanded when the daemon cannot reach a verdict from the bytes sent (incomplete first message) - the peer then times out and closes",
                   "pre-connected socket pairs (exempt by design) are not used",
                   "validator exceptions have an ordinary __str__",
                   "Daemon.get_metadata called by the handshake itself is part of the handshake, not an invocation on behalf of the peer"]
    QUICK_RUNS = 8000
    CHUNK = 100
    SHRINK_LISTS = ["peers", "peers.0.pipe", "peers.1.pipe", "peers.2.pipe"]

    def gen(self, rng, tier):
        vm = rng.random()
        if vm < 0.45:
            validator = {"mode": "accept"}
        elif vm < 0.8:
            validator = {"mode": "raise", "exc": rng.choice(["SecurityError", "ValueError", "KeyError", "Custom", "Exception",
                                                             "PermissionError", "AssertionError", "PyroTimeoutError",
                                                             "PyroConnectionClosedError", "PyroProtocolError"]),
                         "bare": rng.random() < 0.3}
        else:
            validator = {"mode": "return", "ret": rng.choice(["none", "large", "unserialisable", "dict"])}
        peers = []
        for _ in range(rng.randint(1, 3)):
            r = rng.random()
            if r < 0.45:
                m1 = {"base": "connect", "obj": rng.choice(["tok", "tok", "nope", "Pyro.Daemon"]), "ser": rng.choice([1, 2, 3, 4]),
                      "arg": 0, "seq": rng.randrange(65536), "mut": [], "hand": rng.choice(HANDS + ["valid"] * 4)}
                if rng.random() < 0.25:
                    m1["mut"] = [{"f": "ser", "v": rng.choice([0, 5, 42, 99, 255])}]
            elif r < 0.7:
                m1 = gen_msgspec(rng, allow=["connect"])
            elif r < 0.8:
                m1 = {"base": "garbage", "obj": "tok", "ser": 1, "arg": 0, "seq": 0, "mut": [],
                      "n": rng.choice([6, 7, 16, 39, 40, 41]), "seed": rng.randrange(1 << 30)}
            else:
                m1 = gen_msgspec(rng)
            pipe = []
            for _ in range(rng.randint(0, 3)):
                p = gen_msgspec(rng, allow=["invoke", "invoke", "ow", "batch", "ping", "connect", "boom", "daemon_ping"])
                if rng.random() < 0.7:
                    p["mut"] = []
                    p.pop("trunc", None)
                p["obj"] = rng.choice(["tok", "tok", "Pyro.Daemon"])
                pipe.append(p)
            peers.append({"m1": m1, "pipe": pipe, "split": rng.random() < 0.5, "gap": rng.choice([0, 0.01, 0.3]),
                          "start": rng.choice([0, 0.01, 0.2])})
        unreg = None
        if rng.random() < 0.3:
            # an object that is unregistered while peers are connecting to it; some connect at that very instant, some later
            at = rng.choice([0.0, 0.01, 0.05, 0.2])
            unreg = {"at": at, "reconnect": rng.random() < 0.5}
            starts = [at, at, at + rng.choice([0.0, 0.001]), at + 3.0, at + rng.choice([0.5, 4.0])]
            for k in range(rng.randint(2, 5)):
                peers.append({"m1": {"base": "connect", "obj": "tmp", "ser": rng.choice([1, 2, 3, 4]), "arg": 0, "seq": 0, "mut": [], "hand": "valid"},
                              "pipe": [{"base": "invoke", "obj": rng.choice(["tmp", "tok"]), "ser": 2, "arg": rng.randrange(1000), "seq": 1, "mut": []}],
                              "split": True, "gap": rng.choice([0, 0.01, 0.1]), "start": starts[k]})
        extra = {}
        if rng.random() < 0.12:
            extra["ann_fails"] = True
            # peers whose FIRST message has the type of a daemon's own replies, followed by a call
            for typ in rng.sample([2, 3, 5, 6], rng.randint(1, 2)):
                peers.append({"m1": {"base": rng.choice(["connect", "invoke", "ping"]), "obj": "tok", "ser": rng.choice([1, 2, 3, 4]), "arg": 0,
                                     "seq": 0, "hand": "valid",
                                     # (with an empty body the stream stays aligned for whatever is pipelined behind it)
                                     "mut": [{"f": "type", "v": typ}] + ([{"f": "payload", "v": "empty"}] if rng.random() < 0.7 else [])},
                              "pipe": [{"base": "invoke", "obj": "tok", "ser": 2, "arg": rng.randrange(1000), "seq": 1, "mut": []}],
                              "split": rng.random() < 0.5, "gap": rng.choice([0, 0.01]), "start": rng.choice([0, 0.01, 0.2])})
        if rng.random() < 0.1:
            # peers whose first message is well-formed but of a type that is no CONNECT - one of the other defined types or one that
            # protocol version 502 does not define at all - with a proper CONNECT and a call pipelined behind it
            for typ in rng.sample([0, 7, 8, 9, 0x7f, 0x80, 0xfe, 0xff, 2, 3, 4, 5, 6], rng.randint(1, 2)):
                peers.append({"m1": {"base": rng.choice(["connect", "invoke", "ping"]), "obj": "tok", "ser": rng.choice([1, 2, 3, 4]), "arg": 0,
                                     "seq": 0, "hand": "valid",
                                     "mut": [{"f": "type", "v": typ}]},
                              "pipe": [{"base": "connect", "obj": "tok", "ser": rng.choice([1, 2, 3, 4]), "arg": 0, "seq": 0, "mut": [], "hand": "valid"},
                                       {"base": "invoke", "obj": "tok", "ser": 2, "arg": rng.randrange(1000), "seq": 1, "mut": []}],
                              "split": rng.random() < 0.5, "gap": rng.choice([0, 0.01]), "start": rng.choice([0, 0.01, 0.2])})
        for p_ in peers:
            m_ = p_["m1"]
            if m_["base"] == "connect" and not m_.get("mut") and rng.random() < (0.25 if m_.get("trunc") is None else 0.6):
                p_["pieces"] = sorted(round(rng.random(), 3) for _ in range(rng.randint(1, 3)))
                p_["piece_gap"] = rng.choice([0.2, 0.3, 0.4])
        if rng.random() < 0.2:
            # the wall clock is stepped forward while peers are connecting (NTP step, VM resume)
            extra["clock_jumps"] = [[rng.choice([0.0, 0.001, 0.01, 0.2, 0.5, 1.0]), rng.choice([5.0, 3600.0, 86400.0])]]
            if rng.random() < 0.6:
                # focus: the step lands between two pieces of a slow first message (complete or not) under a COMMTIMEOUT
                s0 = rng.choice([0.0, 0.05, 0.2])
                gap = rng.choice([0.2, 0.3])
                npieces = rng.randint(1, 3)
                m = {"base": "connect", "obj": "tok", "ser": rng.choice([1, 2, 3, 4]), "arg": 0, "seq": 0, "mut": [], "hand": "valid"}
                if rng.random() < 0.6:
                    m["trunc"] = round(0.2 + 0.7 * rng.random(), 3)
                peers.append({"m1": m, "pipe": [], "split": True, "gap": 0, "start": s0,
                              "pieces": sorted(round(0.1 + 0.8 * rng.random(), 3) for _ in range(npieces)), "piece_gap": gap})
                extra["clock_jumps"] = [[round(s0 + gap * rng.randint(0, npieces - 1) + gap / 2, 3), rng.choice([5.0, 3600.0])]]
                extra["commtimeout_focus"] = 1.5
        cfocus = extra.pop("commtimeout_focus", None)
        return {**extra, "servertype": rng.choice(["thread", "multiplex"]),
                "commtimeout": cfocus if (cfocus and rng.random() < 0.7) else rng.choice([0.0, 0.0, 1.5]), "unregister": unreg,
                "p_line": rng.choice([0.05, 0.15, 0.3]) if unreg else 0.0, "p_stall": rng.choice([0.0, 0.05, 0.1]) if unreg else 0.0,
                "validator": validator, "peers": peers, "legit": rng.random() < 0.6, "serializer": rng.choice(SERIALIZERS),
                "net": {"p_frag": rng.choice([0.0, 0.3, 0.8]), "shuffle_select": rng.random() < 0.5},
                "p_block": rng.choice([0.0, 0.3, 1.0])}

    def line_codes(self, plan):
        if not plan.get("p_line") and not plan.get("sched", {}).get("p_line") and plan.get("sched", {}).get("mode") != "replay":
            return ()
        global _CODES
        if _CODES is None:
            from .. import sched as S
            _CODES = S.code_closure(SV.DaemonObject.get_metadata, SV.Daemon.unregister, SV.Daemon.register)
        return _CODES if plan.get("unregister") else ()

    # ------------------------------------------------------------------
    def scenario(self, ctx):
        plan, sched, net = ctx.plan, ctx.sched, ctx.net
        config.SERIALIZER = plan["serializer"]
        ctx.probe(plan["servertype"])

        def on_connect(idx, csock, ssock):
            ssock.out = N.MessagePipe(net, ssock, csock, idx, "s2c")     # record what the daemon answers
        net.on_connect = on_connect

        config.SERVERTYPE = plan["servertype"]
        config.THREADPOOL_SIZE_MIN, config.THREADPOOL_SIZE = 1, 8
        config.COMMTIMEOUT = plan["commtimeout"]
        config.POLLTIMEOUT = 2.0
        daemon = VDaemon(host="127.0.0.1", port=0, interface=LoggingDaemonObject)
        daemon.vmode = plan["validator"]
        daemon.ann_fails = bool(plan.get("ann_fails"))
        if daemon.ann_fails:
            ctx.probe("annotations_hook_fails")
        if plan.get("clock_jumps"):
            ctx.probe("wall_clock_stepped")
        daemon._dlog = []
        daemon._sched = sched
        victim = Victim(sched)
        uri = daemon.register(victim, "tok")
        tmpobj = Victim(sched)
        unreg = {"ret": None}
        if plan.get("unregister"):
            daemon.register(tmpobj, "tmp")
        addr = daemon.transportServer.sock.getsockname()
        loop = threading.Thread(target=daemon.requestLoop, name="daemon-loop")
        loop.start()
        results = {}

        def peer(pi, spec):
            r = results[pi] = {"received": [], "end": None, "conn": None}
            if spec["start"]:
                sched.sleep(spec["start"])
            try:
                sk = net.connect_raw(addr, timeout=None)
            except OSError as x:
                r["end"] = "connect-failed:%s" % type(x).__name__
                return
            r["conn"] = sk.conn
            r["sent_stamp"] = sched.stamp()
            m1 = build_msg(_fix(spec["m1"]))
            rest = [build_msg(_fix(x)) for x in spec["pipe"]]
            r["m1_len"] = len(m1)
            r["total_len"] = len(m1) + sum(len(x) for x in rest)
            sends = r["sends"] = {}     # argument of a message -> stamp just before the peer began to send it (first occurrence)

            def note(specs):
                st = sched.stamp()
                for x in specs:
                    sends.setdefault(x.get("arg"), st)
            try:
                if spec.get("pieces") and m1:
                    # a slow but complete first message: a few bytes now, the rest in pieces with pauses (each pause well below
                    # any COMMTIMEOUT)
                    ctx.probe("m1_in_slow_pieces")
                    cuts = sorted({max(1, min(len(m1) - 1, int(f * len(m1)))) for f in spec["pieces"]})
                    prev = 0
                    for c in cuts + [len(m1)]:
                        sk.sendall(m1[prev:c])
                        prev = c
                        if c < len(m1):
                            sched.sleep(spec.get("piece_gap", 0.3))
                    for x, xs in zip(rest, spec["pipe"]):
                        if x:
                            note([xs])
                            sk.sendall(x)
                elif spec["split"]:
                    if m1:
                        note([spec["m1"]])
                        sk.sendall(m1)
                    for x, xs in zip(rest, spec["pipe"]):
                        if spec["gap"]:
                            sched.sleep(spec["gap"])
                        if x:
                            note([xs])
                            sk.sendall(x)
                else:
                    if m1 or rest:
                        note([spec["m1"]] + list(spec["pipe"]))
                        sk.sendall(m1 + b"".join(rest))
            except OSError:
                r["send_error"] = True
            sk.settimeout(30.0)
            try:
                while len(r["received"]) < 12:
                    m = read_msg(sk)
                    if m is None:
                        r["end"] = "eof"
                        break
                    m["stamp"] = sched.stamp()
                    r["received"].append(m)
                else:
                    r["end"] = "many"
            except socket.timeout:
                r["end"] = "timeout"
            except OSError as x:
                r["end"] = "oserror:%s" % type(x).__name__
            sk.close()

        legit = {}

        def legit_client():
            try:
                p = CL.Proxy(uri)
                p._pyroTimeout = None
                for i in range(3):
                    tok = "L%d" % i
                    legit[tok] = p.echo(tok)
                    sched.sleep(0.05)
                p._pyroRelease()
            except Exception as x:  # noqa
                legit["error"] = (type(x).__name__, str(x)[:150])

        recon = {}

        def reconnecting_client():
            """an ordinary proxy that was connected to the object before it was withdrawn and comes back afterwards (it still holds
            the object's metadata): the new connection's handshake names an unknown object"""
            p = CL.Proxy(str(uri).replace("tok@", "tmp@"))
            p._pyroTimeout = None
            try:
                p._pyroBind()
            except Exception as x:  # noqa - refused by the validator, or withdrawn already
                recon["first"] = type(x).__name__
                return
            recon["first"] = "ok"
            sched.sleep(plan["unregister"]["at"] + 1.0)
            recon["began"] = sched.stamp()
            try:
                p._pyroReconnect(tries=1)
                recon["again"] = "ok"
                try:
                    recon["call"] = ("ok", p.echo("R1"))
                except Exception as x:  # noqa
                    recon["call"] = (type(x).__name__, str(x)[:100])
            except Exception as x:  # noqa
                recon["again"] = type(x).__name__
            try:
                p._pyroRelease()
            except Exception:  # noqa
                pass

        ths = [threading.Thread(target=peer, args=(i, s), name="peer%d" % i) for i, s in enumerate(plan["peers"])]
        if plan["legit"]:
            ths.append(threading.Thread(target=legit_client, name="legit"))
        if plan.get("unregister") and plan["unregister"].get("reconnect"):
            ths.append(threading.Thread(target=reconnecting_client, name="legit-reconnect"))
        for t in ths:
            t.start()
        if plan.get("unregister"):
            if plan["unregister"]["at"]:
                sched.sleep(plan["unregister"]["at"])
            daemon.unregister("tmp")
            unreg["ret"] = sched.stamp()
            ctx.probe("unregister_raced")
        for t in ths:
            t.join(900.0)
        if any(sched.sim_thread_of(t).state != "done" for t in ths):
            ctx.violate("scenario-hung", "", "a peer or the legitimate client did not finish within 900 virtual seconds")
            return
        sched.settle(5.0)
        lt = sched.sim_thread_of(loop)
        if lt.state == "done":
            ctx.disturbed = "daemon loop died: %r" % (lt.died,)
            return
        self._judge(ctx, plan, net, victim, daemon, results, legit)
        if unreg["ret"] is not None:
            # after unregister() returned, the id is unknown: no handshake for it may be accepted, no method of it may run
            # (a request that was already on its way when unregister() returned may have been looked up before: only a
            #  request that the peer began to send afterwards was certainly dispatched afterwards)
            sent_at = {}
            for r in results.values():
                for arg, st in (r.get("sends") or {}).items():
                    sent_at.setdefault((r["conn"], arg), st)
            for stamp, conn, meth, tok in tmpobj._log:
                mo = re.search(r"\d+$", tok) if isinstance(tok, str) else None
                began = sent_at.get((conn, int(mo.group()) if mo else None))
                if began is None:       # not attributable to one message: then the connection itself must be younger
                    began = min([r["sent_stamp"] for r in results.values() if r.get("conn") == conn and "sent_stamp" in r], default=None)
                if stamp > unreg["ret"] and began is not None and began > unreg["ret"]:
                    ctx.violate("executed-after-unregister", meth, "%s(%r) ran on the unregistered object for connection %r" % (meth, tok, conn))
            if recon.get("first") == "ok" and recon.get("began", 0) > unreg["ret"]:
                ctx.probe("proxy_reconnects_to_withdrawn_object")
                if recon.get("again") == "ok":
                    ctx.violate("handshake-accepted-wrongly", "reconnect-to-unregistered-object", "a proxy that had been connected to 'tmp' "
                                "reconnected after the object was unregistered and was let in (then: call -> %r)" % (recon.get("call"),))
            for pi, spec in enumerate(plan["peers"]):
                r = results.get(pi)
                if r and spec["m1"].get("obj") == "tmp" and r.get("sent_stamp", 0) > unreg["ret"] and r["received"]:
                    if r["received"][0]["type"] == N.MSG_CONNECTOK and plan["validator"]["mode"] != "raise":
                        ctx.violate("handshake-accepted-wrongly", "unregistered-object", "peer %d connected to 'tmp' after it was unregistered and got CONNECTOK" % pi)

    # ------------------------------------------------------------------
    def _judge(self, ctx, plan, net, victim, daemon, results, legit):
        vm = plan["validator"]
        ok_stamp = {}      # conn -> stamp of CONNECTOK as seen by the middlebox
        for m in net.messages:
            if m["dir"] == "s2c" and m["type"] == N.MSG_CONNECTOK and m["conn"] not in ok_stamp:
                ok_stamp[m["conn"]] = m["stamp"]
        # clause 1: every execution happened after that connection's CONNECTOK
        for stamp, conn, meth, tok in list(victim._log) + list(getattr(self, "_tmp_log", [])):
            if conn not in ok_stamp or ok_stamp[conn] > stamp:
                ctx.violate("executed-before-handshake", meth, "method %s(%r) ran for connection %r which had no accepted handshake"
                            % (meth, tok, conn))
        for stamp, conn, meth in daemon._dlog:
            if conn not in ok_stamp or ok_stamp[conn] > stamp:
                ctx.violate("executed-before-handshake", meth, "%s ran for connection %r which had no accepted handshake" % (meth, conn))
        nontrivial = False
        for pi, spec in enumerate(plan["peers"]):
            r = results.get(pi)
            if r is None or r["conn"] is None:
                continue
            m1 = spec["m1"]
            pristine = not m1.get("mut") and m1.get("trunc") is None and m1["base"] != "garbage"
            rec = r["received"]
            first = rec[0] if rec else None
            klass = self._classify(m1, vm, pristine)
            if plan.get("ann_fails"):
                klass = "unknown"
            if klass == "trunc":
                # an incomplete first message from a peer that stays connected: with a server COMMTIMEOUT the daemon itself gives
                # up on it - and has to say so (CONNECTFAIL with the reason); without one it legitimately waits for the peer
                klass = "fail:timeout" if (plan["commtimeout"] and not spec["pipe"]) else "unknown"
                if klass == "fail:timeout":
                    ctx.probe("m1_stalled_until_commtimeout")
            if klass != "ok":
                nontrivial = True
            if m1.get("trunc") is not None:
                ctx.probe("m1_truncated")
            if m1.get("mut"):
                ctx.probe("m1_mutated")
            if first is not None and first["type"] not in (N.MSG_CONNECTOK, N.MSG_CONNECTFAIL):
                ctx.violate("non-handshake-reply-first", str(first["type"]), "peer %d: first message from the daemon has type %d" % (pi, first["type"]))
                continue
            if first is not None and first["type"] == N.MSG_CONNECTOK:
                ctx.probe("connectok_seen")
                if klass.startswith("fail"):
                    ctx.violate("handshake-accepted-wrongly", klass, "peer %d: %s but the daemon answered CONNECTOK" % (pi, klass))
                if spec["pipe"]:
                    ctx.probe("pipelined_after_ok")
            if first is not None and first["type"] == N.MSG_CONNECTFAIL:
                ctx.probe("connectfail_seen")
                reason = self._reason(first)
                if not reason and vm.get("mode") == "raise" and vm.get("bare"):
                    ctx.probe("validator_bare_exception")      # nothing to carry: the exception has no message
                elif not reason:
                    ctx.violate("connectfail-without-reason", klass, "peer %d: CONNECTFAIL carries no reason (%r)" % (pi, reason))
                else:
                    if klass == "fail:validator" and "VMSG-" not in reason and not vm.get("bare"):
                        ctx.violate("connectfail-wrong-reason", "validator", "peer %d: validator raised VMSG-%s, reason is %r" % (pi, vm.get("exc"), reason[:120]))
                    if klass == "fail:unknown-object" and "unknown object" not in reason:
                        ctx.violate("connectfail-wrong-reason", "unknown-object", "peer %d: reason is %r" % (pi, reason[:120]))
                if len(rec) > 1:
                    ctx.violate("reply-after-connectfail", str(rec[1]["type"]), "peer %d received message type %d after CONNECTFAIL" % (pi, rec[1]["type"]))
                if r["end"] not in ("eof", "oserror:ConnectionResetError"):
                    ctx.violate("not-closed-after-connectfail", r["end"] or "?", "peer %d: connection still open after CONNECTFAIL (%s)" % (pi, r["end"]))
                if spec["pipe"]:
                    ctx.probe("pipelined_after_fail")
            stall_possible = plan["servertype"] == "multiplex" and (len(plan["peers"]) > 1) and r["end"] == "timeout"
            if first is None and klass.startswith("fail") and self._verdict_reachable(m1, r) and not stall_possible:
                # the daemon could decide, the peer stayed connected and read until EOF/timeout: it must have been told
                ctx.violate("no-connectfail", klass, "peer %d: %s; the connection ended (%s) without any CONNECTFAIL" % (pi, klass, r["end"]))
            if klass == "fail:payload":
                ctx.probe("m1_connect_with_bad_body")
            if klass == "fail:not-connect" and m1.get("trunc") is not None:
                ctx.probe("m1_not_connect_body_incomplete")
            if klass == "fail:bad-prefix":
                ctx.probe("garbage_bad_prefix")
            if klass == "fail:wrong-type":
                ctx.probe("m1_type_not_connect" if muts_type(m1) in (2, 3, 4, 5, 6) else "m1_type_undefined")
            if klass == "fail:not-connect":
                ctx.probe("m1_not_connect")
            elif klass == "fail:unknown-serializer":
                ctx.probe("m1_unknown_serializer")
            elif klass == "fail:unknown-object":
                ctx.probe("m1_unknown_object")
            elif klass == "fail:shape":
                ctx.probe("m1_bad_shape")
            elif klass == "fail:validator":
                ctx.probe("validator_raised")
            if vm["mode"] == "return" and pristine:
                ctx.probe("validator_odd_return")
        ctx.nontrivial = nontrivial
        # clause 4: the legitimate client
        if plan["legit"] and not plan.get("ann_fails"):
            if vm["mode"] == "raise" or (vm["mode"] == "return" and vm["ret"] == "unserialisable"):
                if "error" not in legit and vm["mode"] == "raise":
                    ctx.violate("handshake-accepted-wrongly", "legit", "validator raises but the legitimate client was served: %r" % (legit,))
            else:
                if "error" in legit:
                    ctx.violate("legit-client-failed", legit["error"][0], "legitimate client: %r" % (legit["error"],))
                else:
                    for tok, v in legit.items():
                        if not (isinstance(v, list) and v and v[0] == tok):
                            ctx.violate("legit-client-foreign-reply", "", "legitimate client %s -> %r" % (tok, v))
                    ctx.probe("legit_ok")

    @staticmethod
    def _classify(m1, vm, pristine):
        """what the daemon must answer to this first message, where that is certain; else 'unknown'"""
        muts = m1.get("mut") or []
        if m1["base"] == "garbage" and m1.get("trunc") is None:
            raw = build_msg(m1)
            # six bytes that cannot start a Pyro message are "anything else": the daemon can and must refuse at once
            if len(raw) >= 6 and (raw[:4] != b"PYRO" or raw[4:6] != (502).to_bytes(2, "big")):
                return "fail:bad-prefix"
            return "unknown"
        if m1.get("trunc") is not None:
            if not muts and m1["base"] in DEFINITE_FAIL_BASES:
                full = build_msg(dict(m1, trunc=None))
                if 40 <= int(m1["trunc"] * len(full)) < len(full):
                    # the whole header of a message that is no connect request has arrived: the daemon can and must refuse now,
                    # it has no business waiting for the rest of the body
                    return "fail:not-connect"
            return "trunc" if not muts and m1["base"] != "garbage" and m1["trunc"] < 0.999 else "unknown"
        if m1["base"] == "connect" and len(muts) == 1 and muts[0]["f"] == "payload" and muts[0]["v"] in ("zok", "ztrailing"):
            # the same handshake, compressed (the daemon honours the flag whatever its own setting; zlib ignores bytes behind the
            # end of the stream): judged like the plain one
            return PreHandshakeWorld._classify(dict(m1, mut=[]), vm, True)
        if m1["base"] == "connect" and len(muts) == 1 and muts[0]["f"] == "payload":
            # a connect request with a well-formed header whose body is not a handshake (empty, garbage, wrong shape ...)
            return "fail:payload"
        if any(m["f"] in ("tag", "version", "magic") for m in muts) and len(muts) == 1:
            return "fail:bad-header"
        if m1["base"] == "connect" and len(muts) == 1 and muts[0]["f"] == "ser" and muts[0]["v"] not in (1, 2, 3, 4):
            return "fail:unknown-serializer"
        if len(muts) == 1 and muts[0]["f"] == "type" and (muts[0]["v"] & 0xff) != N.MSG_CONNECT and m1["base"] != "garbage":
            # a well-formed message whose type is not CONNECT - defined or not: "anything else" than a connect request
            return "fail:wrong-type"
        if not pristine:
            return "unknown"
        if m1["base"] in DEFINITE_FAIL_BASES:
            return "fail:not-connect"
        if m1["base"] != "connect":
            return "unknown"
        hand = m1.get("hand", "valid")
        if hand in ("nondict", "list", "missing_handshake", "missing_object", "none"):
            return "fail:shape"
        if vm["mode"] == "raise":
            return "fail:validator"
        if hand == "object_int" or m1["obj"] == "nope":
            return "fail:unknown-object"
        if m1["obj"] == "tmp":
            return "unknown"
        if vm["mode"] == "return" and vm["ret"] == "unserialisable":
            return "unknown"
        return "ok"

    @staticmethod
    def _verdict_reachable(m1, r):
        return r["end"] in ("eof", "timeout", "oserror:ConnectionResetError") and not r.get("send_error_before_m1")

    @staticmethod
    def _reason(msg):
        try:
            ser = SER.serializers_by_id[msg["ser"]]
            pl = msg["payload"]
            if msg["flags"] & N.FLAG_COMPRESSED:
                import zlib
                pl = zlib.decompress(pl)
            v = ser.loads(pl)
            return v if isinstance(v, str) else repr(v)
        except Exception:  # noqa
            return None


def _fix(spec):
    if spec.get("base") == "daemon_ping":
        s = dict(spec)
        s["base"] = "invoke_daemon"
        return s
    return spec


WORLD = PreHandshakeWorld()
