"""C05 - no client input can stop the daemon or disturb other clients.

Real Daemon (thread-pool or multiplex server) with 1-2 witness clients (real proxies that were connected
all along) and 1-3 hostile raw peers sending structure-aware mutations of valid Pyro messages, truncations,
garbage, calls on unknown objects/members and calls to methods raising nasty exceptions - before, during or
after the handshake, interleaved by the seeded scheduler with the witness traffic.
"""
import marshal
import socket
import threading
import zlib

from ..world import World
from .. import net as N
from .common import Server, read_msg, SERIALIZERS, SER_IDS
from ..seams import config, CL, ST, SV
import Pyro5.api as api
import Pyro5.errors as E
import Pyro5.serializers as SER


class Unreducible(Exception):
    def __reduce__(self):
        raise RuntimeError("cannot reduce")


class BadStr(Exception):
    def __str__(self):
        raise RuntimeError("no str")

    __repr__ = __str__


class OddAttr(Exception):
    pass


class Hopeless(Exception):
    """cannot be serialised (an attribute no serializer takes) and cannot be rendered: str() raises an exception that cannot
    be rendered either - whoever formats it for an error text or a log line gets another failure in his hands"""

    def __init__(self, *a):
        Exception.__init__(self, *a)
        self.handle = object()

    def __str__(self):
        raise Hopeless("again")

    __repr__ = __str__


class _FlakyState:
    fails_left = 0
    made = 0


@api.behavior(instance_mode="single")
@api.expose
class Flaky:
    """a 'single' class whose creation fails the first few times (a resource it needs is not up yet)"""

    def __init__(self):
        if _FlakyState.fails_left > 0:
            _FlakyState.fails_left -= 1
            raise OSError("backend not reachable yet")
        _FlakyState.made += 1

    def echo(self, tok):
        return [tok, _FlakyState.made]


class _Held:
    def __init__(self, tok):
        self.tok = tok
        self.closed = 0

    def close(self):
        self.closed += 1
        raise RuntimeError("release unlocked lock (%s)" % (self.tok,))


@api.expose
class Victim:
    """token echo object; boom(kind) raises arbitrary Exception subclasses"""

    def __init__(self, sched):
        self._s = sched
        self._log = []       # (stamp, conn, method, token)
        self._held = []

    def _rec(self, m, tok):
        from Pyro5.callcontext import current_context
        c = current_context.client
        conn = getattr(getattr(c, "sock", None), "conn", None)
        self._log.append((self._s.stamp(), conn, m, tok))

    def echo(self, tok):
        self._rec("echo", tok)
        return [tok, len(self._log)]

    @api.oneway
    def ow(self, tok):
        self._rec("ow", tok)

    def boom(self, kind):
        self._rec("boom", kind)
        if kind == 0:
            raise Unreducible("x")
        if kind == 1:
            raise ZeroDivisionError("z")
        if kind == 2:
            e = OddAttr("v")
            e.attr = object()
            e.self_ref = e
            raise e
        if kind == 3:
            raise BadStr("s")
        if kind == 4:
            raise ValueError("h" * 200000)
        if kind == 5:
            raise KeyError(("a", 1))
        if kind == 6:
            raise E.SerializeError("fake serialize error")
        if kind == 7:
            raise UnicodeDecodeError("utf-8", b"\xff", 0, 1, "bad")
        if kind == 9:
            raise Hopeless("h")
        if kind == 10:
            e = BadStr("s")
            e.attr = object()       # unserialisable AND unrenderable (by an ordinary RuntimeError)
            raise e
        raise Exception(kind)

    def gen(self, n):
        self._rec("gen", n)
        return (i for i in range(n))

    def hold(self, tok):
        """the application tracks a resource on the calling connection; closing it may fail (a lock released twice, say)"""
        from Pyro5.callcontext import current_context
        self._rec("hold", tok)
        r = _Held(tok)
        self._held.append(r)            # (the daemon tracks weakly)
        current_context.track_resource(r)
        return [tok, len(self._held)]

    def it(self, kind):
        """item streams that are not generators (no close(), no throw())"""
        self._rec("it", kind)
        if kind % 3 == 0:
            return iter([1, 2, 3, 4])
        if kind % 3 == 1:
            return map(str, range(4))
        return zip("abcd", range(4))


# ---------------------------------------------------------------------------------------------
# message specs -> bytes (the harness's own encoder; payloads come from the real serializers)
_SER_CODES = None
_CD_CODES = None
BASES = ["connect", "invoke", "boom", "ping", "ow", "batch", "garbage", "unknown_member", "private_member", "gen", "blob", "daemon_ping", "it", "hold", "classdict"]
OBJS = ["tok", "tok", "tok", "nope", "Pyro.Daemon"]
BOUND8 = [0, 1, 0x7f, 0x80, 0xff]
BOUND16 = [0, 1, 0x7fff, 0x8000, 0xffff]
BOUND32 = [0, 1, 7, 8, 9, 0x7fffffff, 0x80000000, 0xffffffff]
MUT_FIELDS = ["version", "type", "ser", "flags", "seq", "dlen", "alen", "magic", "tag", "resv", "flip", "payload", "ann"]


def gen_msgspec(rng, allow=BASES):
    base = rng.choice(allow)
    spec = {"base": base, "obj": rng.choice(OBJS), "ser": rng.choice([1, 2, 3, 4]), "arg": rng.randrange(1000),
            "seq": rng.randrange(65536)}
    if base == "garbage":
        spec["n"] = rng.choice([1, 3, 5, 6, 16, 39, 40, 41, 120])
        spec["seed"] = rng.randrange(1 << 30)
    muts = []
    if rng.random() < 0.55 and base != "garbage":
        for _ in range(rng.choice([1, 1, 1, 2])):
            f = rng.choice(MUT_FIELDS)
            m = {"f": f}
            if f == "version":
                m["v"] = rng.choice([0, 501, 503, 65535])
            elif f == "type":
                m["v"] = rng.choice(BOUND8 + [2, 3, 5, 7, 9])
            elif f == "ser":
                m["v"] = rng.choice(BOUND8 + [5, 42, 99])
            elif f == "flags":
                m["v"] = rng.choice(BOUND16 + [2, 8, 0x20, 0x2a, 0x10, 0x40, 4, 12])
            elif f == "seq":
                m["v"] = rng.choice(BOUND16)
            elif f in ("dlen", "alen"):
                m["v"] = rng.choice(BOUND32 + ["len-1", "len+1", "len+40"])
            elif f == "flip":
                m["n"] = rng.randint(1, 5)
                m["seed"] = rng.randrange(1 << 30)
            elif f == "payload":
                m["v"] = rng.choice(["garbage", "empty", "nonlist", "wrongshape", "deep", "hugecount",
                                     "zok", "zprefix", "zprefix", "zheader", "zempty", "ztrailing"])
                m["cut"] = rng.randint(1, 12)
            elif f == "ann":
                m["v"] = rng.choice(["short-chunk", "overrun", "nonascii", "many", "BLBI-garbage"])
            muts.append(m)
    spec["mut"] = muts
    if rng.random() < 0.2:
        spec["trunc"] = round(rng.random(), 3)
    return spec


HANDS = ["valid", "nondict", "list", "missing_handshake", "missing_object", "object_int", "extra_keys", "none"]


def handshake_payload(hand, obj):
    if hand == "valid":
        return {"handshake": "hello", "object": obj}
    if hand == "nondict":
        return "just a string"
    if hand == "list":
        return ["handshake", "object"]
    if hand == "missing_handshake":
        return {"object": obj}
    if hand == "missing_object":
        return {"handshake": "hello"}
    if hand == "object_int":
        return {"handshake": "hello", "object": 42}
    if hand == "extra_keys":
        return {"handshake": {"nested": [1, 2, 3]}, "object": obj, "extra": "x"}
    if hand == "none":
        return None
    raise ValueError(hand)


NASTY_LOCATIONS = ["[" + "a" * 26, "[" + ":" * 40, "[" + "f:" * 20, "[::1" + "]" * 30, "h:" + "9" * 400, "h" * 3000 + ":1", "./u:" + "/" * 2000,
                   "[" + "0" * 26 + "%eth0", "", "@@@:::", "\u0000:1", "h:-1", "h:99999999999999999999"]


def class_dict(k):
    """wire forms ({'__class__': ...}) of classes the deserialiser knows, with hostile strings inside"""
    loc = NASTY_LOCATIONS[k % len(NASTY_LOCATIONS)]
    uri = "PYRO:obj@" + loc
    shape = (k // len(NASTY_LOCATIONS)) % 5
    if shape == 0:
        return {"__class__": "Pyro5.client.Proxy", "state": [uri, [], [], [], None, "marshal"]}
    if shape == 1:
        return {"__class__": "Pyro5.core.URI", "state": ["PYRO", "obj", None, loc, 1]}
    if shape == 2:
        return {"__class__": "Pyro5.client.Proxy", "state": ["PYRONAME:" + "n" * (k % 3000) + "@" + loc, ["x"], ["y"], [], None, None]}
    if shape == 3:
        return {"__class__": "builtins.ValueError", "__exception__": True, "args": [uri], "attributes": {"_pyroTraceback": [uri] * 3}}
    return {"__class__": "Pyro5.client.Proxy", "state": [uri]}


def build_msg(spec):
    base = spec["base"]
    if base == "garbage":
        import random
        r = random.Random(spec["seed"])
        return bytes(r.getrandbits(8) for _ in range(spec["n"]))
    sid = spec["ser"]
    ser = SER.serializers_by_id[sid]
    obj = spec["obj"]
    flags = 0
    typ = N.MSG_INVOKE
    ann = {}
    if base == "connect":
        typ = N.MSG_CONNECT
        payload = ser.dumps(handshake_payload(spec.get("hand", "valid"), obj))
    elif base == "ping":
        typ = N.MSG_PING
        payload = b"ping"
    elif base == "invoke":
        payload = ser.dumpsCall(obj, "echo", ["H%d" % spec["arg"]], {})
    elif base == "boom":
        payload = ser.dumpsCall(obj, "boom", [spec["arg"] % 11], {})
    elif base == "ow":
        payload = ser.dumpsCall(obj, "ow", ["HO%d" % spec["arg"]], {})
        flags |= N.FLAG_ONEWAY
    elif base == "gen":
        payload = ser.dumpsCall(obj, "gen", [3], {})
    elif base == "it":
        payload = ser.dumpsCall(obj, "it", [spec["arg"]], {})
    elif base == "hold":
        payload = ser.dumpsCall(obj, "hold", ["HH%d" % spec["arg"]], {})
    elif base == "classdict":
        # the wire form of Pyro's own classes as an argument, with hostile contents: the daemon turns them back into objects
        # (dict_to_class) before it even looks at the method
        payload = ser.dumpsCall(obj, "echo", [class_dict(spec["arg"])], {})
    elif base == "batch":
        calls = [("echo", ["HB%d" % spec["arg"]], {}), ("boom", [spec["arg"] % 11], {}), ("echo", ["never"], {})]
        payload = ser.dumpsCall(obj, "<batch>", calls, None)
        flags |= N.FLAG_BATCH
    elif base in ("invoke_daemon", "daemon_ping"):
        payload = ser.dumpsCall("Pyro.Daemon", ["ping", "registered", "info"][spec["arg"] % 3], [], {})
    elif base == "unknown_member":
        payload = ser.dumpsCall(obj, "nosuchmethod%d" % spec["arg"], [], {})
    elif base == "private_member":
        payload = ser.dumpsCall(obj, ["_rec", "__init__", "_log", "__class__", "a.b"][spec["arg"] % 5], ["x", "y"], {})
    elif base == "blob":
        flags |= N.FLAG_KEEPSER
        payload = ser.dumpsCall(obj, "echo", ["HK%d" % spec["arg"]], {})
        if spec["arg"] % 2:
            ann["BLBI"] = marshal.dumps(("info", obj, "echo"))
    else:
        raise ValueError(base)
    seq = spec["seq"]
    version, magic, tag, resv = N.PROTOCOL_VERSION, N.MAGIC, b"PYRO", 0
    dlen = alen = None
    flip = None
    for m in spec.get("mut", []):
        f = m["f"]
        if f == "version":
            version = m["v"]
        elif f == "type":
            typ = m["v"]
        elif f == "ser":
            sid = m["v"]
        elif f == "flags":
            flags = m["v"]
        elif f == "seq":
            seq = m["v"]
        elif f == "magic":
            magic = 0
        elif f == "tag":
            tag = b"pyro"
        elif f == "resv":
            resv = 0xffff
        elif f == "payload":
            v = m["v"]
            if v == "garbage":
                payload = b"\x00\xff\xfe garbage \x80" * 3
            elif v == "empty":
                payload = b""
            elif v == "nonlist":
                payload = ser.dumps({"not": "a call"})
            elif v == "wrongshape":
                payload = ser.dumps(["only", "two"])
            elif v == "deep":
                payload = ser.dumps([[[[[[[[[[1]]]]]]]]]])
            elif v == "hugecount":
                # a container / string header that declares far more elements than bytes follow (per serializer)
                payload = {1: b"[" + b"1," * 3, 2: b"(\x04\xda\x03\x74tok", 3: b"[" * 40, 4: b"\xdd\x7f\xff\xff\xff\x01"}.get(sid, b"(\xff\xff\xff\x7f")
            elif v in ("zok", "zprefix", "zheader", "zempty", "ztrailing"):
                # the COMPRESSED flag with a consistent header and a payload that is a whole zlib stream, the beginning of one
                # (chopped off: an incremental inflater reports neither an error nor the end for it), only its two header bytes,
                # nothing at all, or a whole stream with bytes behind it
                z = zlib.compress(payload)
                cut = min(m.get("cut", 4), len(z) - 2)
                payload = {"zok": z, "zprefix": z[:len(z) - cut], "zheader": z[:2], "zempty": b"", "ztrailing": z + b"\x00" * cut}[v]
                flags |= N.FLAG_COMPRESSED
        elif f == "ann":
            v = m["v"]
            if v == "many":
                ann.update({"AA%02d" % i: b"x" * i for i in range(12)})
            elif v == "BLBI-garbage":
                ann["BLBI"] = b"\xff\xfe\xfd"
            else:
                ann["_RAW"] = v
    raw_ann = None
    if "_RAW" in ann:
        v = ann.pop("_RAW")
        if v == "short-chunk":
            raw_ann = b"ABCD" + (100).to_bytes(4, "big") + b"xy"
        elif v == "overrun":
            raw_ann = b"ABCD" + (0xffffffff).to_bytes(4, "big") + b"xyz"
        else:
            raw_ann = b"\xff\xfe\xfd\xfc" + (2).to_bytes(4, "big") + b"zz"
    for m in spec.get("mut", []):
        if m["f"] in ("dlen", "alen"):
            v = m["v"]
            real = len(payload) if m["f"] == "dlen" else sum(8 + len(x) for x in ann.values())
            if isinstance(v, str):
                v = max(0, real + int(v[3:]))
            if m["f"] == "dlen":
                dlen = v
            else:
                alen = v
        elif m["f"] == "flip":
            flip = m
    if raw_ann is not None:
        hdr = N.build_message(typ, flags, seq, sid & 0xff, b"", None, version=version, magic=magic, tag=tag,
                              dlen=len(payload) if dlen is None else dlen, alen=len(raw_ann) if alen is None else alen,
                              resv=resv)[:N.HEADER_SIZE]
        out = hdr + raw_ann + payload
    else:
        out = N.build_message(typ & 0xff, flags & 0xffff, seq & 0xffff, sid & 0xff, payload, ann, version=version & 0xffff,
                              magic=magic, tag=tag, dlen=dlen, alen=alen, resv=resv)
    if flip is not None:
        import random
        r = random.Random(flip["seed"])
        b = bytearray(out)
        for _ in range(flip["n"]):
            b[r.randrange(len(b))] ^= 1 << r.randrange(8)
        out = bytes(b)
    if spec.get("trunc") is not None:
        out = out[:int(spec["trunc"] * len(out))]
    return out


def trunc_zone(spec, out_len_full=None):
    """which part of the message a truncation cuts (probe)"""
    return None


# ---------------------------------------------------------------------------------------------
class HostileWorld(World):
    PROPERTY = "C05"
    NAME = "hostile"
    REAL = ["SocketServer_Threadpool (accept loop, Pool, Worker, ClientConnectionJob, denyConnection)",
            "SocketServer_Multiplex (loop, events, _handleConnection, handleRequest)",
            "Daemon._handshake/handleRequest/_sendExceptionResponse", "Pyro5.protocol", "Pyro5.serializers (all four)",
            "socketutil.receive_data/send_data", "witness side: Pyro5.client.Proxy"]
    STUB = ["sockets/selector (in-memory)", "threads (baton scheduler)", "time (virtual clock)", "hostile peers (raw scripted writers)"]
    PROBES = ["pool_full_refusal", "exc_response_fallback", "unknown_serializer", "oversize_refused", "truncated",
              "garbage", "hostile_after_handshake", "hostile_before_handshake", "rst_end", "witness_calls_ok", "fresh_client_ok",
              "nasty_exception", "multiplex", "thread", "commtimeout", "stalling_peer", "disconnect_hook_raised", "short_linger",
              "logwire", "abandoned_stream_expired", "dribbling_refused_peer", "witness_stream", "witness_flaky_single"]
    RULE = ("plan = (server type, COMMTIMEOUT, pool size 1..4, 1-2 witnesses x 3-6 calls, 1-3 hostile peers each with a script of "
            "1-4 message specs = valid base message + field mutations + truncation, end by close or RST, gaps, fragmentation, "
            "selector shuffle, scheduling probabilities; 25% of the plans give the daemon a clientDisconnect hook that raises (for "
            "every connection or for the hostile ones), 35% ITER_STREAM_LINGER=0.5 s and 20% ITER_STREAM_LIFETIME=1 s so that item "
            "streams (generators and plain iterators) abandoned by hostile peers expire during the run, 15% LOGWIRE); distinct = distinct interleaving digest; non-trivial = at least one hostile "
            "message was written while a witness was connected")
    ASSUMPTIONS = ["every hostile script ends in close or RST (a peer that stalls for ever without disconnecting blocks a timeout-less multiplex server by design)",
                   "witnesses complete their handshake before the first hostile peer starts and keep their connection for the whole run",
                   "witness calls may be delayed while hostile traffic flows but must return their own result",
                   "BaseException raised by user methods is outside the statement and not generated"]
    QUICK_RUNS = 6000
    CHUNK = 100
    SHRINK_LISTS = ["peers", "peers.0.msgs", "peers.1.msgs", "peers.2.msgs"]
    ALLOC_BOMB_VIOLATION = True
    SLOW_STEP_THREADS = ("daemon-loop", "Worker", "housekeeper")

    def gen(self, rng, tier):
        big = tier == "thorough"
        servertype = rng.choice(["thread", "multiplex"])
        commt = rng.choice([0.0, 0.0, 1.5])
        nwit = rng.randint(1, 2)
        size = rng.randint(nwit, 4)
        peers = []
        for _ in range(rng.randint(1, 4 if big else 3)):
            msgs = []
            if rng.random() < 0.6:
                msgs.append({"base": "connect", "obj": "tok", "ser": rng.choice([1, 2, 3, 4]), "arg": 0, "seq": 0, "mut": []})
            for _ in range(rng.randint(1, 4 if big else 3)):
                msgs.append(gen_msgspec(rng))
            end = rng.choice(["close", "close", "rst"])
            if msgs and msgs[0]["base"] == "connect" and not msgs[0].get("mut") and any(m.get("mut") or m["base"] == "garbage" for m in msgs[1:]):
                end = rng.choice(["close", "rst", "rst"])     # protocol violation after the handshake, then an abortive close
            if commt and rng.random() < 0.3:
                end = "stall"       # stays connected and silent far longer than COMMTIMEOUT: the server's own timeout must end it
                if rng.random() < 0.4:
                    # ... from the start, or inside its first message (with a full pool the thread server's accept loop reads it)
                    msgs = [] if rng.random() < 0.3 else [dict(gen_msgspec(rng), base="connect", obj="tok", mut=[], trunc=rng.choice([0.05, 0.3, 0.6, 0.9]))]
            peers.append({"start": rng.choice([0, 0, 0.01, 0.1, 0.4]), "msgs": msgs, "gap": rng.choice([0, 0, 0.01, 0.2]),
                          "read": rng.random() < 0.5, "end": end})
        plan = {"servertype": servertype, "commtimeout": commt, "pool": [1, size], "witnesses": nwit,
                "witness_calls": rng.randint(3, 6), "witness_gap": rng.choice([0.0, 0.05, 0.2]),
                "serializer": rng.choice(SERIALIZERS), "peers": peers,
                "net": {"p_frag": rng.choice([0.0, 0.3, 0.8]), "shuffle_select": rng.random() < 0.5,
                        "rst_discards_rx": rng.random() < 0.3, "silent_first_epipe": rng.random() < 0.5},
                "p_block": rng.choice([0.0, 0.2, 0.5, 1.0])}
        if rng.random() < 0.08:
            plan["net"]["unix_addr"] = True     # a listener of the unix-domain kind: accepted connections have the address ''
        # unusual but legal deployments (absent = library defaults, so that older replay files mean what they meant)
        if rng.random() < 0.25:
            plan["hook_raises"] = rng.choice(["all", "hostile"])      # the application's clientDisconnect hook fails
        if rng.random() < 0.35:
            plan["linger"] = 0.5         # abandoned item streams of hostile peers expire while the run lasts
        if rng.random() < 0.2:
            plan["lifetime"] = 1.0
        if rng.random() < 0.15:
            plan["logwire"] = True
        if rng.random() < 0.4:
            plan["witness_kinds"] = [rng.choice(["echo", "echo", "stream", "flaky"]) for _ in range(6)]
            if servertype == "thread" and "stream" in plan["witness_kinds"] and not plan.get("lifetime"):
                # hostile peers vanish while witnesses open streams: pre-emption inside the daemon's stream bookkeeping
                plan["cd_lines"] = True
                plan["p_line"] = max(plan.get("p_line", 0.0), rng.choice([0.1, 0.3]))
                plan["witness_kinds"] = ["stream", "stream", "echo", "stream", "stream", "flaky"]
                plan["witness_gap"] = 0.0
                sid = SER_IDS[plan["serializer"]]
                for k in range(rng.randint(2, 3)):
                    # properly connected peers that open streams and vanish, one after the other, while the witnesses stream
                    peers.append({"start": rng.choice([0, 0.001, 0.01, 0.02]), "gap": rng.choice([0, 0.001]), "read": True,
                                  "end": rng.choice(["close", "rst"]),
                                  "msgs": [{"base": "connect", "obj": "tok", "ser": sid, "arg": 0, "seq": 0, "mut": []}] +
                                          [{"base": rng.choice(["gen", "it"]), "obj": "tok", "ser": sid, "arg": rng.randrange(9), "seq": 1 + j, "mut": []}
                                           for j in range(rng.randint(1, 2))]})
            if plan.get("lifetime"):
                # (with a stream lifetime of 1 s a witness that is held up by hostile traffic legitimately loses its stream)
                plan["witness_kinds"] = ["echo" if k == "stream" else k for k in plan["witness_kinds"]]
            plan["flaky_fails"] = rng.choice([0, 1, 1, 2])
            if plan["flaky_fails"]:
                # hostile peers call the flaky class too (so that a creation failure may have happened on their behalf)
                for peer in peers:
                    for m in peer["msgs"]:
                        if m["base"] in ("invoke", "ow") and rng.random() < 0.5:
                            m["obj"] = "flaky"
        if servertype == "thread" and rng.random() < 0.3:
            # workers encode replies for hostile peers and witnesses at the same time: pre-emption inside the serializers,
            # and the hostile peers speak the witnesses' serializer so that they share its encoder
            plan["ser_lines"] = True
            plan["p_line"] = rng.choice([0.05, 0.2, 0.4])
            if rng.random() < 0.6:
                plan["serializer"] = "msgpack"       # the serializer whose encoder objects are the most tempting to share
            sid = SER_IDS[plan["serializer"]]
            for peer in peers:
                for m in peer["msgs"]:
                    if rng.random() < 0.8:
                        m["ser"] = sid
            # one peer that, properly connected, keeps provoking error replies (exception objects go through the
            # serializer's conversion hook) while the witnesses call without a pause
            peers.insert(0, {"start": 0, "gap": 0, "read": True, "end": "close",
                             "msgs": [{"base": "connect", "obj": "tok", "ser": sid, "arg": 0, "seq": 0, "mut": []}] +
                                     [{"base": "boom", "obj": "tok", "ser": sid, "arg": rng.choice([1, 2, 5, 7, 8]), "seq": 1 + k, "mut": []}
                                      for k in range(rng.randint(2, 5))]})
            plan["witness_gap"] = 0.0
        if commt and rng.random() < 0.3:
            # a refused peer that stays connected and keeps dribbling bytes (one every 0.2 s, for 25 s): after the refusal the
            # daemon must be done with it
            peers.append({"start": rng.choice([0, 0.1]), "gap": 0, "read": False, "end": "dribble",
                          "msgs": [{"base": "connect", "obj": "tok", "ser": rng.choice([1, 2, 3, 4]), "arg": 0, "seq": 0,
                                    "mut": [{"f": "version", "v": rng.choice([0, 501, 65535])}]}]})
        return plan

    def line_codes(self, plan):
        global _SER_CODES, _CD_CODES
        if plan.get("cd_lines"):
            if _CD_CODES is None:
                from .. import sched as S
                _CD_CODES = S.code_closure(SV.Daemon._clientDisconnect, SV.Daemon._streamResponse, SV.Daemon._housekeeping)
            if not plan.get("ser_lines"):
                return _CD_CODES
        if not plan.get("ser_lines"):
            return ()
        if _SER_CODES is None:
            from .. import sched as S
            _SER_CODES = S.code_objects(*[v for v in vars(SER).values()
                                          if (isinstance(v, type) and v.__module__ == SER.__name__) or
                                          (hasattr(v, "__code__") and getattr(v, "__module__", "") == SER.__name__)])
        return _SER_CODES + (_CD_CODES if plan.get("cd_lines") else [])

    # ------------------------------------------------------------------
    def scenario(self, ctx):
        plan, sched, net = ctx.plan, ctx.sched, ctx.net
        config.SERIALIZER = plan["serializer"]
        ctx.probe(plan["servertype"])
        if plan["commtimeout"]:
            ctx.probe("commtimeout")
        deny = ST.ClientConnectionJob.denyConnection

        def deny_probe(self, reason):
            ctx.probe("pool_full_refusal")
            return deny(self, reason)

        ST.ClientConnectionJob.denyConnection = deny_probe
        try:
            self._run(ctx, plan, sched, net)
        finally:
            ST.ClientConnectionJob.denyConnection = deny

    def _run(self, ctx, plan, sched, net):
        if plan.get("linger") is not None:
            config.ITER_STREAM_LINGER = plan["linger"]
            ctx.probe("short_linger")
        if plan.get("lifetime") is not None:
            config.ITER_STREAM_LIFETIME = plan["lifetime"]
        if plan.get("logwire"):
            config.LOGWIRE = True
            ctx.probe("logwire")
        witness_conns = set()
        mode = plan.get("hook_raises")

        class HookDaemon(SV.Daemon):
            """an application whose disconnect hook fails (a session table that does not know the client, say)"""

            def clientDisconnect(self, conn):
                c = getattr(getattr(conn, "sock", None), "conn", None)
                if mode == "all" or c not in witness_conns:
                    ctx.probe("disconnect_hook_raised")
                    raise KeyError("no session for connection %r" % (c,))

        srv = Server(ctx, plan["servertype"], pool=tuple(plan["pool"]), commtimeout=plan["commtimeout"],
                     daemon_cls=HookDaemon if mode else None)
        victim = Victim(sched)
        uri = srv.register(victim, "tok")
        _FlakyState.fails_left = plan.get("flaky_fails", 0)
        _FlakyState.made = 0
        furi = srv.register(Flaky, "flaky")
        bound = [0]
        stalled = []
        lat = [0.0]
        stop = [False]
        wres = {}
        hostile_written = [0]

        def witness(wi):
            res = wres[wi] = []
            p = CL.Proxy(uri)
            p._pyroTimeout = None
            try:
                p._pyroBind()
            except Exception as x:  # noqa
                res.append(("bind", "ERR", type(x).__name__, str(x)[:100]))
                bound[0] += 1
                return
            witness_conns.add(getattr(getattr(p._pyroConnection, "sock", None), "conn", None))
            bound[0] += 1
            wk = plan.get("witness_kinds") or []
            for i in range(plan["witness_calls"]):
                tok = "W%d.%d" % (wi, i)
                t0 = sched.now
                kind = wk[(wi * 7 + i) % len(wk)] if wk else "echo"
                try:
                    if kind == "stream":
                        # an item stream of its own, read to the end while hostile peers come and go
                        ctx.probe("witness_stream")
                        items = list(p.gen(3))
                        res.append((tok, "ok", [tok, 0] if items == [0, 1, 2] else ["stream-items", items]))
                    elif kind == "flaky":
                        # a 'single' class whose creation may fail a few times: an error reply is fine, silence is not
                        ctx.probe("witness_flaky_single")
                        try:
                            res.append((tok, "ok", p._pyroInvoke("echo", [tok], {}, objectId="flaky")))     # over its own connection
                        except OSError as x:
                            if "backend not reachable" not in str(x):
                                raise
                            res.append((tok, "ok", [tok, "creation-failed"]))
                    else:
                        res.append((tok, "ok", p.echo(tok)))
                except Exception as x:  # noqa
                    res.append((tok, "ERR", type(x).__name__, str(x)[:100]))
                lat[0] = max(lat[0], sched.now - t0)
                if plan["witness_gap"]:
                    sched.sleep(plan["witness_gap"])
            # stay connected until the hostile peers are done, then one more call.  With a server-side COMMTIMEOUT an
            # idle connection is dropped by design, so the witness keeps talking at intervals well below it.
            k = 0
            while not stop[0] and k < 2000:
                if plan["commtimeout"]:
                    sched.block(lambda: stop[0], plan["commtimeout"] / 4.0, "witness-wait")
                    tok = "W%d.k%d" % (wi, k)
                    k += 1
                    t0 = sched.now
                    try:
                        res.append((tok, "ok", p.echo(tok)))
                        lat[0] = max(lat[0], sched.now - t0)
                    except Exception as x:  # noqa
                        res.append((tok, "ERR", type(x).__name__, str(x)[:100]))
                        break
                else:
                    sched.block(lambda: stop[0], 300.0, "witness-wait")
                    break
            tok = "W%d.last" % wi
            try:
                res.append((tok, "ok", p.echo(tok)))
            except Exception as x:  # noqa
                res.append((tok, "ERR", type(x).__name__, str(x)[:100]))
            p._pyroRelease()

        def hostile(hi, peer):
            sched.block(lambda: bound[0] >= plan["witnesses"], 300.0, "barrier")
            if peer["start"]:
                sched.sleep(peer["start"])
            try:
                sk = net.connect_raw(srv.addr, timeout=None)
            except OSError:
                return
            had_handshake = False
            try:
                for spec in peer["msgs"]:
                    data = build_msg(spec)
                    if spec["base"] == "garbage":
                        ctx.probe("garbage")
                    if spec.get("trunc") is not None:
                        ctx.probe("truncated")
                    if any(m["f"] == "ser" for m in spec.get("mut", [])):
                        ctx.probe("unknown_serializer")
                    if any(m["f"] in ("dlen", "alen") and m["v"] in (0x7fffffff, 0x80000000, 0xffffffff) for m in spec.get("mut", [])):
                        ctx.probe("oversize_refused")
                    if spec["base"] == "boom":
                        ctx.probe("nasty_exception")
                    ctx.probe("hostile_after_handshake" if had_handshake else "hostile_before_handshake")
                    if spec["base"] == "connect" and not spec.get("mut") and spec.get("trunc") is None:
                        had_handshake = True
                    if data:
                        sk.sendall(data)
                        hostile_written[0] += 1
                        ctx.fault("hostile:" + spec["base"] + ("+mut" if spec.get("mut") else "") + ("+trunc" if spec.get("trunc") is not None else ""))
                    if peer["gap"]:
                        sched.sleep(peer["gap"])
                if peer["read"]:
                    sk.settimeout(0.5)
                    try:
                        for _ in range(6):
                            m = read_msg(sk)
                            if m is None:
                                break
                            if m["type"] == N.MSG_RESULT and m["flags"] & N.FLAG_EXC:
                                pl = m["payload"]
                                if m["flags"] & N.FLAG_COMPRESSED:
                                    try:
                                        pl = zlib.decompress(pl)
                                    except zlib.error:
                                        pass
                                if b"Error serializing exception" in pl:
                                    ctx.probe("exc_response_fallback")
                    except OSError:
                        pass
            except OSError:
                pass
            if peer["end"] == "dribble":
                ctx.probe("dribbling_refused_peer")
                t_end = sched.now + 25.0
                try:
                    while sched.now < t_end:
                        sk.sendall(b"\x00")
                        sched.sleep(0.2)
                except OSError:
                    pass
                sk.close()
            elif peer["end"] == "rst":
                ctx.probe("rst_end")
                sk.rst()
            else:
                if peer["end"] == "stall" and plan["commtimeout"]:
                    # stays connected and silent: with a COMMTIMEOUT configured the daemon itself must end this connection
                    # (otherwise the worker / selector slot is held for as long as the peer likes)
                    ctx.probe("stalling_peer")
                    t0 = sched.now
                    sk.settimeout(plan["commtimeout"] * 8)
                    ended = None
                    try:
                        while True:
                            if not sk.recv(4096):
                                ended = "eof"
                                break
                    except socket.timeout:
                        ended = None
                    except OSError:
                        ended = "reset"
                    # (the multiplex server only applies the timeout while it is reading a message: an idle connection with
                    #  no partial message pending may stay; the thread server's worker always sits in a timed read)
                    last = peer["msgs"][-1] if peer["msgs"] else None
                    partial = bool(last is not None and last.get("trunc") is not None and len(build_msg(last)) > 0)
                    # A peer that never got through the handshake (silent from the start, a partial first message, refused because
                    # the pool is full) is read with the timeout by whoever reads it - a worker, the multiplex loop, or the
                    # thread server's accept loop on its refusal path: it must be ended too, whatever the server type.
                    # (multiplex: only when it sent nothing at all or stopped inside a message - a mutated connect message may
                    #  well have been accepted, and then the connection is idle)
                    nothing_sent = not any(len(build_msg(m)) > 0 for m in peer["msgs"])
                    if ended is None and (plan["servertype"] == "thread" or partial or nothing_sent):
                        stalled.append((hi, sched.now - t0))
                    if not had_handshake and (plan["servertype"] == "thread" or partial or nothing_sent):
                        ctx.probe("stalling_peer_without_handshake")
                sk.close()

        wts = [threading.Thread(target=witness, args=(i,), name="witness%d" % i) for i in range(plan["witnesses"])]
        for t in wts:
            t.start()
        hts = [threading.Thread(target=hostile, args=(i, p), name="hostile%d" % i) for i, p in enumerate(plan["peers"])]
        for t in hts:
            t.start()
        for t in hts:
            t.join(600.0)
        hung = [t for t in hts if sched.sim_thread_of(t).state != "done"]
        if hung:
            ctx.violate("hostile-peer-stuck", "", "a hostile peer could not finish its script within 600 virtual seconds")
        nstreams = len(srv.daemon.streaming_responses)
        sched.sleep(max(2.0, plan["commtimeout"] * 2 + 1.0) + (3.0 if plan.get("linger") or plan.get("lifetime") else 0.0))
        if nstreams and len(srv.daemon.streaming_responses) < nstreams:
            ctx.probe("abandoned_stream_expired")
        stop[0] = True
        for t in wts:
            t.join(600.0)
        ctx.nontrivial = hostile_written[0] > 0
        # (a) witnesses
        for wi, res in sorted(wres.items()):
            wt = sched.sim_thread_of(wts[wi])
            if wt.state != "done":
                ctx.violate("witness-call-hung", "", "witness %d did not finish: %r" % (wi, res[-2:]))
                continue
            for r in res:
                if r[1] == "ERR":
                    ctx.violate("witness-call-failed", r[2], "witness %d call %s failed: %s: %s" % (wi, r[0], r[2], r[3]))
                elif not (isinstance(r[2], list) and r[2] and r[2][0] == r[0]):
                    ctx.violate("witness-foreign-reply", "", "witness %d call %s returned %r" % (wi, r[0], r[2]))
                else:
                    ctx.probe("witness_calls_ok")
        # bounded liveness under a configured COMMTIMEOUT: every read the server blocks in for a hostile connection ends after
        # COMMTIMEOUT at the latest (and that connection is then closed), so a witness call waits at most one timeout per peer
        if plan["commtimeout"]:
            limit = (len(plan["peers"]) + 1) * plan["commtimeout"] + 1.0
            if lat[0] > limit:
                ctx.violate("witness-call-too-slow", "", "a witness call took %.2f virtual seconds with COMMTIMEOUT=%.1f and %d hostile peers "
                            "(limit %.2f): a server-side read on a hostile connection did not time out" % (lat[0], plan["commtimeout"], len(plan["peers"]), limit))
        for hi, dt in stalled:
            ctx.violate("stalled-connection-not-timed-out", plan["servertype"], "hostile peer %d stayed connected and silent for %.1f "
                        "virtual seconds with COMMTIMEOUT=%.1f and the daemon never ended the connection" % (hi, dt, plan["commtimeout"]))
        # (b) daemon loop alive and accepting
        if not srv.loop_alive():
            d = srv.loop_death()
            ctx.violate("daemon-loop-died", (d[2] if d else "returned") or "?", "daemon request loop ended: %r" % (d,))
        else:
            sched.settle(5.0)     # let the server notice that the witnesses left
            fres = []

            def fresh():
                try:
                    with CL.Proxy(uri) as p:
                        p._pyroTimeout = 30.0
                        fres.append(p.echo("F"))
                except Exception as x:  # noqa
                    fres.append("ERR %s %s" % (type(x).__name__, str(x)[:100]))

            f = threading.Thread(target=fresh, name="fresh")
            f.start()
            f.join(120.0)
            if not fres:
                ctx.violate("fresh-client-hung", "", "a new client could not complete a call within 120 virtual seconds after the last hostile byte")
            elif not (isinstance(fres[0], list) and fres[0][0] == "F"):
                ctx.violate("fresh-client-failed", str(fres[0]).split(" ")[1] if str(fres[0]).startswith("ERR") else "foreign",
                            "new client after the hostile traffic -> %r" % (fres[0],))
            else:
                ctx.probe("fresh_client_ok")
        sched.sleep(max(1.0, plan["commtimeout"] + 0.5))
        sched.settle(5.0)
        # (c) no stranded worker / selector slot
        ts = srv.daemon.transportServer
        if plan["servertype"] == "thread":
            pool = ts.pool
            if len(pool.busy) != 0:
                ctx.violate("worker-stranded", "", "%d workers still busy with no connection open" % len(pool.busy))
            for w in list(pool.idle) + list(pool.busy):
                st = sched.sim_thread_of(w)
                if st is not None and st.state == "done":
                    ctx.violate("dead-worker-in-pool", "", "a worker thread in the pool has exited")
        else:
            regs = len(ts.selector.get_map())
            if regs != 1 and srv.loop_alive():
                ctx.violate("selector-leak", "", "%d selector registrations at quiescence (expected 1: the listener)" % regs)
        # (d) no thread died from an escaped exception
        for t in sched.deaths:
            if t.name == "daemon-loop":
                continue
            if t.name == "oneway-call":
                # the thread of a one-way call is neither the request loop nor a pool worker: when the user's exception
                # cannot even be rendered by the default error handler the thread ends, nobody else is affected
                continue
            ctx.violate("thread-died", "%s:%s" % (t.name, t.died[0]), "thread %s died: %r" % (t.name, t.died))


WORLD = HostileWorld()
