"""C18 - thread pool: each connection served once or refused; workers stay bounded.

Layer "pool":   real Pool/Worker driven directly by an accept thread (the driver).
Layer "server": real SocketServer_Threadpool + Daemon over simulated sockets, raw well-behaved
                clients; the refused client's CONNECTFAIL is observed on the wire.
Line-granular pre-emption is enabled in every method of Pool, Worker (and ClientConnectionJob,
SocketServer_Threadpool.events for the server layer).
"""
import marshal
import threading

from ..world import World
from .. import sched as S
from .. import net as N
from ..seams import ST, SV, config
import Pyro5.api as api


class _Echo:
    @api.expose
    def echo(self, x):
        return x


_POOL_CODES = None


def _codes():
    global _POOL_CODES
    if _POOL_CODES is None:
        _POOL_CODES = S.code_objects(ST.Pool, ST.Worker)
    return _POOL_CODES


_SERVER_CODES = None


def _server_codes():
    global _SERVER_CODES
    if _SERVER_CODES is None:
        _SERVER_CODES = S.code_objects(ST.Pool, ST.Worker, ST.SocketServer_Threadpool.events, ST.SocketServer_Threadpool.close,
                                       ST.Housekeeper, SV.Daemon._housekeeping, SV.Daemon.close, SV.Daemon.shutdown)
    return _SERVER_CODES


class PoolWorld(World):
    PROPERTY = "C18"
    NAME = "pool"
    REAL = ["Pyro5.svr_threads.Pool", "Pyro5.svr_threads.Worker", "Pyro5.svr_threads.NoFreeWorkersError",
            "server layer: SocketServer_Threadpool.events/loop, ClientConnectionJob, Daemon._handshake, "
            "Daemon.handleRequest, protocol, socketutil.receive_data/send_data, marshal serializer"]
    STUB = ["threading.Event/Lock (simulated, baton scheduler)", "time (virtual clock)",
            "sockets + selector (in-memory)", "Worker.__hash__ (index based)", "jobs (scripted durations)"]
    PROBES = ["thread_start_failed", "commtimeout_none", "pool_resized_live", "wall_clock_stepped_back_during_close", "refused", "worker_retired", "worker_created", "close_with_running_jobs", "preempted",
              "server_layer", "refused_on_wire", "worker_reused", "close_races_submission", "submit_after_close_refused", "stalled", "silent_client", "job_raised", "closed_during_housekeeper_round", "proxy_client", "proxy_client_refused", "job_ended_with_systemexit"]
    RULE = ("plan = (layer, THREADPOOL_SIZE, THREADPOOL_SIZE_MIN, per job: duration and gap before the next "
            "submission, optional close time, pre-emption probabilities); distinct = distinct interleaving digest "
            "(sequence of thread switches, pre-emption sites and socket events); non-trivial = at least one "
            "pre-emption or contended scheduling choice happened and at least two jobs overlapped or one was refused")
    ASSUMPTIONS = ["pre-emption granularity is the source line inside Pool/Worker methods",
                   "a worker that was handed the retire signal is not counted as live",
                   "a job accepted at the very instant close() is called may be dropped (never started); it must never start after close() returned"]
    QUICK_RUNS = 10000
    CHUNK = 250
    SHRINK_LISTS = ["jobs"]

    def gen(self, rng, tier):
        big = tier == "thorough"
        size = rng.randint(1, 3)
        mn = rng.randint(1, size)
        layer = "server" if rng.random() < 0.3 else "pool"
        njobs = rng.randint(2, 8 if big else 6)
        jobs = []
        for _ in range(njobs):
            dur = rng.choice([0, 0, 0.001, 0.01, 0.05, 0.2])
            gap = rng.choice([0, 0, 0, 0.001, 0.01, 0.05, 0.3])
            if layer == "server":
                dur = rng.choice([0, 0.01, 0.1, 0.5])
                gap = rng.choice([0, 0, 0.01, 0.1, 0.6])
            jobs.append({"dur": dur, "gap": gap, "calls": rng.randint(0, 2), "raises": layer == "pool" and rng.random() < 0.15})
            if jobs[-1]["raises"] and rng.random() < 0.3:
                jobs[-1]["raises"] = "exit"     # ... with SystemExit (a served method called sys.exit()): no Exception, yet the job is over
        commt = 0.0
        if layer == "server" and rng.random() < 0.35:
            # a configured communication timeout, and clients that connect and then say nothing for a long time: the
            # refusal handshake (read by the accept loop itself) must give up on them after COMMTIMEOUT
            commt = 2.0
            for j in jobs:
                if rng.random() < 0.3:
                    j["silent"] = 10.0
        close = None
        if rng.random() < 0.5:
            close = {"after": rng.choice([0, 0, 0.001, 0.01, 0.05, 0.3])}
            if layer == "server":
                # how the application ends the daemon: shutdown() from another thread, or the request loop ends (loop condition)
                # and the daemon is closed (what leaving a `with Daemon()` block does); optionally at the very moment the
                # housekeeper thread makes one of its rounds
                close["how"] = rng.choice(["shutdown", "close", "close"])
                close["at_tick"] = rng.random() < 0.6
            if layer == "pool" and rng.random() < 0.4:
                close["during"] = rng.randrange(njobs)      # close() in another thread while the accept thread keeps submitting
        p_stall = rng.choice([0.0, 0.0, 0.01, 0.03]) if layer == "pool" else rng.choice([0.0, 0.0, 0.0, 0.01])
        if close and "during" in close:
            p_stall = rng.choice([0.02, 0.05, 0.1])
        plan = {"layer": layer, "size": size, "min": mn, "jobs": jobs, "close": close, "p_stall": p_stall, "commtimeout": commt,
                "p_line": rng.choice([0.0, 0.02, 0.05, 0.1, 0.2, 0.3]),
                "p_block": rng.choice([0.0, 0.3, 0.6, 1.0])}
        if layer == "pool" and close is not None and "during" not in close and rng.random() < 0.1:
            # the wall clock is stepped back an hour (NTP, an operator) while close() waits for two workers that are busy with
            # long jobs: close() must still return promptly (time.time() is not a clock to compute waiting times with)
            plan["size"] = size = max(size, 2)
            for j in jobs[:2]:
                j["dur"], j["gap"], j["raises"] = 150.0, 0, False
            t_close = sum(j["gap"] for j in jobs) + close["after"]
            plan["clock_jumps"] = [[round(t_close + rng.choice([0.05, 0.15, 0.25, 0.45]), 4), -3600.0]]
            plan["p_stall"] = 0.0
        if layer == "server" and not commt and rng.random() < 0.3:
            plan["commtimeout_none"] = True
        if layer == "pool" and "clock_jumps" not in plan and rng.random() < 0.12 and len(jobs) >= 3:
            # the application changes THREADPOOL_SIZE while the pool is in use (the pool reads the configuration live): from job k
            # on the bound is higher, and a submission below the new bound must not be refused
            plan["resize"] = {"at": rng.randint(1, len(jobs) - 1), "size": size + rng.randint(1, 2)}
        if layer == "server" and rng.random() < 0.15:
            # a listener of the unix-domain kind: the address of an accepted connection is '' (no host, no port)
            plan["net"] = {"unix_addr": True}
        if layer == "server" and rng.random() < 0.5:
            # some of the clients are the library's own Proxy (with a serializer of their choice) instead of a bare socket that
            # speaks marshal: what the refused CLIENT is told is what the application sees
            for j in jobs:
                if not j.get("silent") and rng.random() < 0.5:
                    j["proxy"] = rng.choice(["serpent", "json", "msgpack", "marshal"])
        if layer == "pool" and rng.random() < 0.08:
            # the operating system refuses to start one of the worker threads the pool wants while it grows
            plan["start_fail"] = [mn + rng.randint(1, max(1, size - mn))]
        return plan

    def line_codes(self, plan):
        return _server_codes() if plan["layer"] == "server" else _codes()

    # ------------------------------------------------------------------
    def scenario(self, ctx):
        plan = ctx.plan
        config.THREADPOOL_SIZE = plan["size"]
        config.THREADPOOL_SIZE_MIN = plan["min"]
        config.POLLTIMEOUT = 2.0
        config.COMMTIMEOUT = plan.get("commtimeout", 0.0) if plan["layer"] == "server" else 0.0
        if plan.get("commtimeout_none"):
            config.COMMTIMEOUT = None       # "no timeout" spelled the other legal way (Pyro's own tests set it like this)
            ctx.probe("commtimeout_none")
        config.SERVERTYPE = "thread"
        sched = ctx.sched
        workers = []
        st = {"closed_returned": None, "in_service": 0}
        oi, op, ond = ST.Worker.__init__, ST.Worker.process, ST.Pool.notify_done

        def winit(self, pool):
            self._ret = False
            self._jobs = 0
            workers.append(self)
            ctx.probe("worker_created")
            oi(self, pool)

        def wproc(self, job):
            if job is None:
                if not self._ret:
                    ctx.probe("worker_retired")
                self._ret = True
            else:
                self._jobs += 1
                if self._jobs == 2:
                    ctx.probe("worker_reused")
            op(self, job)

        def notify_done(self, worker):
            try:
                return ond(self, worker)
            finally:
                st["in_service"] -= 1

        ST.Worker.__init__ = winit
        ST.Worker.process = wproc
        ST.Pool.notify_done = notify_done

        def active_workers():
            n = 0
            for w in workers:
                if w._ret:
                    continue
                t = sched.sim_thread_of(w)
                if t is not None and t.state != "done":
                    n += 1
            return n

        def check_bound(where):
            a = active_workers()
            if a > plan["size"]:
                ctx.violate("worker-bound-exceeded", "", "%d live workers with THREADPOOL_SIZE=%d (%s)"
                            % (a, plan["size"], where))
                return False
            return True

        try:
            if plan["layer"] == "pool":
                self._pool_layer(ctx, st, workers, check_bound)
            else:
                self._server_layer(ctx, st, workers, check_bound)
        finally:
            ST.Worker.__init__ = oi
            ST.Worker.process = op
            ST.Pool.notify_done = ond
        if sched.preempts:
            ctx.probe("preempted")
        if sched.stalls:
            ctx.probe("stalled")
            ctx.fault("thread_stall", sched.stalls)

    # ------------------------------------------------------------------
    def _pool_layer(self, ctx, st, workers, check_bound):
        plan, sched = ctx.plan, ctx.sched
        if plan.get("start_fail"):
            # fault: the k-th attempt to start a worker thread fails (the OS refuses another thread); counted from the first
            # worker the pool creates
            sched.start_counts = {}
            sched.start_fail = {"Worker": [int(k) for k in plan["start_fail"]]}
        try:
            pool = ST.Pool()
        except RuntimeError:
            if plan.get("start_fail"):
                ctx.probe("thread_start_failed")
                return      # the pool could not even be created: nothing to judge
            raise
        ran = {}
        running = [0]
        maxrun = [0]
        started_after_close = []

        class Job:
            def __init__(s, i, dur, raises=False):
                s.i = i
                s.dur = dur
                s.raises = raises

            def __call__(s):
                ran[s.i] = ran.get(s.i, 0) + 1
                if st["closed_returned"] is not None:
                    started_after_close.append(s.i)
                running[0] += 1
                maxrun[0] = max(maxrun[0], running[0])
                check_bound("job %d start" % s.i)
                if s.dur:
                    sched.sleep(s.dur)
                else:
                    sched.yield_point("job")
                running[0] -= 1
                if s.raises == "exit":
                    ctx.probe("job_ended_with_systemexit")
                    raise SystemExit(0)
                if s.raises:
                    ctx.probe("job_raised")
                    raise RuntimeError("job %d failed" % s.i)     # a job that ends with an exception is over, too

        status = {}
        sub_now = {}
        closing = {"t": None, "done": [], "called_now": None}

        def closer():
            closing["called_now"] = sched.now
            if plan.get("clock_jumps"):
                ctx.probe("wall_clock_stepped_back_during_close")
                ctx.fault("wall_clock_step")
            if running[0]:
                ctx.probe("close_with_running_jobs")
            pool.close()
            st["closed_returned"] = sched.stamp()
            closing["done"].append(1)

        def start_closer():
            closing["t"] = threading.Thread(target=closer, name="closer")
            closing["t"].start()

        during = plan["close"].get("during") if plan["close"] else None
        for i, j in enumerate(plan["jobs"]):
            if plan.get("resize") and i == plan["resize"]["at"]:
                config.THREADPOOL_SIZE = plan["size"] = int(plan["resize"]["size"])
                ctx.probe("pool_resized_live")
            in_service_before = st["in_service"]
            sub_now[i] = sched.now
            try:
                st["in_service"] += 1
                pool.process(Job(i, j["dur"], j.get("raises", False)))
                status[i] = "accepted"
            except ST.NoFreeWorkersError:
                st["in_service"] -= 1
                status[i] = "refused"
                ctx.probe("refused")
                if in_service_before < plan["size"]:
                    ctx.violate("spurious-refusal", "", "job %d refused with only %d of %d workers in service"
                                % (i, in_service_before, plan["size"]))
            except ST.PoolError as x:
                st["in_service"] -= 1
                status[i] = "closed"
                if closing["t"] is None:
                    ctx.violate("submit-raised", "PoolError", "job %d: %r although close() was never called" % (i, x))
                else:
                    ctx.probe("submit_after_close_refused")
            except RuntimeError as x:
                st["in_service"] -= 1
                if plan.get("start_fail") and "start new thread" in str(x):
                    # the submitter was told: a refusal (the pool must go on working with the workers it has)
                    status[i] = "refused"
                    ctx.probe("thread_start_failed")
                    ctx.fault("thread_start_failed")
                else:
                    status[i] = "error"
                    ctx.violate("submit-raised", type(x).__name__, "job %d: %r" % (i, x))
            except Exception as x:  # noqa
                st["in_service"] -= 1
                status[i] = "error"
                ctx.violate("submit-raised", type(x).__name__, "job %d: %r" % (i, x))
            if closing["t"] is None:
                check_bound("after submit %d" % i)
                if pool.idle & pool.busy:
                    ctx.violate("idle-busy-overlap", "", "a worker is in idle and busy at once")
            if during is not None and i == during and closing["t"] is None:
                ctx.probe("close_races_submission")
                start_closer()
            if j["gap"]:
                sched.sleep(j["gap"])
        ctx.nontrivial = bool(sched.choices) and (maxrun[0] >= 2 or "refused" in status.values())
        maxdur = max([j["dur"] for j in plan["jobs"]] + [0])
        if plan["close"] is not None:
            if closing["t"] is None:
                if plan["close"]["after"]:
                    sched.sleep(plan["close"]["after"])
                start_closer()
            closing["t"].join(60.0)
            if not closing["done"]:
                ctx.violate("close-deadlock", "", "Pool.close() did not return within 60 virtual seconds")
                return
            sched.sleep(maxdur + 1.0)
            sched.quiesce()
            for _ in range(30):
                if not running[0]:
                    break
                sched.sleep(maxdur + 0.5)
                sched.quiesce()
            alive = [w for w in workers if (sched.sim_thread_of(w) is not None and sched.sim_thread_of(w).state != "done")]
            if alive:
                ctx.violate("worker-not-exited", "", "%d worker threads still alive after close and all jobs ended"
                            % len(alive))
            if started_after_close:
                ctx.violate("job-started-after-close", "", "jobs %r started after close() returned" % started_after_close)
        else:
            sched.sleep(maxdur + 1.0)
            sched.quiesce()
            for _ in range(30):     # a stalled worker may start its job late: wait for it while it makes progress
                pending = [i for i, s_ in status.items() if s_ == "accepted" and i not in ran]
                if not running[0] and not (pending and sched.stalls):
                    break
                sched.sleep(maxdur + 0.5)
                sched.quiesce()
            check_bound("quiescence")
            if pool.idle & pool.busy:
                ctx.violate("idle-busy-overlap", "", "a worker is in idle and busy at once")
            if len(pool.busy) != 0:
                ctx.violate("stale-busy-worker", "", "%d workers still busy after all jobs ended" % len(pool.busy))
        for i, s_ in status.items():
            n = ran.get(i, 0)
            if s_ in ("refused", "closed") and n:
                ctx.violate("refused-job-ran", "", "job %d was refused but ran %d times" % (i, n))
            elif s_ == "accepted":
                # a job that had not started when close() was called may be dropped - but only if no virtual time passed
                # between its submission and that call (time only advances when every thread had its chance to run)
                # (with injected thread stalls that argument does not hold: then any job not started at the call is exempt)
                exempt = closing["called_now"] is not None and (sub_now[i] >= closing["called_now"] or sched.stalls > 0)
                if n > 1:
                    ctx.violate("job-ran-twice", "", "job %d ran %d times" % (i, n))
                elif n == 0 and not exempt:
                    ctx.violate("job-dropped", "", "job %d was accepted but never ran" % i)
        if plan["close"] is None:
            pool.close()

    # ------------------------------------------------------------------
    def _server_layer(self, ctx, st, workers, check_bound):
        plan, sched, net = ctx.plan, ctx.sched, ctx.net
        ctx.probe("server_layer")
        served = {}
        ocall = ST.ClientConnectionJob.__call__
        oproc = ST.Pool.process

        def jcall(self):
            c = self.csock.sock.conn
            served[c] = served.get(c, 0) + 1
            check_bound("connection %d start" % c)
            return ocall(self)

        denied = set()

        def pproc(self, job):
            st["in_service"] += 1
            st["last_in_service_before"] = st["in_service"] - 1
            try:
                return oproc(self, job)
            except BaseException as x:
                st["in_service"] -= 1
                if isinstance(x, ST.NoFreeWorkersError):
                    denied.add(getattr(getattr(job.csock, "sock", None), "conn", None))
                raise

        ST.ClientConnectionJob.__call__ = jcall
        ST.Pool.process = pproc
        d = None
        try:
            d = SV.Daemon(host="127.0.0.1", port=0)
            d.register(_Echo(), "echo")
            addr = d.transportServer.sock.getsockname()
            running = [True]
            hk = {"n": 0}
            ohk = SV.Daemon._housekeeping

            def housekeeping(self):
                hk["n"] += 1
                return ohk(self)

            SV.Daemon._housekeeping = housekeeping
            loop = threading.Thread(target=d.requestLoop, args=(lambda: running[0],), name="daemon-loop")
            loop.start()
            results = {}
            overlap = [0, 0]

            def proxy_client(i, j, r):
                from Pyro5 import client as CL, errors as E
                ctx.probe("proxy_client")
                p = CL.Proxy("PYRO:echo@%s:%d" % (addr[0], addr[1]))
                p._pyroSerializer = j["proxy"]
                p._pyroTimeout = 30.0
                try:
                    try:
                        p._pyroBind()
                    except E.CommunicationError as x:
                        r["t1"] = sched.now
                        r["state"] = "refused"
                        r["reason"] = "%s: %s" % (type(x).__name__, x)
                        ctx.probe("proxy_client_refused")
                        return
                    except Exception as x:  # noqa
                        # the connection attempt ended with something that is no communication error: whatever the daemon said is lost
                        r["t1"] = sched.now
                        r["state"] = "refused"
                        r["reason"] = "[not a communication error] %s: %s" % (type(x).__name__, x)
                        return
                    r["t1"] = sched.now
                    r["conn"] = p._pyroConnection.sock.conn
                    r["state"] = "served"
                    overlap[0] += 1
                    overlap[1] = max(overlap[1], overlap[0])
                    ok = 0
                    for k in range(j["calls"]):
                        if p.echo(i * 100 + k) == i * 100 + k:
                            ok += 1
                    r["ok"] = ok
                    if j["dur"]:
                        sched.sleep(j["dur"])
                    overlap[0] -= 1
                    p._pyroRelease()
                    r["state"] = "served-done"
                except Exception as x:  # noqa
                    r["state"] = "error:%s:%s" % (type(x).__name__, x)

            def client(i, j):
                r = results[i] = {"state": "start", "t0": sched.now}
                if j.get("proxy"):
                    return proxy_client(i, j, r)
                try:
                    sk = net.connect_raw(addr, timeout=30.0)
                    r["conn"] = sk.conn
                    if j.get("silent"):
                        # connects and says nothing; whatever the server does with it, it leaves after a while
                        ctx.probe("silent_client")
                        r["state"] = "silent"
                        sk.settimeout(j["silent"])
                        try:
                            sk.recv(4096)
                        except OSError:
                            pass
                        sk.close()
                        return
                    payload = marshal.dumps({"handshake": "hello", "object": "echo"})
                    sk.sendall(N.build_message(N.MSG_CONNECT, 0, 0, N.SER_MARSHAL, payload))
                    m = _read_msg(sk)
                    r["t1"] = sched.now
                    if m is None:
                        r["state"] = "dropped"
                        return
                    if m["type"] == N.MSG_CONNECTFAIL:
                        r["state"] = "refused"
                        r["reason"] = marshal.loads(m["payload"])
                        return
                    if m["type"] != N.MSG_CONNECTOK:
                        r["state"] = "weird:%d" % m["type"]
                        return
                    r["state"] = "served"
                    overlap[0] += 1
                    overlap[1] = max(overlap[1], overlap[0])
                    ok = 0
                    for k in range(j["calls"]):
                        body = marshal.dumps(("echo", "echo", (i * 100 + k,), {}))
                        sk.sendall(N.build_message(N.MSG_INVOKE, 0, k + 1, N.SER_MARSHAL, body))
                        m = _read_msg(sk)
                        if m is not None and m["type"] == N.MSG_RESULT and marshal.loads(m["payload"]) == i * 100 + k:
                            ok += 1
                    r["ok"] = ok
                    if j["dur"]:
                        sched.sleep(j["dur"])
                    overlap[0] -= 1
                    sk.close()
                    r["state"] = "served-done"
                except Exception as x:  # noqa
                    r["state"] = "error:%s:%s" % (type(x).__name__, x)

            threads = []
            for i, j in enumerate(plan["jobs"]):
                t = threading.Thread(target=client, args=(i, j), name="client%d" % i)
                t.start()
                threads.append(t)
                if j["gap"]:
                    sched.sleep(j["gap"])
            for t in threads:
                t.join(120.0)
            sched.quiesce()
            ctx.nontrivial = bool(sched.choices) and (overlap[1] >= 2 or any(r["state"] == "refused" for r in results.values()))
            # a silent client that found the pool full is refused by the accept loop itself, which waits for its CONNECT for at
            # most COMMTIMEOUT: only those can delay others. A silent client that got a worker delays nobody.
            nsilent = sum(1 for i, j in enumerate(plan["jobs"]) if j.get("silent") and results.get(i, {}).get("conn") in denied)
            wait_bound = 1.0 + plan.get("commtimeout", 0.0) * nsilent
            for i, r in sorted(results.items()):
                stt = r["state"]
                if stt == "silent":
                    continue
                if stt == "refused":
                    ctx.probe("refused")
                    ctx.probe("refused_on_wire")
                    if "free workers" not in str(r.get("reason", "")):
                        ctx.violate("refusal-without-reason", "", "client %d: CONNECTFAIL %r" % (i, r.get("reason")))
                    if r["t1"] - r["t0"] > wait_bound and not sched.stalls:
                        ctx.violate("refusal-not-immediate", "", "client %d waited %.3fs for its refusal" % (i, r["t1"] - r["t0"]))
                    if served.get(r.get("conn"), 0):
                        ctx.violate("refused-job-ran", "", "client %d was refused but its connection job ran" % i)
                elif stt == "served-done":
                    n = served.get(r["conn"], 0)
                    if n != 1:
                        ctx.violate("job-ran-twice" if n > 1 else "job-dropped", "", "client %d: connection job ran %d times" % (i, n))
                    if r.get("ok") != plan["jobs"][i]["calls"]:
                        ctx.violate("connection-not-served", "", "client %d got %r of %d replies" % (i, r.get("ok"), plan["jobs"][i]["calls"]))
                    if r["t1"] - r["t0"] > wait_bound and not sched.stalls:
                        ctx.violate("client-left-waiting", "", "client %d waited %.3fs for CONNECTOK" % (i, r["t1"] - r["t0"]))
                elif stt == "dropped":
                    ctx.violate("connection-dropped-silently", "", "client %d: connection closed without any reply" % i)
                elif stt.startswith("error:timeout") or stt.startswith("error:TimeoutError"):
                    ctx.violate("client-left-waiting", "", "client %d: %s" % (i, stt))
                else:
                    ctx.violate("client-unexpected", stt.split(":")[0], "client %d: %s" % (i, stt))
            lt = sched.sim_thread_of(loop)
            if lt.state == "done":
                ctx.violate("accept-loop-died", "", "daemon loop thread exited: %r" % (lt.died,))
            check_bound("quiescence")
            pool = d.transportServer.pool
            if pool.idle & pool.busy:
                ctx.violate("idle-busy-overlap", "", "a worker is in idle and busy at once")
            if pool.busy:
                ctx.violate("stale-busy-worker", "", "%d workers busy with no open connection" % len(pool.busy))
            if plan["close"] is not None:
                done = []

                how = plan["close"].get("how", "shutdown")

                def closer():
                    if how == "close":
                        running[0] = False
                        loop.join(30.0)            # the request loop notices its condition after a poll timeout at the latest
                        if sched.sim_thread_of(loop).state != "done":
                            done.append("loop")
                            return
                    if plan["close"].get("at_tick"):
                        n0 = hk["n"]
                        sched.block(lambda: hk["n"] > n0, 10.0, "wait-for-housekeeper-round")
                        ctx.probe("closed_during_housekeeper_round")
                    if how == "close":
                        d.close()
                    else:
                        d.shutdown()
                    done.append(1)

                t = threading.Thread(target=closer, name="closer")
                t.start()
                t.join(60.0)
                if done == ["loop"]:
                    ctx.violate("accept-loop-did-not-end", "", "the request loop did not return within 30 virtual seconds after its loop condition became false")
                    return
                if not done:
                    ctx.violate("close-deadlock", how, "Daemon.%s() did not return within 60 virtual seconds" % how)
                    return
                sched.sleep(1.0)
                sched.quiesce()
                alive = [w for w in workers if sched.sim_thread_of(w) is not None and sched.sim_thread_of(w).state != "done"]
                if alive:
                    ctx.violate("worker-not-exited", "", "%d worker threads alive after shutdown" % len(alive))
        finally:
            ST.ClientConnectionJob.__call__ = ocall
            ST.Pool.process = oproc
            if "ohk" in locals():
                SV.Daemon._housekeeping = ohk


def _read_exact(sk, n):
    buf = b""
    while len(buf) < n:
        c = sk.recv(n - len(buf))
        if not c:
            return None
        buf += c
    return buf


def _read_msg(sk):
    h = _read_exact(sk, N.HEADER_SIZE)
    if h is None:
        return None
    info = N.parse_header(h)
    if info is None:
        return None
    body = _read_exact(sk, info["alen"] + info["dlen"])
    if body is None:
        return None
    info["ann"] = N.parse_annotations(body[:info["alen"]])
    info["payload"] = body[info["alen"]:]
    return info


WORLD = PoolWorld()
