"""C03 - a call returns its own reply or fails; never another call's answer.

One real Proxy (own thread) issues a sequence of calls (normal, raising, one-way, batch, attribute set/get,
stream open + fetch) against a real Daemon (both server types) through a message-aware middlebox that applies
a scripted fault to the n-th INVOKE / its reply / the j-th handshake.  Every server-side execution gets a
unique execution number E stamped with the global event number; every reply carries (token, count, E).
"""
import threading

from ..world import World
from .. import net as N
from .. import sched as S
from .common import Server, install_script, break_conn, SERIALIZERS
from ..seams import config, CL
import Pyro5.api as api
import Pyro5.errors as E


@api.expose
class Tok:
    def __init__(self, sched):
        self._s = sched
        self._ex = {}
        self._log = {}      # E -> (stamp, kind, tok)
        self._n = 0
        self._last = None

    def _run(self, kind, tok):
        self._n += 1
        self._ex[tok] = self._ex.get(tok, 0) + 1
        self._log[self._n] = (self._s.stamp(), kind, tok)
        return self._n

    def echo(self, tok):
        e = self._run("echo", tok)
        return [tok, self._ex[tok], e]

    def tagged(self, tok):
        """like echo, with a value no serializer can write natively (sets go through each serializer's conversion hook)"""
        e = self._run("tagged", tok)
        return {"v": [tok, self._ex[tok], e], "tags": {tok, "x" + str(tok)}}

    def boom(self, tok):
        e = self._run("boom", tok)
        raise ValueError(tok, e)

    @api.oneway
    def ow(self, tok):
        self._run("ow", tok)

    @property
    def val(self):
        e = self._run("get", "<get>")
        return [self._last, 0, e]

    @val.setter
    def val(self, tok):
        self._run("set", tok)
        self._last = tok

    def stream(self, tok, n):
        self._run("stream", tok)

        def gen():
            for i in range(n):
                e = self._run("item", "%s#%d" % (tok, i))
                yield ["%s#%d" % (tok, i), i, e]
        return gen()


_SER_CODES = None
REQ_FAULTS = ["req_drop", "req_rst"]
REP_FAULTS = ["rep_drop", "rep_delay", "rep_cut", "rep_rst", "rep_dup", "rep_stale", "rep_seq"]
HS_FAULTS = ["hs_drop", "hs_cut", "hs_rst"]
NEED_TIMEOUT = {"req_drop", "rep_drop", "rep_delay", "hs_drop"}


class RpcWorld(World):
    PROPERTY = "C03"
    NAME = "rpc"
    REAL = ["Pyro5.client.Proxy/_RemoteMethod/BatchProxy/_StreamResultIterator", "Pyro5.server.Daemon (handshake, handleRequest)",
            "SocketServer_Threadpool / SocketServer_Multiplex", "Pyro5.protocol", "Pyro5.serializers (all four)",
            "socketutil.receive_data/send_data/SocketConnection"]
    STUB = ["sockets/selector (in-memory) with message-aware middlebox", "threads (baton scheduler)", "time (virtual clock)",
            "uuid4 (seeded)"]
    PROBES = ["retry_taken", "seq_wrap", "stale_rejected", "reconnect_after_release", "late_reply_discarded",
              "oneway_then_call", "recovered_after_failure", "remote_exception", "batch", "stream_item", "attr",
              "comm_error", "timeout_error", "stream_exhausted", "bystander", "retry_budget_changed", "client_annotations", "stream_resumed_after_reconnect"]
    RULE = ("plan = (server type, serializer, compression, MAX_RETRIES, proxy timeout, initial sequence number, 3-12 calls, "
            "<= 6 message-level faults keyed by INVOKE ordinal / handshake ordinal, fragmentation; in 20% of the plans some calls "
            "first change the proxy's retry budget (_pyroMaxRetries); 25% of the plans run a second client with its own proxy, "
            "never touched by a fault, concurrently, with line pre-emption inside Pyro5.serializers); distinct = distinct "
            "interleaving digest; non-trivial = at least one fault fired")
    ASSUMPTIONS = ["a stale reply whose sequence number equals the current one is never forged (indistinguishable by construction)",
                   "exactly-once for a returned call is asserted with a retry budget of 0; with retries the bound is 1+N executions, N "
                   "being the proxy's budget at the time of the call (the application may change _pyroMaxRetries between calls)",
                   "a one-way call must have executed once at quiescence only if its request was delivered and the connection was not reset afterwards",
                   "recovery is demanded for the call after a failed call when no fault fires during it",
                   "before the first injected fault no call may fail with a communication error"]
    QUICK_RUNS = 10000
    CHUNK = 100
    SHRINK_LISTS = ["calls", "faults"]

    def gen(self, rng, tier):
        big = tier == "thorough"
        ncalls = rng.randint(3, 12 if big else 9)
        kinds = ["echo", "echo", "echo", "boom", "ow", "batch", "set", "get", "stream", "tagged"]
        calls = []
        switch = rng.random() < 0.2      # the application changes the proxy's retry budget while it is in use
        for _ in range(ncalls):
            k = rng.choice(kinds)
            c = {"kind": k}
            if k in ("batch", "stream"):
                c["n"] = rng.randint(1, 3)
            if k == "stream":
                c["n"] = rng.randint(1, 4)
                c["reconnect"] = rng.random() < 0.6     # the consumer reconnects after a failed fetch and goes on
            if switch and calls and rng.random() < 0.3:
                c["set_retries"] = rng.choice([0, 0, 1, 2])
            calls.append(c)
        nf = rng.choice([0, 1, 1, 2, 2, 3, 4, 6 if big else 4])
        faults = []
        for _ in range(nf):
            r = rng.random()
            if r < 0.08:
                f = {"kind": "ow_rst_after", "at": rng.randint(1, ncalls + 3)}
            elif r < 0.2:
                f = {"kind": rng.choice(HS_FAULTS), "at_conn": rng.randint(0, 3)}
            elif r < 0.33:
                f = {"kind": rng.choice(REQ_FAULTS), "at": rng.randint(1, ncalls + 3)}
            else:
                f = {"kind": rng.choice(REP_FAULTS), "at": rng.randint(1, ncalls + 3)}
            f["frac"] = round(rng.random(), 3)
            f["rst"] = rng.random() < 0.5
            faults.append(f)
        need_to = any(f["kind"] in NEED_TIMEOUT for f in faults)
        timeout = 2.0 if (need_to or rng.random() < 0.5) else None
        plan = {"servertype": rng.choice(["thread", "multiplex"]), "serializer": rng.choice(SERIALIZERS),
                "compression": rng.random() < 0.3, "retries": rng.choice([0, 0, 1, 2]), "timeout": timeout,
                "seq0": rng.choice([0, 0, 65533, 65534, 65535]), "calls": calls, "faults": faults,
                "net": {"p_frag": rng.choice([0.0, 0.0, 0.3, 0.8]), "rst_discards_rx": rng.random() < 0.5},
                "p_block": rng.choice([0.0, 0.0, 0.2, 0.6])}
        if rng.random() < 0.3:
            plan["client_ann"] = True       # the client attaches an annotation of its own to every request
        if rng.random() < 0.12:
            # a gateway's proxy: _pyroRawWireResponse hands the received message over undecoded (the harness decodes it); whose reply
            # it is must be checked all the same
            plan["rawwire"] = True
        if rng.random() < 0.25:
            # a second client with a proxy of its own calls concurrently and is never touched by the middlebox: on the thread
            # server two workers then decode requests and encode replies at the same time (line pre-emption inside the serializers)
            plan["bystander"] = {"calls": rng.randint(2, 6), "gap": rng.choice([0, 0, 0.01])}
            plan["p_line"] = rng.choice([0.02, 0.1, 0.3])
        return plan

    def line_codes(self, plan):
        global _SER_CODES
        if not plan.get("bystander"):
            return ()
        if _SER_CODES is None:
            import Pyro5.serializers as SER
            _SER_CODES = S.code_objects(*[v for v in vars(SER).values()
                                          if (isinstance(v, type) and v.__module__ == SER.__name__) or
                                          (hasattr(v, "__code__") and getattr(v, "__module__", "") == SER.__name__)])
        return _SER_CODES

    def simplify(self, plan):
        if plan["compression"]:
            p = dict(plan)
            p["compression"] = False
            yield p
        if plan["net"].get("p_frag"):
            p = dict(plan)
            p["net"] = dict(plan["net"], p_frag=0.0)
            yield p
        if plan["seq0"]:
            p = dict(plan)
            p["seq0"] = 0
            yield p
        if plan["retries"]:
            p = dict(plan)
            p["retries"] = plan["retries"] - 1
            yield p

    # ------------------------------------------------------------------
    def scenario(self, ctx):
        plan, sched, net = ctx.plan, ctx.sched, ctx.net
        config.SERIALIZER = plan["serializer"]
        config.COMPRESSION = plan["compression"]
        config.MAX_RETRIES = plan["retries"]
        srv = Server(ctx, plan["servertype"])
        obj = Tok(sched)
        uri = srv.register(obj, "tok")

        # ---------------- middlebox
        st = {"inv": 0, "fired": [], "replies": [], "ow_delivered": {}, "rst_conns": set(), "late_pending": 0, "rst_after_delivery": set()}
        by_at = {}
        faults = [dict(f) for f in plan["faults"]]     # never mutate the plan
        for f in faults:
            if "at" in f:
                by_at.setdefault(f["at"], []).append(f)
        hs_by_conn = {f["at_conn"]: f for f in reversed(faults) if "at_conn" in f}
        awaiting = {}   # conn -> list of invoke ordinals awaiting a reply

        def fire(f, conn):
            st["fired"].append((sched.stamp(), f["kind"], conn))
            ctx.fault(f["kind"])
            sched.ev("fault", f["kind"], conn)

        def pair(pipe):
            c, s = net.conns[pipe.conn]
            return c, s

        byst_conns = set()

        def c2s(pipe, k, info, raw):
            if "BYST" in info["ann"]:
                byst_conns.add(pipe.conn)
            if pipe.conn in byst_conns:
                return True
            if info["type"] == N.MSG_CONNECT:
                return True
            if info["type"] != N.MSG_INVOKE:
                return True
            st["inv"] += 1
            n = st["inv"]
            oneway = bool(info["flags"] & N.FLAG_ONEWAY)
            fl = [f for f in by_at.get(n, []) if f["kind"] in REQ_FAULTS and not f.get("_used")]
            if fl:
                f = fl[0]
                f["_used"] = True
                fire(f, pipe.conn)
                if f["kind"] == "req_drop":
                    return None
                c, s = pair(pipe)
                st["rst_conns"].add(pipe.conn)
                break_conn(c, s)
                return None
            if oneway:
                st["ow_delivered"][n] = (pipe.conn, sched.stamp(), info)
                fa = [f for f in by_at.get(n, []) if f["kind"] == "ow_rst_after" and not f.get("_used")]
                if fa:
                    # the one-way request arrives completely, then the connection is reset: the daemon can still read what is
                    # queued (the peer address is gone: getpeername fails) and has to run the call - the client was told it is on its way
                    fa[0]["_used"] = True
                    fire(fa[0], pipe.conn)
                    pipe.deliver(raw)
                    c, s = pair(pipe)
                    for x in (c, s):
                        x.reset = True
                        if x.out is not None:
                            x.out.dead = True
                    st["rst_after_delivery"].add(pipe.conn)
                    return None
            else:
                awaiting.setdefault(pipe.conn, []).append(n)
            return True

        def s2c(pipe, k, info, raw):
            if pipe.conn in byst_conns:
                return True
            c, s = pair(pipe)
            if info["type"] in (N.MSG_CONNECTOK, N.MSG_CONNECTFAIL):
                f = hs_by_conn.get(pipe.conn)
                if f is None or f.get("_used"):
                    return True
                f["_used"] = True
                fire(f, pipe.conn)
                if f["kind"] == "hs_drop":
                    return None
                if f["kind"] == "hs_cut":
                    o = max(1, min(len(raw) - 1, int(f["frac"] * len(raw))))
                    pipe.deliver(raw[:o])
                    c.eof = True
                    st["rst_conns"].add(pipe.conn)
                    break_conn(c, s, keep_client_rx=True)
                    c.reset = f["rst"]
                    return None
                st["rst_conns"].add(pipe.conn)
                break_conn(c, s)
                return None
            if info["type"] != N.MSG_RESULT:
                return True
            q = awaiting.get(pipe.conn) or []
            n = q.pop(0) if q else None
            fl = [f for f in by_at.get(n, []) if f["kind"] in REP_FAULTS and not f.get("_used")] if n is not None else []
            if not fl:
                st["replies"].append(raw)
                return True
            f = fl[0]
            f["_used"] = True
            kind = f["kind"]
            if kind == "rep_stale" and not st["replies"]:
                f["_used"] = False
                st["replies"].append(raw)
                return True
            fire(f, pipe.conn)
            if kind == "rep_drop":
                return None
            if kind == "rep_delay":
                st["late_pending"] += 1

                def late():
                    if c.closed:
                        ctx.probe("late_reply_discarded")
                    pipe.deliver(raw)
                sched.call_later((plan["timeout"] or 2.0) + 3.0, late, "late-reply")
                return None
            if kind == "rep_cut":
                o = max(1, min(len(raw) - 1, int(f["frac"] * len(raw))))
                pipe.deliver(raw[:o])
                c.eof = True
                st["rst_conns"].add(pipe.conn)
                break_conn(c, s, keep_client_rx=True)
                c.reset = f["rst"]
                return None
            if kind == "rep_rst":
                st["rst_conns"].add(pipe.conn)
                break_conn(c, s)
                return None
            if kind == "rep_dup":
                st["replies"].append(raw)
                pipe.deliver(raw + raw)
                return None
            if kind == "rep_stale":
                old = st["replies"][int(f["frac"] * len(st["replies"])) % len(st["replies"])]
                st["replies"].append(raw)
                pipe.deliver(old + raw)
                return None
            if kind == "rep_seq":
                mm = bytearray(raw)
                seq = int.from_bytes(raw[10:12], "big")
                seq2 = (seq + 1 + int(f["frac"] * 65534)) & 0xffff
                if seq2 == seq:
                    seq2 = (seq + 1) & 0xffff
                mm[10:12] = seq2.to_bytes(2, "big")
                pipe.deliver(bytes(mm))
                return None
            raise AssertionError(kind)

        install_script(net, c2s, s2c)

        # ---------------- client
        calls = []
        state = {"done": False}

        def unwrap(r):
            """what a gateway does with the message a raw-wire proxy hands it: decode it with the serializer the message names"""
            if not plan.get("rawwire") or not hasattr(r, "serializer_id") or not hasattr(r, "data"):
                return r
            import Pyro5.serializers as SER
            from Pyro5 import protocol as PR
            data = SER.serializers_by_id[r.serializer_id].loads(r.data)
            if r.flags & PR.FLAGS_EXCEPTION:
                raise data
            return data

        def classify(fn, rec):
            rec["inv"] = sched.stamp()
            try:
                rec["out"] = ("ok", unwrap(fn()))
            except StopIteration:
                rec["out"] = ("stop",)
            except E.CommunicationError as x:
                rec["out"] = ("comm", type(x).__name__, str(x)[:120])
            except ValueError as x:
                rec["out"] = ("remote", "ValueError", list(x.args))
            except E.PyroError as x:
                rec["out"] = ("pyro", type(x).__name__, str(x)[:120])
            except Exception as x:  # noqa
                rec["out"] = ("other", type(x).__name__, str(x)[:200])
            rec["ret"] = sched.stamp()
            rec["conn_after"] = net.nconn
            rec["retries"] = state.get("budget", plan["retries"])
            calls.append(rec)
            return rec

        def client():
            if plan.get("client_ann"):
                from Pyro5.callcontext import current_context as cctx
                cctx.annotations = {"RPCA": b"client-annotation"}
                ctx.probe("client_annotations")
            p = CL.Proxy(uri)
            p._pyroTimeout = plan["timeout"]
            p._pyroSeq = plan["seq0"]
            budget = plan["retries"]
            raw = bool(plan.get("rawwire"))
            if raw:
                p._pyroRawWireResponse = True
                ctx.probe("rawwire_proxy")
            for i, c in enumerate(plan["calls"]):
                tok = "t%d" % i
                k = c["kind"]
                if raw and k in ("batch", "stream"):
                    k = "echo"      # (batch results and item streams are made from the decoded reply: not for a raw-wire proxy)
                if c.get("set_retries") is not None:
                    if c["set_retries"] != budget:
                        ctx.probe("retry_budget_changed")
                    budget = p._pyroMaxRetries = c["set_retries"]
                    state["budget"] = budget
                if k == "echo":
                    classify(lambda: p.echo(tok), {"i": i, "kind": k, "tok": tok})
                elif k == "tagged":
                    classify(lambda: p.tagged(tok), {"i": i, "kind": k, "tok": tok})
                elif k == "boom":
                    classify(lambda: p.boom(tok), {"i": i, "kind": k, "tok": tok})
                elif k == "ow":
                    classify(lambda: p.ow(tok), {"i": i, "kind": k, "tok": tok})
                elif k == "set":
                    def do_set():
                        p.val = tok
                    classify(do_set, {"i": i, "kind": k, "tok": tok})
                elif k == "get":
                    classify(lambda: p.val, {"i": i, "kind": k, "tok": tok})
                elif k == "batch":
                    def do_batch():
                        b = api.BatchProxy(p)
                        for j in range(c["n"]):
                            b.echo("%s.%d" % (tok, j))
                        return list(b())
                    classify(do_batch, {"i": i, "kind": k, "tok": tok, "n": c["n"]})
                elif k == "stream":
                    r = classify(lambda: p.stream(tok, c["n"]), {"i": i, "kind": "stream-open", "tok": tok})
                    if r["out"][0] == "ok":
                        it = r["out"][1]
                        r["out"] = ("ok", "<iterator>")
                        for j in range(c["n"] + 2):
                            rr = classify(lambda: next(it), {"i": i, "kind": "stream-next", "tok": tok, "j": j, "n": c["n"]})
                            if rr["out"][0] in ("stop", "pyro", "other"):
                                break
                            # after a communication error the consumer keeps iterating (what a reconnecting client does)
                            if rr["out"][0] == "comm" and c.get("reconnect"):
                                sched.sleep(0.05)       # (the server gets to see the old connection go)
                                try:
                                    p._pyroReconnect(tries=2)
                                    ctx.probe("stream_resumed_after_reconnect")
                                except Exception:  # noqa
                                    pass
                        it.close()
                        del it
            try:
                p._pyroRelease()
            except Exception:  # noqa
                pass
            state["done"] = True

        bcalls = []

        def bystander():
            from Pyro5.callcontext import current_context as cctx
            spec = plan["bystander"]
            cctx.annotations = {"BYST": b"1"}
            q = CL.Proxy(uri)
            q._pyroTimeout = None
            q._pyroMaxRetries = 0
            for i in range(spec["calls"]):
                tok = "b%d" % i
                rec = {"i": i, "tok": tok, "inv": sched.stamp()}
                try:
                    rec["out"] = ("ok", q.tagged(tok))
                except Exception as x:  # noqa
                    rec["out"] = ("err", type(x).__name__, str(x)[:160])
                rec["ret"] = sched.stamp()
                bcalls.append(rec)
                if spec["gap"]:
                    sched.sleep(spec["gap"])
            try:
                q._pyroRelease()
            except Exception:  # noqa
                pass

        bt = None
        if plan.get("bystander"):
            ctx.probe("bystander")
            bt = threading.Thread(target=bystander, name="bystander")
            bt.start()
        t = threading.Thread(target=client, name="client")
        t.start()
        t.join(900.0)
        if bt is not None:
            bt.join(900.0)
            if sched.sim_thread_of(bt).state != "done":
                ctx.violate("call-hung", "bystander", "a call of the second, undisturbed client did not return within 900 virtual seconds")
                return
        ct = sched.sim_thread_of(t)
        if ct.died:
            ctx.violate("client-thread-died", ct.died[0], "client thread died: %r" % (ct.died,))
            return
        if not state["done"]:
            last = calls[-1] if calls else None
            ctx.violate("call-hung", "", "a call did not return within 900 virtual seconds (after %r)" % (last,))
            return
        sched.sleep((plan["timeout"] or 2.0) + 4.0)
        sched.settle(5.0)
        if not srv.loop_alive():
            ctx.disturbed = "daemon loop died: %r" % (srv.loop_death(),)
            return
        ctx.nontrivial = bool(st["fired"])
        self._judge(ctx, plan, obj, calls, st, bcalls)

    # ------------------------------------------------------------------
    def _judge(self, ctx, plan, obj, calls, st, bcalls=()):
        log = obj._log
        ex = obj._ex
        seen_E = {}
        retries = plan["retries"]
        fired_stamps = [s for s, _, _ in st["fired"]]

        def own(rec, val, tok, kinds):
            """val = [tok, count, E] must come from an execution inside this call's interval"""
            if not (isinstance(val, list) and len(val) == 3):
                ctx.violate("foreign-reply", "shape", "call %r returned %r" % (rec["kind"], val))
                return
            vt, cnt, e = val
            entry = log.get(e) if isinstance(e, int) else None
            if entry is None:
                ctx.violate("foreign-reply", "unknown-execution", "call %d %s returned %r (no such execution)" % (rec["i"], rec["kind"], val))
                return
            stamp, kind, etok = entry
            if e in seen_E and seen_E[e] != (rec["i"], rec.get("j")):
                ctx.violate("foreign-reply", "duplicate-result", "execution %d returned to two calls: %r and %r" % (e, seen_E[e], rec["i"]))
            seen_E[e] = (rec["i"], rec.get("j"))
            if tok is not None and vt != tok:
                ctx.violate("foreign-reply", "token", "call %d %s(%s) returned %r" % (rec["i"], rec["kind"], tok, val))
            elif not (rec["inv"] < stamp < rec["ret"]) or kind not in kinds:
                ctx.violate("foreign-reply", "stale-execution", "call %d %s [%d,%d] returned %r produced by execution %r"
                            % (rec["i"], rec["kind"], rec["inv"], rec["ret"], val, entry))

        prev_failed = False
        last_fail_ret = -1
        prev_kind = None
        nconn_before = 1
        for rec in calls:
            k, out, tok = rec["kind"], rec["out"], rec["tok"]
            tag = out[0]
            retries = rec.get("retries", plan["retries"])      # the budget in force when this call was made
            faults_during = any(rec["inv"] < s < rec["ret"] for s in fired_stamps)
            if tag == "other":
                ctx.violate("non-communication-error", out[1], "call %d %s raised %s: %s" % (rec["i"], k, out[1], out[2]))
            if tag == "comm":
                ctx.probe("comm_error")
                if not any(s < rec["ret"] for s in fired_stamps):
                    ctx.violate("spurious-failure", k, "call %d %s failed with %s: %s although no fault had been injected yet"
                                % (rec["i"], k, out[1], out[2]))
                if out[1] == "TimeoutError":
                    ctx.probe("timeout_error")
                if "out of sync" in out[2]:
                    ctx.probe("stale_rejected")
            if k == "echo":
                if tag == "ok":
                    own(rec, out[1], tok, ("echo",))
                    if retries == 0 and ex.get(tok, 0) != 1:
                        ctx.violate("returned-call-not-once", "echo", "call %d returned but ran %d times" % (rec["i"], ex.get(tok, 0)))
                elif tag not in ("comm", "other"):
                    ctx.violate("unexpected-outcome", "echo:" + tag, "call %d echo -> %r" % (rec["i"], out))
                if ex.get(tok, 0) > 1 + retries:
                    ctx.violate("too-many-executions", "echo", "call %d ran %d times with MAX_RETRIES=%d" % (rec["i"], ex.get(tok, 0), retries))
                if ex.get(tok, 0) > 1:
                    ctx.probe("retry_taken")
            elif k == "tagged":
                if tag == "ok":
                    v = out[1]
                    if not (isinstance(v, dict) and set(v) == {"v", "tags"}):
                        ctx.violate("foreign-reply", "shape", "call %d tagged(%s) returned %r" % (rec["i"], tok, v))
                    else:
                        own(rec, list(v["v"]) if isinstance(v["v"], (list, tuple)) else v["v"], tok, ("tagged",))
                        if set(v["tags"]) != {tok, "x" + tok}:
                            ctx.violate("foreign-reply", "token", "call %d tagged(%s) returned tags %r" % (rec["i"], tok, v["tags"]))
                    if retries == 0 and ex.get(tok, 0) != 1:
                        ctx.violate("returned-call-not-once", "tagged", "call %d returned but ran %d times" % (rec["i"], ex.get(tok, 0)))
                elif tag not in ("comm", "other"):
                    ctx.violate("unexpected-outcome", "tagged:" + tag, "call %d tagged -> %r" % (rec["i"], out))
                if ex.get(tok, 0) > 1 + retries:
                    ctx.violate("too-many-executions", "tagged", "call %d ran %d times with a retry budget of %d" % (rec["i"], ex.get(tok, 0), retries))
            elif k == "boom":
                if tag == "remote":
                    ctx.probe("remote_exception")
                    a = out[2]
                    own(rec, [a[0] if a else None, 0, a[1] if len(a) > 1 else None], tok, ("boom",))
                    if retries == 0 and ex.get(tok, 0) != 1:
                        ctx.violate("returned-call-not-once", "boom", "call %d raised remotely but ran %d times" % (rec["i"], ex.get(tok, 0)))
                elif tag not in ("comm", "other"):
                    ctx.violate("unexpected-outcome", "boom:" + tag, "call %d boom -> %r" % (rec["i"], out))
                if ex.get(tok, 0) > 1 + retries:
                    ctx.violate("too-many-executions", "boom", "call %d ran %d times with MAX_RETRIES=%d" % (rec["i"], ex.get(tok, 0), retries))
            elif k == "ow":
                if tag == "ok":
                    if out[1] is not None:
                        ctx.violate("oneway-returned-value", "", "one-way call returned %r" % (out[1],))
                elif tag not in ("comm", "other"):
                    ctx.violate("unexpected-outcome", "ow:" + tag, "call %d ow -> %r" % (rec["i"], out))
                if ex.get(tok, 0) > 1:
                    ctx.violate("oneway-ran-twice", "", "one-way call %d ran %d times" % (rec["i"], ex.get(tok, 0)))
            elif k == "set":
                if tag not in ("ok", "comm", "other"):
                    ctx.violate("unexpected-outcome", "set:" + tag, "call %d set -> %r" % (rec["i"], out))
                if ex.get(tok, 0) > 1:
                    ctx.violate("too-many-executions", "set", "attribute set %d ran %d times" % (rec["i"], ex.get(tok, 0)))
                if tag == "ok":
                    ctx.probe("attr")
                    if ex.get(tok, 0) != 1:
                        ctx.violate("returned-call-not-once", "set", "attribute set %d returned but ran %d times" % (rec["i"], ex.get(tok, 0)))
            elif k == "get":
                if tag == "ok":
                    own(rec, out[1], None, ("get",))
                elif tag not in ("comm", "other"):
                    ctx.violate("unexpected-outcome", "get:" + tag, "call %d get -> %r" % (rec["i"], out))
            elif k == "batch":
                if tag == "ok":
                    ctx.probe("batch")
                    res = out[1]
                    if len(res) != rec["n"]:
                        ctx.violate("foreign-reply", "batch-length", "batch %d of %d calls returned %d results" % (rec["i"], rec["n"], len(res)))
                    for j, v in enumerate(res):
                        own(dict(rec, j=j), v, "%s.%d" % (tok, j), ("echo",))
                elif tag not in ("comm", "other"):
                    ctx.violate("unexpected-outcome", "batch:" + tag, "call %d batch -> %r" % (rec["i"], out))
                for j in range(rec["n"]):
                    # (the statement allows 1+N executions with N retries for every kind of call; today's client never resends a
                    #  batch, but one that did so within its retry budget would still keep the property)
                    if ex.get("%s.%d" % (tok, j), 0) > 1 + retries:
                        ctx.violate("too-many-executions", "batch", "batch member ran %d times with a retry budget of %d"
                                    % (ex.get("%s.%d" % (tok, j), 0), retries))
                    if tag == "ok" and retries == 0 and ex.get("%s.%d" % (tok, j), 0) != 1:
                        ctx.violate("returned-call-not-once", "batch", "batch %d returned but member %d ran %d times"
                                    % (rec["i"], j, ex.get("%s.%d" % (tok, j), 0)))
            elif k == "stream-open":
                if tag not in ("ok", "comm", "other"):
                    ctx.violate("unexpected-outcome", "stream-open:" + tag, "call %d stream -> %r" % (rec["i"], out))
                if ex.get(tok, 0) > 1 + retries:
                    ctx.violate("too-many-executions", "stream", "stream open ran %d times" % ex.get(tok, 0))
            elif k == "stream-next":
                # one next() is one call of get_next_stream_item: it resumes the server's generator once. Every resume inside this
                # call's interval is an execution of it (nobody else fetches from this stream).
                resumed = sum(1 for (_st, kind, t) in log.values()
                              if kind == "item" and str(t).startswith(tok + "#") and rec["inv"] < _st < rec["ret"])
                if resumed > 1 + retries:
                    ctx.violate("too-many-executions", "stream-next", "fetch %d of stream %s resumed the server's generator %d times with a "
                                "retry budget of %d" % (rec["j"], tok, resumed, retries))
                elif tag == "ok" and retries == 0 and resumed != 1:
                    ctx.violate("returned-call-not-once", "stream-next", "fetch %d of stream %s returned an item but the server's generator "
                                "was resumed %d times for it (an item is lost or made up)" % (rec["j"], tok, resumed))
                if tag == "ok":
                    ctx.probe("stream_item")
                    v = out[1]
                    own(rec, v, None, ("item",))
                    if isinstance(v, list) and v and not str(v[0]).startswith(tok + "#"):
                        ctx.violate("foreign-reply", "token", "stream %s yielded %r" % (tok, v))
                elif tag == "stop":
                    # the iterator may only report exhaustion when the server's generator really produced all its items
                    produced = sum(1 for (_st, kind, t) in log.values() if kind == "item" and str(t).startswith(tok + "#"))
                    if produced < rec.get("n", 0):
                        ctx.violate("premature-stopiteration", "", "stream %s: the client iterator stopped after fetch %d although the server "
                                    "generator produced only %d of %d items" % (tok, rec["j"], produced, rec["n"]))
                    else:
                        ctx.probe("stream_exhausted")
            # clause 5: recovery after a failed call
            # (no fault since the failed call returned: between the two the consumer of a stream may have reconnected and fetched
            #  again, and a duplicated reply of such a fetch is a fault whose effect shows in the following call)
            if prev_failed and not faults_during and not any(last_fail_ret < s < rec["ret"] for s in fired_stamps) \
                    and k in ("echo", "tagged", "boom", "batch", "set", "get", "stream-open"):
                good = tag in ("ok", "remote")
                if good:
                    ctx.probe("recovered_after_failure")
                    if rec["conn_after"] > nconn_before:
                        ctx.probe("reconnect_after_release")
                elif tag != "other":
                    ctx.violate("no-recovery", k, "call %d %s after a failed call, no fault during it, ended %r" % (rec["i"], k, out))
            if prev_kind == "ow" and k in ("echo", "boom", "get", "batch") and tag in ("ok", "remote"):
                ctx.probe("oneway_then_call")
            if k != "stream-next":
                prev_failed = (tag == "comm")
            elif tag == "comm":
                prev_failed = True
            if tag == "comm":
                last_fail_ret = rec["ret"]
            prev_kind = k
            nconn_before = rec["conn_after"]
        # the second client is never touched by a fault: every one of its calls returns its own result, computed once
        for rec in bcalls:
            out, tok = rec["out"], rec["tok"]
            if out[0] != "ok":
                ctx.violate("bystander-call-failed", out[1], "call %d of the undisturbed second client failed: %s: %s" % (rec["i"], out[1], out[2]))
                continue
            v = out[1]
            if not (isinstance(v, dict) and set(v) == {"v", "tags"} and isinstance(v["v"], (list, tuple))):
                ctx.violate("foreign-reply", "bystander-shape", "second client: tagged(%s) returned %r" % (tok, v))
                continue
            own(dict(rec, kind="tagged", i="b%d" % rec["i"]), list(v["v"]), tok, ("tagged",))
            if set(v["tags"]) != {tok, "x" + tok}:
                ctx.violate("foreign-reply", "token", "second client: tagged(%s) returned tags %r" % (tok, v["tags"]))
            if ex.get(tok, 0) != 1:
                ctx.violate("returned-call-not-once", "bystander", "second client: tagged(%s) ran %d times" % (tok, ex.get(tok, 0)))
        if plan["seq0"] >= 65533 and len(calls) >= 4:
            ctx.probe("seq_wrap")
        # clause 4: a delivered one-way request ran exactly once
        for n, (conn, stamp, info) in st["ow_delivered"].items():
            if conn in st["rst_conns"]:
                continue
        ow_calls = [r for r in calls if r["kind"] == "ow" and r["out"][0] == "ok"]
        for rec in ow_calls:
            if ex.get(rec["tok"], 0) == 0:
                # acceptable only if the request was lost: a fault fired during the call or a reset hit its connection later
                delivered = [v for v in st["ow_delivered"].values() if rec["inv"] < v[1] < rec["ret"]]
                lost_ok = (not delivered) or any(v[0] in st["rst_conns"] for v in delivered)
                if not lost_ok:
                    ctx.violate("oneway-not-run", "", "one-way call %d was delivered to a live connection but never ran" % rec["i"])


WORLD = RpcWorld()
