"""C13 - every connection is cleaned up exactly once, however it ends.

Raw protocol-speaking peers connect to a real Daemon (both server types), complete the handshake, track /
untrack resources and create a session instance through real remote calls, and then end in one of many ways:
orderly close, close or RST at a byte offset of a request (header / annotations / payload), malformed request,
server-side timeout on a partial request or an idle connection, a SecurityError raised by the method, a user
disconnect hook that raises - while other connections stay open or end concurrently.
"""
import marshal
import socket
import threading

from ..world import World
from .. import net as N
from .common import read_msg
from ..seams import config, SV
import Pyro5.api as api
import Pyro5.errors as E
from Pyro5.callcontext import current_context as cctx


class _Run:
    """per-run state consulted by the module-level workload classes"""
    cur = None


class Resource:
    # (unused slots: an instance size that nothing else in a run has - the allocator then gives the block of a resource that has
    #  just died to the next resource that is created: same address, run after run. See Res.track, 'ephemeral'.)
    __slots__ = tuple("_pad%02d" % i for i in range(27)) + ("__dict__", "__weakref__")

    def __init__(self, conn, idx):
        self.conn = conn
        self.idx = idx
        self.closed = 0
        self.close_stamp = None
        self.oneway = False
        self.track_stamp = None     # set for resources tracked from a one-way call thread

    def __hash__(self):
        # the daemon keeps tracked resources in a (weak) set: with the default address-based hash the order in which it walks
        # them would differ from process to process, and with it what a changed tree does - a replay must not depend on that
        return (self.conn * 1009 + self.idx) * 2654435761 % (1 << 61)

    def __eq__(self, other):
        return self is other

    def close(self):
        self.closed += 1
        if self.close_stamp is None and _Run.cur is not None:
            self.close_stamp = _Run.cur["sched"].stamp()
        if _Run.cur is not None and _Run.cur.get("close_untracks"):
            # an idempotent clean-up: whoever closes the resource also takes it off the connection's list
            _Run.cur["probe"]("resource_close_untracks_itself")
            try:
                cctx.untrack_resource(self)
            except E.PyroError:
                pass        # (closed by a thread without a calling connection)
        if _Run.cur is not None and _Run.cur.get("close_raises") and self.idx == 0:
            raise RuntimeError("resource close failed")


@api.expose
class Res:
    def track(self, n, untrack, owner=None):
        # 'owner' is the connection number the PEER knows it is calling over: resources are attributed to the connection
        # that really asked for them, whatever the call context says
        run = _Run.cur
        c = cctx.client
        conn = c.sock.conn if owner is None else owner
        rs = run["resources"].setdefault(conn, [])
        new = []
        if (n + untrack + conn) % 3 == 0:
            # a resource that the application tracks and then simply lets go of (tracking is weak: it just disappears from the
            # connection's list); the next resource is created right away - at the dead one's address
            tmp = Resource(conn, -1)
            cctx.track_resource(tmp)
            del tmp
            run["probe"]("ephemeral_resource")
        for _ in range(n):
            r = Resource(conn, len(rs))
            rs.append(r)
            new.append(r)
            cctx.track_resource(r)
        for r in new[:untrack]:
            cctx.untrack_resource(r)
            run["untracked"].add((conn, r.idx))
        return len(rs)

    @api.oneway
    def track_ow(self, n, owner, delay):
        """tracks resources from the one-way call's own thread (the call context there is a copy made for that call)"""
        run = _Run.cur
        if delay:
            run["sched"].sleep(delay)
        rs = run["resources"].setdefault(owner, [])
        for _ in range(n):
            r = Resource(owner, len(rs))
            r.oneway = True
            rs.append(r)
            cctx.track_resource(r)
            r.track_stamp = run["sched"].stamp()
        run["ow_tracked"] += n

    def echo(self, tok):
        return tok

    def items(self, n):
        # an item stream owned by the calling connection (left unfinished when the connection ends)
        # (a generator, a plain list iterator or a map object: the latter two have no close() / throw())
        if n % 3 == 0:
            if n % 2 == 0:
                def g():
                    try:
                        for i in range(n):
                            yield i
                    finally:
                        raise OSError("the stream's clean-up code failed")      # close() of this generator raises
                return g()
            return (i for i in range(n))
        if n % 3 == 1:
            return iter(list(range(n)))
        return map(abs, range(n))

    def sec(self, tok):
        raise E.SecurityError("denied " + str(tok))

    def kick(self):
        """server-side code throws its own client out: it closes the socket of the connection it is serving"""
        cctx.client.sock.close()
        return "bye"

    def boom(self, tok):
        raise ValueError(tok)


@api.behavior(instance_mode="session")
@api.expose
class Sess:
    def __init__(self):
        run = _Run.cur
        run["sessions"] += 1
        # a session object that acquires a resource when it is created, for the connection it is created for
        owner = run["creating_for"].get(threading.get_ident())
        if owner is not None and run.get("ctor_tracks"):
            rs = run["resources"].setdefault(owner, [])
            r = Resource(owner, len(rs))
            rs.append(r)
            cctx.track_resource(r)
            run["ctor_tracked"] += 1

    def hello(self):
        return 1


class CDaemon(SV.Daemon):
    def clientDisconnect(self, conn):
        run = _Run.cur
        idx = conn.sock.conn
        run["hooks"][idx] = run["hooks"].get(idx, 0) + 1
        run["conn_objs"][idx] = conn
        run["hook_stamps"].append((idx, run["sched"].stamp()))
        if idx in run["hook_slow"]:
            # the application's hook takes its time (it tells another service that the client left)
            run["sched"].sleep(run["hook_slow"][idx])
        if idx in run["hook_raises"]:
            raise RuntimeError("user hook failed")


ENDINGS = ["release", "cut_close", "cut_rst", "malformed", "timeout_partial", "timeout_idle", "security", "open", "rst_idle",
           "oneway_then_close", "kicked"]


class ConnWorld(World):
    PROPERTY = "C13"
    NAME = "conn"
    REAL = ["SocketServer_Threadpool per-connection path (ClientConnectionJob, Pool, Worker)", "SocketServer_Multiplex events/handleRequest",
            "Daemon._clientDisconnect / handleRequest / _handshake", "SocketConnection.close", "callcontext.track_resource/untrack_resource",
            "Daemon._getInstance (session instances)", "protocol, marshal serializer"]
    STUB = ["sockets/selector (in-memory)", "threads (baton scheduler)", "time (virtual clock)", "raw protocol-speaking peers"]
    PROBES = ["release", "cut_header", "cut_annotations", "cut_payload", "rst", "malformed", "timeout_partial", "timeout_idle", "security",
              "hook_raises", "still_open_ok", "resources_closed", "resources_untracked", "session_instance", "multiplex", "thread",
              "concurrent_endings", "handshake_failed_conn", "oneway_then_close", "stream_open_at_end", "ctor_tracked_resource", "kicked_by_server_code", "stream_started_at_end",
              "oneway_tracked_resource", "oneway_tracked_after_end", "malformed_truncated_zlib", "slow_disconnect_hook"]
    RULE = ("plan = (server type, COMMTIMEOUT, 2-4 connections each with handshake, 0-2 track calls (n resources, k untracked), optional "
            "session-instance call, an ending kind with byte offset, start delay; optional raising user hook / raising resource close); "
            "distinct = distinct interleaving digest; non-trivial = at least one connection ended abnormally while another was open")
    ASSUMPTIONS = ["for connections whose handshake failed the disconnect hook is required at most once",
                   "resources are attributed to the connection the peer called over (it passes its own connection number), not to "
                   "what the call context says; 30% of the connections also track resources from one-way call threads (optionally "
                   "delayed): such a resource must be closed exactly once with its connection if it was tracked before the "
                   "connection's disconnect hook ran, and nothing is demanded of it if the one-way thread tracked it later",
                   "the harness keeps strong references to resources (the daemon tracks them weakly)",
                   "with a server COMMTIMEOUT an idle connection is dropped by design, so 'still open' connections keep talking"]
    QUICK_RUNS = 10000
    CHUNK = 100
    SHRINK_LISTS = ["conns"]

    def gen(self, rng, tier):
        commt = rng.choice([0.0, 0.0, 1.0])
        servertype = rng.choice(["thread", "multiplex"])
        conns = []
        for _ in range(rng.randint(2, 4)):
            end = rng.choice(ENDINGS)
            if end.startswith("timeout") and not commt:
                end = rng.choice(["release", "cut_close", "cut_rst"])
            tracks = [{"n": rng.randint(1, 3), "untrack": rng.randint(0, 2)} for _ in range(rng.randint(0, 2))]
            for t in tracks:
                t["untrack"] = min(t["untrack"], t["n"])
            ow = []
            if rng.random() < 0.3:
                ow = [{"n": rng.randint(1, 2), "delay": rng.choice([0, 0, 0.02, 0.2])} for _ in range(rng.randint(1, 2))]
            conns.append({"start": rng.choice([0, 0, 0.01, 0.1]), "tracks": tracks, "ow_tracks": ow, "session": rng.random() < 0.4,
                          "zcut": end == "malformed" and rng.random() < 0.3,
                          "hook_slow": rng.choice([6.0, 8.0, 12.0]) if rng.random() < 0.12 else 0,
                          "streams": rng.choice([0, 0, 1, 2]),
                          "end": end, "frac": round(rng.random(), 3), "hold": rng.choice([0, 0.05, 0.3]),
                          "bad_handshake": rng.random() < 0.1, "hook_raises": rng.random() < 0.15,
                          "ann": rng.random() < 0.5})
        return {"servertype": servertype, "commtimeout": commt, "conns": conns, "close_raises": rng.random() < 0.15,
                "linger": rng.choice([0, 0, 30]), "ctor_tracks": rng.random() < 0.5, "close_untracks": rng.random() < 0.12,
                "net": {"p_frag": rng.choice([0.0, 0.5]), "shuffle_select": rng.random() < 0.5,
                        "rst_discards_rx": rng.random() < 0.5},
                "p_block": rng.choice([0.0, 0.3, 1.0])}

    # ------------------------------------------------------------------
    def scenario(self, ctx):
        plan, sched, net = ctx.plan, ctx.sched, ctx.net
        ctx.probe(plan["servertype"])
        run = _Run.cur = {"resources": {}, "untracked": set(), "hooks": {}, "conn_objs": {}, "hook_raises": set(),
                          "sessions": 0, "sched": sched, "close_raises": plan["close_raises"], "hook_stamps": [],
                          "close_untracks": plan.get("close_untracks", False), "probe": ctx.probe,
                          "creating_for": {}, "ctor_tracks": plan.get("ctor_tracks", False), "ctor_tracked": 0, "hook_slow": {},
                          "ow_tracked": 0}
        gi = SV.Daemon._getInstance

        def get_instance(self, clazz, conn):
            # which connection is an instance being created for?  (the harness's own view, independent of the call context)
            run["creating_for"][threading.get_ident()] = conn.sock.conn
            try:
                return gi(self, clazz, conn)
            finally:
                run["creating_for"].pop(threading.get_ident(), None)

        SV.Daemon._getInstance = get_instance
        try:
            self._run(ctx, plan, sched, net, run)
        finally:
            SV.Daemon._getInstance = gi
            _Run.cur = None

    def _run(self, ctx, plan, sched, net, run):
        config.SERVERTYPE = plan["servertype"]
        config.THREADPOOL_SIZE_MIN, config.THREADPOOL_SIZE = 1, 8
        config.COMMTIMEOUT = plan["commtimeout"]
        config.POLLTIMEOUT = 2.0
        config.SERIALIZER = "marshal"
        config.ITER_STREAM_LINGER = plan.get("linger", 30)
        daemon = CDaemon(host="127.0.0.1", port=0)
        daemon.register(Res(), "res")
        daemon.register(Sess, "sess")
        addr = daemon.transportServer.sock.getsockname()
        loop = threading.Thread(target=daemon.requestLoop, name="daemon-loop")
        loop.start()
        results = {}
        stop = [False]

        def call(sk, st, obj, method, args, flags=0, ann=None):
            st["seq"] += 1
            body = marshal.dumps((obj, method, args, {}))
            sk.sendall(N.build_message(N.MSG_INVOKE, flags, st["seq"], N.SER_MARSHAL, body, ann))
            if flags & N.FLAG_ONEWAY:
                return None
            m = read_msg(sk)
            if m is None:
                raise EOFError("no reply")
            return m

        # (slow disconnect hooks run one after the other on the thread server: a connection whose turn comes late is closed late)
        slow_all = sum(c.get("hook_slow") or 0 for c in plan["conns"])

        def peer(ci, spec):
            r = results[ci] = {"conn": None, "accepted": False, "ended": None, "open_ok": None, "calls_ok": 0}
            if spec["start"]:
                sched.sleep(spec["start"])
            try:
                sk = net.connect_raw(addr, timeout=None)
            except OSError:
                r["ended"] = "connect-failed"
                return
            r["conn"] = sk.conn
            st = {"seq": 0}
            try:
                obj = "nosuchobject" if spec["bad_handshake"] else "res"
                sk.sendall(N.build_message(N.MSG_CONNECT, 0, 0, N.SER_MARSHAL, marshal.dumps({"handshake": "hello", "object": obj})))
                m = read_msg(sk)
                if m is None or m["type"] != N.MSG_CONNECTOK:
                    r["ended"] = "handshake-refused"
                    ctx.probe("handshake_failed_conn")
                    sk.close()
                    return
                r["accepted"] = True
                if spec["hook_raises"]:
                    run["hook_raises"].add(sk.conn)
                if spec.get("hook_slow"):
                    run["hook_slow"][sk.conn] = spec["hook_slow"]
                    ctx.probe("slow_disconnect_hook")
                for t in spec["tracks"]:
                    m = call(sk, st, "res", "track", (t["n"], t["untrack"], sk.conn))
                    if m["type"] == N.MSG_RESULT and not m["flags"] & N.FLAG_EXC:
                        r["calls_ok"] += 1
                for t in spec.get("ow_tracks", []):
                    call(sk, st, "res", "track_ow", (t["n"], sk.conn, t["delay"]), flags=N.FLAG_ONEWAY)
                for j in range(spec.get("streams", 0)):
                    m = call(sk, st, "res", "items", (5 + (j + sk.conn) % 6,))
                    if m["type"] == N.MSG_RESULT and m["flags"] & N.FLAG_STREAM:
                        ctx.probe("stream_open_at_end")
                        sid = bytes(m["ann"].get("STRM", b"")).decode()
                        if sid and (j + sk.conn) % 3 != 0:
                            # one item is fetched: the generator behind the stream has started (its clean-up code runs when it is
                            # closed or dropped)
                            m2 = call(sk, st, "Pyro.Daemon", "get_next_stream_item", (sid,))
                            if m2["type"] == N.MSG_RESULT and not m2["flags"] & N.FLAG_EXC:
                                ctx.probe("stream_started_at_end")
                if spec["session"]:
                    m = call(sk, st, "sess", "hello", ())
                    if m["type"] == N.MSG_RESULT and not m["flags"] & N.FLAG_EXC:
                        ctx.probe("session_instance")
                        r["session"] = True
                if spec["hold"]:
                    sched.sleep(spec["hold"])
                end = spec["end"]
                ann = {"XTRA": b"y" * 20} if spec["ann"] else None
                req = N.build_message(N.MSG_INVOKE, 0, st["seq"] + 1, N.SER_MARSHAL, marshal.dumps(("res", "echo", ("e" * 50,), {})), ann)
                if end == "release":
                    ctx.probe("release")
                    sk.close()
                elif end in ("cut_close", "cut_rst"):
                    o = int(spec["frac"] * len(req))
                    alen = 28 if spec["ann"] else 0
                    ctx.probe("cut_header" if o < 40 else ("cut_annotations" if o < 40 + alen else "cut_payload"))
                    if o:
                        sk.sendall(req[:o])
                    if spec["hold"]:
                        sched.sleep(spec["hold"] / 2)
                    if end == "cut_rst":
                        ctx.probe("rst")
                        sk.rst()
                    else:
                        sk.close()
                elif end == "rst_idle":
                    ctx.probe("rst")
                    sk.rst()
                elif end == "malformed":
                    ctx.probe("malformed")
                    bad = bytearray(req)
                    k = int(spec["frac"] * 4)
                    if spec.get("zcut"):
                        # header and lengths consistent, compressed flag set, but the zlib stream lacks its last byte(s)
                        import zlib
                        z = zlib.compress(marshal.dumps(("res", "echo", ("e" * 300,), {})))
                        z = z[:len(z) - 1 - int(spec["frac"] * 3)]
                        bad = bytearray(N.build_message(N.MSG_INVOKE, N.FLAG_COMPRESSED, st["seq"] + 1, N.SER_MARSHAL, z, None))
                        ctx.probe("malformed_truncated_zlib")
                    elif k == 0:
                        bad[38:40] = b"\0\0"
                    elif k == 1:
                        bad[0:4] = b"GET "
                    elif k == 2:
                        bad[6] = N.MSG_CONNECT
                    else:
                        bad[12:16] = (0xffffffff).to_bytes(4, "big")
                    sk.sendall(bytes(bad))
                    r["drain"] = self._drain(sk, 30.0 + slow_all)
                    sk.close()
                elif end == "timeout_partial":
                    ctx.probe("timeout_partial")
                    o = max(1, int(spec["frac"] * (len(req) - 1)))
                    sk.sendall(req[:o])
                    self._drain(sk, plan["commtimeout"] * 3 + 10.0)
                    sk.close()
                elif end == "timeout_idle":
                    ctx.probe("timeout_idle")
                    if plan["servertype"] == "thread":
                        self._drain(sk, plan["commtimeout"] * 3 + 10.0)
                    sk.close()
                elif end == "security":
                    ctx.probe("security")
                    call(sk, st, "res", "sec", ("s",))
                    r["drain"] = self._drain(sk, 30.0 + slow_all)
                    sk.close()
                elif end == "kicked":
                    ctx.probe("kicked_by_server_code")
                    try:
                        call(sk, st, "res", "kick", ())
                    except (EOFError, OSError):
                        pass
                    self._drain(sk, 30.0 + slow_all)
                    sk.close()
                elif end == "oneway_then_close":
                    ctx.probe("oneway_then_close")
                    call(sk, st, "res", "boom", ("x",), flags=N.FLAG_ONEWAY)
                    sk.close()
                elif end == "open":
                    k = 0
                    while not stop[0] and k < 3000:
                        if plan["commtimeout"]:
                            sched.block(lambda: stop[0], plan["commtimeout"] / 4.0, "open-wait")
                            call(sk, st, "res", "echo", ("k",))
                            k += 1
                        else:
                            sched.block(lambda: stop[0], 600.0, "open-wait")
                            break
                    m = call(sk, st, "res", "echo", ("still-open-%d" % ci,))
                    r["open_ok"] = (m["type"] == N.MSG_RESULT and marshal.loads(m["payload"]) == "still-open-%d" % ci)
                    r["open_hooks_at_check"] = run["hooks"].get(sk.conn, 0)
                    r["open_closed_at_check"] = [x.closed for x in run["resources"].get(sk.conn, [])]
                    sk.close()
                r["ended"] = end
            except (OSError, EOFError) as x:
                r["ended"] = "error:%s:%s" % (spec["end"], type(x).__name__)
                try:
                    sk.close()
                except OSError:
                    pass

        ths = [threading.Thread(target=peer, args=(i, c), name="peer%d" % i) for i, c in enumerate(plan["conns"])]
        for t in ths:
            t.start()
        closing = [t for t, c in zip(ths, plan["conns"]) if c["end"] != "open"]
        for t in closing:
            t.join(900.0)
        # (slow disconnect hooks run one after the other on the thread server - it serialises them - and hold the only thread
        #  of the multiplex server: give them all the time they need before looking)
        slow_total = sum(c.get("hook_slow") or 0 for c in plan["conns"])
        sched.sleep(plan["commtimeout"] * 2 + 1.0 + slow_total)
        sched.settle(5.0)
        # snapshot while the 'open' connections are still open
        mid = {"hooks": dict(run["hooks"])}
        stop[0] = True
        for t in ths:
            t.join(900.0)
        if any(sched.sim_thread_of(t).state != "done" for t in ths):
            ctx.violate("peer-hung", "", "a peer did not finish within 900 virtual seconds")
            return
        for t in ths:
            stt = sched.sim_thread_of(t)
            if stt.died:
                raise RuntimeError("peer thread died: %r" % (stt.died,))
        sched.sleep(plan["commtimeout"] * 2 + 1.0 + slow_total)
        sched.settle(5.0)
        lt = sched.sim_thread_of(loop)
        if lt.state == "done":
            # nothing in this world may end the request loop (user hooks and resource close() that raise included)
            ctx.violate("daemon-loop-died", (lt.died[2] if lt.died else "returned") or "?", "daemon request loop ended: %r" % (lt.died,))
            return
        self._judge(ctx, plan, net, run, results, daemon, mid)

    @staticmethod
    def _drain(sk, timeout):
        sk.settimeout(timeout)
        try:
            while True:
                c = sk.recv(4096)
                if not c:
                    return "eof"
        except socket.timeout:
            return "timeout"
        except OSError:
            return "reset"

    # ------------------------------------------------------------------
    def _judge(self, ctx, plan, net, run, results, daemon, mid):
        abnormal = 0
        slow_somewhere = any(c.get("hook_slow") for c in plan["conns"])     # (a slow hook holds the single multiplex thread)
        had_open = any(c["end"] == "open" for c in plan["conns"])
        ended = []
        for ci, spec in enumerate(plan["conns"]):
            r = results.get(ci)
            if r is None or r["conn"] is None:
                continue
            conn = r["conn"]
            hooks = run["hooks"].get(conn, 0)
            if not r["accepted"]:
                if hooks > 1:
                    ctx.violate("hook-count", "refused-handshake:%d" % hooks, "connection %d (handshake refused): disconnect hook called %d times" % (ci, hooks))
                continue
            end = r["ended"] or "?"
            if end.startswith("error:") and spec["end"] not in ("security", "malformed", "timeout_partial", "timeout_idle"):
                ctx.violate("peer-io-error", spec["end"], "connection %d: %s" % (ci, end))
                continue
            ended.append(conn)
            if r.get("drain") == "timeout" and not (plan["servertype"] == "multiplex" and slow_somewhere):
                # after a malformed request or a security error the daemon ends the connection by itself: the peer, which stayed
                # connected and only listened, must see the end of the stream - not 30 virtual seconds of silence
                ctx.violate("connection-not-ended-after-error", spec["end"], "connection %d (%s): the peer kept listening for 30 virtual "
                            "seconds and the daemon never closed the connection" % (ci, spec["end"]))
            if spec["end"] != "release" and spec["end"] != "open":
                abnormal += 1
            if spec["hook_raises"]:
                ctx.probe("hook_raises")
            # exactly one hook call
            if hooks != 1:
                ctx.violate("hook-count", "%s:%d" % ("open" if spec["end"] == "open" else "ended", hooks),
                            "connection %d ended by %s: disconnect hook called %d times" % (ci, spec["end"], hooks))
            # resources
            own_end = min([st_ for (ci_, st_) in run["hook_stamps"] if ci_ == conn] or [None])
            late = []
            for res in run["resources"].get(conn, []):
                if res.oneway:
                    ctx.probe("oneway_tracked_resource")
                    if res.track_stamp is None or own_end is None or res.track_stamp > own_end:
                        # tracked by a one-way thread that ran (or finished) after the connection had ended: nobody is left
                        # to close it, nothing is demanded
                        late.append(res)
                        ctx.probe("oneway_tracked_after_end")
                        continue
                if (conn, res.idx) in run["untracked"]:
                    ctx.probe("resources_untracked")
                    if res.closed:
                        ctx.violate("untracked-resource-closed", "", "connection %d: resource %d was untracked but closed %d times" % (ci, res.idx, res.closed))
                else:
                    ctx.probe("resources_closed")
                    if res.closed and own_end is not None and res.close_stamp is not None and res.close_stamp < own_end:
                        ctx.violate("resource-closed-early", "", "connection %d: tracked resource %d was closed (event %d) before this "
                                    "connection ended (event %d) - by the ending of another connection" % (ci, res.idx, res.close_stamp, own_end))
                    if res.closed != 1:
                        ctx.violate("resource-close-count", str(res.closed), "connection %d ended by %s: tracked resource %d closed %d times"
                                    % (ci, spec["end"], res.idx, res.closed))
            co = run["conn_objs"].get(conn)
            if co is not None:
                if co.pyroInstances:
                    ctx.violate("session-instances-kept", "", "connection %d: pyroInstances not dropped: %r" % (ci, list(co.pyroInstances)))
                kept = [x for x in co.tracked_resources if not any(x is y for y in late)]
                if kept:
                    ctx.violate("tracked-resources-kept", "", "connection %d: %d resources still tracked after the end" % (ci, len(kept)))
            ssock = net.conns[conn][1]
            if not ssock.closed:
                ctx.violate("server-socket-open", spec["end"], "connection %d ended by %s: server-side socket not closed" % (ci, spec["end"]))
            # still-open connections were unaffected while the others ended
            if spec["end"] == "open":
                if r["open_ok"] is not True:
                    ctx.violate("open-connection-disturbed", "call", "connection %d stayed open but its call failed (%r)" % (ci, r["ended"]))
                else:
                    ctx.probe("still_open_ok")
                if mid["hooks"].get(conn, 0) != 0 or r.get("open_hooks_at_check"):
                    ctx.violate("open-connection-disturbed", "hook", "disconnect hook ran for connection %d while it was still open" % ci)
                if any(r.get("open_closed_at_check") or []):
                    ctx.violate("open-connection-disturbed", "resources", "resources of connection %d closed while it was still open" % ci)
        if run["ctor_tracked"]:
            ctx.probe("ctor_tracked_resource")
        if abnormal >= 2 or (abnormal and had_open):
            ctx.probe("concurrent_endings")
        ctx.nontrivial = abnormal > 0 and len(ended) >= 2
        if not plan.get("linger") and daemon.streaming_responses:
            ctx.violate("streams-kept-without-linger", "", "%d item streams of ended connections still in the table with ITER_STREAM_LINGER=0"
                        % len(daemon.streaming_responses))
        # worker / selector slots
        ts = daemon.transportServer
        if plan["servertype"] == "thread":
            if len(ts.pool.busy) != 0:
                ctx.violate("worker-not-released", "", "%d workers still busy after all connections ended" % len(ts.pool.busy))
        else:
            regs = len(ts.selector.get_map())
            if regs != 1:
                ctx.violate("selector-slot-leaked", "", "%d selector registrations after all connections ended" % regs)
        # hooks for connections we never made
        for conn, n in run["hooks"].items():
            if not any(r.get("conn") == conn for r in results.values()):
                ctx.violate("hook-count", "unknown-connection", "disconnect hook ran %d times for unknown connection %r" % (n, conn))


WORLD = ConnWorld()
