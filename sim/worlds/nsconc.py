"""C15 - name server operations are atomic under concurrent clients.

Real NameServer + MemoryStorage (line pre-emption in every method of both) or SqlStorage on a real
sqlite file (pre-emption between storage calls only).  2-4 threads issue 1-2 operations each on shared
names; the recorded history (invoke/return stamped with the global event number) is checked for
linearizability against a sequential map model by exhaustive search (<= 8 operations).
"""
import os
import shutil
import tempfile
import threading

from ..world import World
from .. import sched as S
from ..seams import NS
import Pyro5.core
import Pyro5.errors

_CODES = {}
NAMES = ["a.x", "a.y", "a.z", "b"]
TAGS = ["t1", "t2", "t3"]
SCRATCH = "/dev/shm" if os.path.isdir("/dev/shm") else None


def _codes(storage):
    if storage not in _CODES:
        if storage == "memory":
            _CODES[storage] = S.code_objects(NS.NameServer, NS.MemoryStorage)
        else:
            _CODES[storage] = S.code_objects(NS.NameServer)
    return _CODES[storage]


def _norm(x):
    if isinstance(x, Pyro5.core.URI):
        return str(x)
    if isinstance(x, (set, frozenset)):
        return ("set",) + tuple(sorted(_norm(i) for i in x))
    if isinstance(x, dict):
        return ("dict",) + tuple(sorted((k, _norm(v)) for k, v in x.items()))
    if isinstance(x, (tuple, list)):
        return tuple(_norm(i) for i in x)
    return x


# ---------------------------------------------------------------- sequential model
def model_apply(op, state):
    """state: dict name -> (uri, frozenset(tags)); returns (normalised result, new state)"""
    k = op["op"]
    if k == "register":
        if op["safe"] and op["name"] in state:
            return ("exc", "NamingError"), state
        s2 = dict(state)
        s2[op["name"]] = (op["uri"], frozenset(op["meta"] or ()))
        return ("ok", None), s2
    if k == "set_metadata":
        if op["name"] not in state:
            return ("exc", "NamingError"), state
        s2 = dict(state)
        s2[op["name"]] = (state[op["name"]][0], frozenset(op["meta"] or ()))
        return ("ok", None), s2
    if k == "remove":
        if op.get("name"):
            if op["name"] in state:
                s2 = dict(state)
                del s2[op["name"]]
                return ("ok", 1), s2
            return ("ok", 0), state
        hit = [n for n in state if n.startswith(op["prefix"])]
        s2 = {n: v for n, v in state.items() if n not in hit}
        return ("ok", len(hit)), s2
    if k == "lookup":
        if op["name"] not in state:
            return ("exc", "NamingError"), state
        uri, tags = state[op["name"]]
        if op["meta"]:
            return ("ok", (uri, _norm(set(tags)))), state
        return ("ok", uri), state
    if k == "list":
        pre = op.get("prefix") or ""
        if op["meta"]:
            r = {n: (u, set(t)) for n, (u, t) in state.items() if n.startswith(pre)}
        else:
            r = {n: u for n, (u, t) in state.items() if n.startswith(pre)}
        return ("ok", _norm(r)), state
    if k == "count":
        return ("ok", len(state)), state
    raise ValueError(k)


def linearizable(hist, init, final, ignore=None):
    """hist: list of dicts with inv, ret, op, res. exhaustive search with memoisation."""
    n = len(hist)
    before = [[False] * n for _ in range(n)]
    for i in range(n):
        for j in range(n):
            if i != j and hist[i]["ret"] < hist[j]["inv"]:
                before[i][j] = True
    seen = set()

    def key(state):
        return tuple(sorted((k, v[0], tuple(sorted(v[1]))) for k, v in state.items()))

    final_key = key(final) if final is not None else None

    def dfs(done, state):
        if len(done) == n:
            return final_key is None or key(state) == final_key
        kk = (done, key(state))
        if kk in seen:
            return False
        seen.add(kk)
        for i in range(n):
            if i in done:
                continue
            if any(before[j][i] and j not in done for j in range(n)):
                continue
            res, s2 = model_apply(hist[i]["op"], state)
            if i != ignore and not hist[i].get("any_result") and res != hist[i]["res"]:
                continue
            if dfs(done | frozenset([i]), s2):
                return True
        return False

    return dfs(frozenset(), dict(init))


class NsConcWorld(World):
    PROPERTY = "C15"
    NAME = "nsconc"
    REAL = ["Pyro5.nameserver.NameServer", "Pyro5.nameserver.MemoryStorage",
            "Pyro5.nameserver.SqlStorage over a real sqlite file (each storage call one scheduling atom)", "Pyro5.core.URI"]
    STUB = ["threading.RLock (simulated, baton scheduler)", "client threads call NameServer methods directly (88% of the plans) or "
            "through a real thread-pool Daemon and Proxies over in-memory sockets with one of the four serializers (12%)"]
    PROBES = ["overlap", "preempted", "safe_register_conflict", "remove_conflict", "naming_error", "sql_storage",
              "list_during_mutation", "stalled", "commtimeout", "autoclean", "autoclean_removed", "wire", "nameserver_daemon", "bulk_entries"]
    RULE = ("plan = (storage, initial registrations, 2-4 threads x 1-2 operations on names with a common prefix, "
            "pre-emption probabilities); distinct = distinct interleaving digest; non-trivial = at least two operations "
            "overlapped in time and at least one scheduling choice deviated from run-to-block")
    ASSUMPTIONS = ["pre-emption granularity is the source line inside NameServer/MemoryStorage methods",
                   "with SqlStorage every storage call is one scheduling atom (no pre-emption inside sqlite)",
                   "histories have at most 8 operations so that the linearizability search is exhaustive",
                   "10% of the plans run the name server's AutoCleaner thread (NS_AUTOCLEAN=3 s) with 1-3 registrations whose daemons "
                   "do not answer; the clients operate at the virtual instant of the cleaner's removing pass (~24 s); each dead name "
                   "that is gone at the end counts as one more concurrent remove(name) with unknown result, linearised anywhere in the run"]
    QUICK_RUNS = 40000
    CHUNK = 250
    SHRINK_LISTS = ["threads.0", "threads.1", "threads.2", "threads.3", "init"]

    def gen(self, rng, tier):
        plan = self._gen(rng, tier)
        if rng.random() < 0.12 and plan["storage"] == "memory":
            # the clients talk to the name server the way real clients do: through a daemon (thread pool server: one worker
            # per client, so the operations still overlap) and proxies, with one of the serializers
            plan["wire"] = {"serializer": rng.choice(["serpent", "json", "marshal", "msgpack", "msgpack"])}
            plan["p_line"] = rng.choice([0.01, 0.03, 0.08])
            return plan
        if plan["storage"] == "memory" and rng.random() < 0.08:
            plan["nsdaemon"] = rng.choice(["multiplex", "multiplex", "thread"])
            return plan
        if plan["storage"] == "memory" and rng.random() < (0.012 if tier == "thorough" else 0.006):
            # 'bulk': more than a thousand entries under one prefix are removed in one operation while other clients count, look
            # up and remove single entries (an implementation that works through big removals in steps shows here)
            n = rng.choice([1001, 1500, 2100])
            k = rng.randrange(n)
            readers = [[{"op": "count"}, {"op": "count"}],
                       [{"op": rng.choice(["remove", "lookup"]), "name": "blk.%04d" % k, "meta": False}, {"op": "count"}]]
            plan.update(bulk={"n": n}, threads=[[{"op": "remove", "prefix": "blk."}]] + readers + [[]],
                        p_line=rng.choice([0.002, 0.01]), p_block=rng.choice([0.5, 1.0]))
            return plan
        if rng.random() < 0.1:
            # the name server's own background thread: NS_AUTOCLEAN on, two registrations whose daemons do not answer.
            # The AutoCleaner removes them ~24 virtual seconds after it started, which is when the clients operate
            dead = ["dead.%d" % i for i in range(1, rng.randint(1, 3) + 1)]
            for i, n in enumerate(dead):
                plan["init"].append({"op": "register", "name": n, "uri": "PYRO:gone%d@dead:%d" % (i, 9 + i), "safe": False, "meta": None})
            if rng.random() < 0.6:
                # a LIVE registration whose name merely starts with a dead one's name (its daemon answers): nobody removes it
                plan["init"].append({"op": "register", "name": dead[0] + rng.choice(["x", ".standby", "0"]), "uri": "PYRO:alive@live:77",
                                     "safe": False, "meta": None})
            plan["autoclean"] = {"dead": dead, "at": [rng.choice([23.99, 24.0, 24.0, 24.0, 24.001, 26.0]) for _ in range(4)]}
            for ops in plan["threads"]:
                for op in ops:
                    # reads that see the doomed names make the race observable
                    if op["op"] == "list" and rng.random() < 0.6:
                        op["prefix"] = rng.choice([None, "dead.", "d"])
                    elif op["op"] == "lookup" and rng.random() < 0.3:
                        op["name"] = rng.choice(dead)
                    elif op["op"] == "remove" and op.get("name") and rng.random() < 0.2:
                        op["name"] = rng.choice(dead)
                    elif op["op"] == "set_metadata" and rng.random() < 0.2:
                        op["name"] = rng.choice(dead)
        return plan

    def _gen(self, rng, tier):
        storage = "sql" if rng.random() < 0.2 else "memory"
        nthreads = rng.randint(2, 4)
        names = NAMES[:rng.randint(2, 3)] + (["b"] if rng.random() < 0.3 else [])
        uri_n = [0]

        def uri():
            uri_n[0] += 1
            return "PYRO:obj%d@h:%d" % (uri_n[0], 1000 + uri_n[0])

        def meta():
            r = rng.random()
            if r < 0.4:
                return None
            return sorted(rng.sample(TAGS, rng.randint(1, 2)))

        init = []
        p_init = rng.choice([0.4, 0.7, 1.0])
        for n in names:
            if rng.random() < p_init:
                init.append({"op": "register", "name": n, "uri": uri(), "safe": False, "meta": meta()})
        focus = rng.choice(names)

        def one():
            r = rng.random()
            n = focus if rng.random() < 0.6 else rng.choice(names)
            if r < 0.28:
                return {"op": "register", "name": n, "uri": uri(), "safe": rng.random() < 0.6, "meta": meta()}
            if r < 0.5:
                return {"op": "remove", "name": n}
            if r < 0.62:
                return {"op": "remove", "prefix": rng.choice(["a.", "a", n])}
            if r < 0.72:
                return {"op": "set_metadata", "name": n, "meta": meta()}
            if r < 0.82:
                return {"op": "lookup", "name": n if rng.random() < 0.5 else rng.choice(names), "meta": rng.random() < 0.5}
            if r < 0.92:
                return {"op": "list", "prefix": rng.choice([None, "a.", "a"]), "meta": rng.random() < 0.5}
            return {"op": "count"}

        if rng.random() < 0.3:
            # focused shape: a multi-entry removal racing readers (count / lookup / list) and re-registrations
            init = [{"op": "register", "name": n, "uri": uri(), "safe": False, "meta": meta()} for n in names]
            threads = [[{"op": "remove", "prefix": rng.choice(["a.", "a"])}]]
            for _ in range(nthreads - 1):
                ops = []
                for _ in range(rng.randint(1, 2)):
                    r = rng.random()
                    if r < 0.35:
                        ops.append({"op": "count"})
                    elif r < 0.7:
                        ops.append({"op": "lookup", "name": rng.choice(names), "meta": rng.random() < 0.5})
                    elif r < 0.85:
                        ops.append({"op": "list", "prefix": rng.choice([None, "a."]), "meta": False})
                    else:
                        ops.append({"op": "register", "name": rng.choice(names), "uri": uri(), "safe": rng.random() < 0.5, "meta": meta()})
                threads.append(ops)
            while len(threads) < 4:
                threads.append([])
            return {"storage": storage, "init": init, "threads": threads,
                    "p_line": rng.choice([0.1, 0.2, 0.35]) if storage == "memory" else rng.choice([0.3, 0.5]),
                    "p_block": rng.choice([0.2, 0.5, 1.0])}
        if rng.random() < 0.15:
            # focused shape: repeated reads of one name racing writes to it (stale / torn reads)
            n = rng.choice(names)
            init = [{"op": "register", "name": x, "uri": uri(), "safe": False, "meta": meta()} for x in names if rng.random() < 0.8 or x == n]

            def rd():
                r = rng.random()
                if r < 0.6:
                    return {"op": "lookup", "name": n, "meta": rng.random() < 0.5}
                if r < 0.85:
                    return {"op": "list", "prefix": rng.choice([None, "a."]), "meta": rng.random() < 0.5}
                return {"op": "count"}

            def wr():
                r = rng.random()
                if r < 0.35:
                    return {"op": "remove", "name": n}
                if r < 0.7:
                    return {"op": "register", "name": n, "uri": uri(), "safe": rng.random() < 0.4, "meta": meta()}
                if r < 0.85:
                    return {"op": "set_metadata", "name": n, "meta": meta()}
                return {"op": "remove", "prefix": "a"}
            threads = [[rd(), rd()], [wr()] + ([rd()] if rng.random() < 0.5 else [])]
            for _ in range(nthreads - 2):
                threads.append([wr() if rng.random() < 0.5 else rd()])
            while len(threads) < 4:
                threads.append([])
            return {"storage": storage, "init": init, "threads": threads,
                    "p_line": rng.choice([0.1, 0.2, 0.35]) if storage == "memory" else rng.choice([0.3, 0.5]),
                    "p_block": rng.choice([0.2, 0.5, 1.0])}
        threads = []
        budget = 8
        for _ in range(nthreads):
            k = min(budget, rng.randint(1, 2))
            budget -= k
            threads.append([one() for _ in range(k)])
        while len(threads) < 4:
            threads.append([])
        return {"storage": storage, "init": init, "threads": threads,
                "p_line": rng.choice([0.0, 0.05, 0.1, 0.2, 0.35]) if storage == "memory" else rng.choice([0.1, 0.3, 0.5]),
                "p_block": rng.choice([0.2, 0.5, 1.0])}

    def line_codes(self, plan):
        if plan.get("wire"):
            if "wire" not in _CODES:
                import Pyro5.serializers as SER
                import serpent
                _CODES["wire"] = list(_codes("memory")) + list(S.code_objects(
                    serpent.Serializer, *[v for v in vars(SER).values()
                                          if (isinstance(v, type) and v.__module__ == SER.__name__) or
                                          (hasattr(v, "__code__") and getattr(v, "__module__", "") == SER.__name__)]))
            return _CODES["wire"]
        if plan.get("autoclean"):
            key = plan["storage"] + "+cleaner"
            if key not in _CODES:
                _CODES[key] = list(_codes(plan["storage"])) + list(S.code_objects(NS.AutoCleaner))
            return _CODES[key]
        return _codes(plan["storage"])

    def make_plan(self, run_seed, tier):
        plan = super().make_plan(run_seed, tier)
        # configuration swarm: a communication timeout is configured in some deployments (it must not matter for the name
        # server's own locking), and threads can be slow inside an operation (injected stalls, virtual seconds)
        import random
        r = random.Random(run_seed ^ 0xC15)
        plan["commtimeout"] = r.choice([0.0, 0.0, 0.2])
        if plan["sched"].get("mode") == "random":
            plan["sched"]["p_stall"] = r.choice([0.0, 0.0, 0.02, 0.05])
        return plan

    def scenario(self, ctx):
        plan, sched = ctx.plan, ctx.sched
        from ..seams import config
        config.COMMTIMEOUT = plan.get("commtimeout", 0.0)
        tmp = None
        if plan["storage"] == "sql":
            ctx.probe("sql_storage")
            tmp = tempfile.mkdtemp(prefix="pyro5dst-", dir=SCRATCH)
            storage = NS.SqlStorage(os.path.join(tmp, "ns.db"))
        else:
            storage = NS.MemoryStorage()
        try:
            if plan.get("nsdaemon") and plan["storage"] == "memory":
                # the name server as the application gets it: inside a NameServerDaemon (here of the multiplex kind, its loop not
                # running); the threads of this run are application threads that use daemon.nameserver directly
                config.SERVERTYPE = plan["nsdaemon"]
                nsd = NS.NameServerDaemon(host="127.0.0.1", port=0)
                ns = nsd.nameserver
                ctx.probe("nameserver_daemon")
            else:
                ns = NS.NameServer(storage)
            init = {}
            if plan.get("bulk"):
                ctx.probe("bulk_entries")
                for j in range(plan["bulk"]["n"]):
                    name, u = "blk.%04d" % j, "PYRO:b%d@h:1" % j
                    ns.storage[name] = (u, frozenset())
                    init[name] = (u, frozenset())
            if plan.get("nsdaemon") and plan["storage"] == "memory":
                # (such a name server starts with its own entry)
                init = {n: (str(u), frozenset(m)) for n, (u, m) in ns.list(return_metadata=True).items()}
            for op in plan["init"]:
                self._call(ns, op)
                _, init = model_apply(op, init)
            hist = []
            internal = []
            wire = plan.get("wire")
            uri = None
            if wire:
                ctx.probe("wire")
                from .common import Server
                from ..seams import CL
                config.SERIALIZER = wire["serializer"]
                srv = Server(ctx, "thread", pool=(1, 8))
                uri = srv.register(ns, "Pyro.NameServer")
            ac = plan.get("autoclean")
            cleaner = None
            t_begin = sched.stamp()
            if ac:
                ctx.probe("autoclean")
                config.NS_AUTOCLEAN = 3.0
                # the daemons behind the ordinary names answer on their ports; those behind the dead.* names do not
                from .. import net as N
                self._listeners = []
                for op in plan["init"] + [o for ops in plan["threads"] for o in ops]:
                    u = op.get("uri")
                    if u and "@dead:" not in u:
                        host, port = u.split("@", 1)[1].rsplit(":", 1)
                        if (host, int(port)) not in ctx.net.listeners:
                            ls = N.SimSocket(ctx.net)
                            ls.listen_on((host, int(port)))
                            self._listeners.append(ls)
                cleaner = NS.AutoCleaner(ns)
                cleaner.name = "autocleaner"
                cleaner.start()

            gate = {"n": 0}

            def client(ops, k=0):
                target = ns
                if wire:
                    target = CL.Proxy(uri)
                    target._pyroBind()
                    gate["n"] += 1
                    sched.block(lambda: gate["n"] >= nclients, 60.0, "all-connected")     # the operations, not the handshakes, race
                if ac:
                    sched.sleep(ac["at"][k % len(ac["at"])])
                for op in ops:
                    h = {"op": op, "inv": sched.stamp()}
                    sched.yield_point("op")
                    raw = None
                    try:
                        raw = self._call(target, op)
                        if wire:
                            raw = self._unwire(op, raw)
                        h["res"] = ("ok", None)
                    except Pyro5.errors.NamingError:
                        h["res"] = ("exc", "NamingError")
                        ctx.probe("naming_error")
                    except Exception as x:  # noqa
                        h["res"] = ("exc", type(x).__name__)
                        internal.append((op, x))
                    h["ret"] = sched.stamp()
                    if h["res"][0] == "ok":
                        # the caller looks at the result only later (a daemon serialises it after the method returned):
                        # what an operation hands out must be a snapshot, not a live view of the table
                        if op["op"] == "list":
                            sched.sleep(0.001)       # every other runnable thread gets to finish what it is doing first
                        else:
                            sched.yield_point("consume")
                        try:
                            h["res"] = ("ok", _norm(raw))
                        except Exception as x:  # noqa
                            h["res"] = ("exc", type(x).__name__)
                            internal.append((op, x))
                    hist.append(h)

            nclients = sum(1 for ops in plan["threads"] if ops)
            ths = [threading.Thread(target=client, args=(ops, i), name="ns-client%d" % i)
                   for i, ops in enumerate(plan["threads"]) if ops]
            for t in ths:
                t.start()
            for t in ths:
                t.join(600.0)
            if any(sched.sim_thread_of(t).state != "done" for t in ths):
                ctx.violate("operation-hung", "", "a name server operation did not return within 60 virtual seconds")
                return
            for t in ths:
                st = sched.sim_thread_of(t)
                if st.died:
                    raise S.HarnessError("client thread died: %r" % (st.died,))
            overlap = any(a["inv"] < b["ret"] and b["inv"] < a["ret"] for i, a in enumerate(hist) for b in hist[i + 1:])
            if overlap:
                ctx.probe("overlap")
            if sched.preempts:
                ctx.probe("preempted")
            if sched.stalls:
                ctx.probe("stalled")
                ctx.fault("thread_stall", sched.stalls)
            if plan.get("commtimeout"):
                ctx.probe("commtimeout")
            ctx.nontrivial = overlap and bool(sched.choices)
            if internal:
                seen = set()
                for op, x in internal:
                    key = "%s:%s" % (type(x).__name__, self._kind(op))
                    if key not in seen:
                        seen.add(key)
                        ctx.violate("internal-error", key, "%s raised %s: %s" % (self._kind(op), type(x).__name__, x))
                return
            if cleaner is not None:
                cleaner.stop = True
                sched.sleep(5.0)           # the cleaner finishes the pass it may be in and leaves
                st = sched.sim_thread_of(cleaner)
                if st is not None and st.died:
                    ctx.violate("internal-error", "%s:autocleaner" % st.died[0], "the AutoCleaner thread died: %r" % (st.died,))
                    return
            final_raw = ns.list(return_metadata=True)
            final = {n: (u, frozenset(t or ())) for n, (u, t) in final_raw.items()}
            if ac:
                # what the cleaner did is one more concurrent client: a dead name that is gone at the end was removed by somebody,
                # at some point of the run (how the cleaner removes - through NameServer.remove or otherwise - is its business)
                t_end = sched.stamp()
                for n in ac["dead"]:
                    if n not in final:
                        hist.append({"op": {"op": "remove", "name": n}, "inv": t_begin, "ret": t_end, "res": None, "any_result": True})
                        ctx.probe("autoclean_removed")
            self._probes(ctx, hist)
            if not linearizable(hist, init, final):
                culprits = []
                for i in range(len(hist)):
                    if linearizable(hist, init, final, ignore=i):
                        culprits.append(self._kind(hist[i]["op"]))
                if not culprits and linearizable(hist, init, None):
                    culprits = ["final-state"]
                key = (sorted(set(culprits)) or ["multiple"])[0]
                ctx.violate("not-linearizable", key, "no sequential order explains: %s ; final=%s" % (
                    [(self._kind(h["op"]), h["op"].get("name") or h["op"].get("prefix"), h["res"], h["inv"], h["ret"]) for h in hist],
                    sorted(final.items())))
        finally:
            if tmp:
                shutil.rmtree(tmp, ignore_errors=True)

    @staticmethod
    def _unwire(op, raw):
        """what a serializer may legitimately change on the way: sets arrive as lists / tuples (json, marshal, msgpack), pairs as lists"""
        k = op["op"]
        if k == "lookup" and op["meta"] and isinstance(raw, (list, tuple)) and len(raw) == 2:
            return (raw[0], set(raw[1] or ()))
        if k == "list" and op["meta"] and isinstance(raw, dict):
            return {n: ((v[0], set(v[1] or ())) if isinstance(v, (list, tuple)) and len(v) == 2 else v) for n, v in raw.items()}
        return raw

    @staticmethod
    def _kind(op):
        k = op["op"]
        if k == "remove":
            return "remove-name" if op.get("name") else "remove-prefix"
        if k == "register":
            return "register-safe" if op["safe"] else "register"
        return k

    @staticmethod
    def _probes(ctx, hist):
        safes = [h for h in hist if h["op"]["op"] == "register" and h["op"]["safe"]]
        for i, a in enumerate(safes):
            for b in safes[i + 1:]:
                if a["op"]["name"] == b["op"]["name"] and a["inv"] < b["ret"] and b["inv"] < a["ret"]:
                    ctx.probe("safe_register_conflict")
        rms = [h for h in hist if h["op"]["op"] == "remove"]
        for i, a in enumerate(rms):
            for b in rms[i + 1:]:
                if a["inv"] < b["ret"] and b["inv"] < a["ret"]:
                    ctx.probe("remove_conflict")
        for a in hist:
            if a["op"]["op"] == "list":
                for b in hist:
                    if b["op"]["op"] in ("remove", "register") and a["inv"] < b["ret"] and b["inv"] < a["ret"]:
                        ctx.probe("list_during_mutation")
                        break

    @staticmethod
    def _call(ns, op):
        k = op["op"]
        if k == "register":
            return ns.register(op["name"], op["uri"], safe=op["safe"], metadata=op["meta"])
        if k == "set_metadata":
            return ns.set_metadata(op["name"], op["meta"])
        if k == "remove":
            if op.get("name"):
                return ns.remove(name=op["name"])
            return ns.remove(prefix=op["prefix"])
        if k == "lookup":
            return ns.lookup(op["name"], return_metadata=op["meta"])
        if k == "list":
            return ns.list(prefix=op.get("prefix"), return_metadata=op["meta"])
        if k == "count":
            return ns.count()
        raise ValueError(k)


WORLD = NsConcWorld()
