"""C12 - per-call context never leaks between calls or clients.

2-3 real clients (own threads, own proxies, several sessions each) call methods that record the call context
they observe and set a unique response annotation (by assignment or by in-place mutation), then return, raise,
or run one-way; plus batches, property reads, pings and fresh handshakes.  A recording middlebox sees every
message in both directions.  Thread server with pool sizes 1-2 (workers reused across successive connections,
line pre-emption inside handleRequest) and multiplex server (one thread serves everybody).
"""
import threading
import uuid

from ..world import World
from .. import net as N
from .. import sched as S
from .common import SERIALIZERS, SER_IDS, install_script, break_conn
from ..seams import config, CL, SV, PR
import Pyro5.api as api
import Pyro5.errors as E
from Pyro5.callcontext import current_context as cctx

PYRO_KEYS = {"STRM", "BLBI"}
DAEMON_KEY, DAEMON_VAL = "DMON", b"daemon-wide"


@api.expose
class CtxObj:
    def __init__(self, sched, taint=False):
        self._s = sched
        self._snaps = {}
        self._taint = taint

    def _do(self, tok, key, mutate):
        c = cctx.client
        self._snaps.setdefault(tok, []).append({
            "stamp": self._s.stamp(),
            "ann": {k: bytes(v) for k, v in cctx.annotations.items()},
            "seq": cctx.seq, "flags": cctx.msg_flags, "ser": cctx.serializer_id,
            "addr": cctx.client_sock_addr, "corr": cctx.correlation_id,
            "conn": getattr(getattr(c, "sock", None), "conn", None)})
        if key:
            if mutate:
                cctx.response_annotations[key] = tok.encode()
            else:
                cctx.response_annotations = {key: tok.encode()}
        if self._taint:
            # a method may write into the request annotations it was handed (Pyro's own client code does, when a method
            # forwards a SerializedBlob through a proxy): that dict belongs to this request alone
            cctx.annotations["TNT" + str(len(self._snaps) % 10)] = tok.encode()

    def ret(self, tok, key, mutate, work=0, pad=""):
        if work:
            self._s.sleep(work / 2.0)      # a method that takes (virtual) time: other threads run meanwhile
        self._do(tok, key, mutate)
        if work:
            self._s.sleep(work / 2.0)
        return tok

    def boom(self, tok, key, mutate, work=0, pad=""):
        if work:
            self._s.sleep(work / 2.0)
        self._do(tok, key, mutate)
        if work:
            self._s.sleep(work / 2.0)
        raise ValueError(tok)

    @api.oneway
    def ow(self, tok, key, mutate, delay=0, pad=""):
        # a one-way method may still be running (and set its annotation) while its serving thread handles later requests
        if delay:
            self._s.sleep(delay)
        else:
            self._s.yield_point("ow-start")
        self._do(tok, key, mutate)

    def plain(self, tok):
        self._do(tok, None, False)
        return tok

    def relay(self, tok, key, mutate, ikey, own_after):
        """gateway pattern: the method calls an object of another daemon through a proxy of its own while it serves its
        caller; the inner method sets a response annotation for ITS reply. The outer method sets its own annotation before
        the nested call, or (own_after) afterwards."""
        self._do(tok, None if own_after else key, mutate)
        with CL.Proxy(self._back_uri) as q:
            q._pyroBind()
            self._nested.add(q._pyroConnection.sock.conn)
            q.inner(tok + ".in", ikey)
        if own_after:
            if mutate:
                cctx.response_annotations[key] = tok.encode()
            else:
                cctx.response_annotations = {key: tok.encode()}
        return tok

    def items(self, tok, n, pause=0):
        """item stream: the generator's body runs inside later get_next_stream_item requests (on the daemon's own object)
        and records the context it sees there, under the name of the fetch it believes it is serving"""
        self._do(tok, None, False)

        def gen():
            for i in range(n):
                if pause:
                    self._s.sleep(pause)
                self._do("%s.i%d" % (tok, i), None, False)
                yield i
        return gen()

    @property
    def prop(self):
        self._do("prop@%d" % len(self._snaps), None, False)
        return 1


@api.expose
class BackObj:
    """lives on a second daemon; called by CtxObj.relay"""

    def inner(self, tok, ikey):
        cctx.response_annotations = {ikey: tok.encode()}
        return tok


_CODES = None


def _codes():
    global _CODES
    if _CODES is None:
        _CODES = S.code_objects(SV.Daemon.handleRequest, SV.Daemon._handshake, SV.Daemon._sendExceptionResponse,
                                SV._OnewayCallThread, PR.SendingMessage, PR.ReceivingMessage,
                                *[v for v in vars(PR).values() if hasattr(v, "__code__") and getattr(v, "__module__", "") == PR.__name__])
    return _CODES


class CtxWorld(World):
    PROPERTY = "C12"
    NAME = "ctx"
    REAL = ["Pyro5.callcontext", "Daemon.handleRequest / _handshake / _sendExceptionResponse / annotations", "_OnewayCallThread",
            "Pyro5.client.Proxy (response_annotations handling)", "both transport servers", "Pyro5.protocol", "serializers"]
    STUB = ["sockets/selector (in-memory) with recording middlebox", "threads (baton scheduler, line pre-emption in handleRequest)",
            "time (virtual clock)", "uuid4 (seeded)"]
    PROBES = ["raise_after_set", "oneway_mutate", "worker_reuse", "handshake_after_raise", "batch", "ping", "prop",
              "assign_idiom", "mutate_idiom", "multiplex", "thread", "preempted", "pool_full_retry", "oneway_delayed", "reply_reset_then_reconnect", "failed_call_annotations_looked_at", "bad_handshake", "peer_address_unavailable", "reset_after_oneway_request",
              "daemon_annotations_hook", "stream_item_context", "request_annotations_written_in_place", "request_without_annotations", "serving_thread_was_a_client", "nested_call"]
    RULE = ("plan = (server type, pool size 1-2, serializer, 2-3 clients x 1-2 sessions x 1-5 calls of kinds "
            "ret/boom/ow/plain/batch/prop/ping/stream (an item stream whose generator body records the context during every fetch), each with a unique annotation key set by assignment or mutation, "
            "pre-emption probabilities); distinct = distinct interleaving digest; non-trivial = at least two clients' "
            "calls were served and at least one method set a response annotation")
    ASSUMPTIONS = ["30% of the plans override Daemon.annotations() (returning one fixed key from a dict the daemon keeps, or from a "
                   "fresh dict): that key with that value is legitimate on every server message and is ignored by the oracle",
                   "Pyro's own annotation keys (STRM, BLBI) are not 'custom'",
                   "sending a raising method's annotations with its own error reply, or not at all, are both allowed"]
    QUICK_RUNS = 8000
    CHUNK = 100
    SHRINK_LISTS = ["clients", "clients.0.sessions", "clients.1.sessions", "clients.2.sessions",
                    "clients.0.sessions.0", "clients.0.sessions.1", "clients.1.sessions.0", "clients.1.sessions.1",
                    "clients.2.sessions.0", "clients.2.sessions.1"]

    def gen(self, rng, tier):
        servertype = rng.choice(["thread", "multiplex"])
        nclients = rng.randint(2, 3)
        kn = [0]
        # 15% of the plans send big requests (beyond 8 kB: buffer-reuse and chunking thresholds of a receiving side)
        pads = [0, 0, 300, 700, 5000] if rng.random() >= 0.15 else [0, 9000, 9000, 12000, 20000, 70000]

        def call():
            kn[0] += 1
            k = rng.choice(["ret", "ret", "boom", "boom", "ow", "plain", "batch", "prop", "ping", "stream", "bare", "bare", "relay"])
            return {"kind": k, "key": "K%03d" % kn[0], "mutate": rng.random() < 0.5, "pause": rng.choice([0, 0, 0.01]),
                    "ow_delay": rng.choice([0, 0, 0.005, 0.02]), "work": rng.choice([0, 0, 0.01, 0.04]),
                    "reset_reply": k in ("ret", "boom", "plain") and rng.random() < 0.12,
                    "reset_after_request": k == "ow" and rng.random() < 0.25,
                    "pad": rng.choice(pads), "n": rng.randint(1, 3), "own_after": rng.random() < 0.4}

        clients = []
        for _ in range(nclients):
            sessions = []
            for _ in range(rng.randint(1, 2)):
                sessions.append([call() for _ in range(rng.randint(1, 5))])
            bad = None
            if rng.random() < 0.35:
                # a handshake that fails while the daemon is still receiving the connect message, right after a session
                bad = {"before": rng.randint(1, len(sessions)), "kind": rng.choice(["wrongtype", "badversion", "oversize", "annmismatch"])}
            clients.append({"sessions": sessions, "corr": rng.random() < 0.6, "start": rng.choice([0, 0, 0.01, 0.05]), "bad_hs": bad})
        plan = {"servertype": servertype, "pool": [1, rng.randint(1, 2)], "serializer": rng.choice(SERIALIZERS),
                "clients": clients, "p_line": rng.choice([0.0, 0.01, 0.03]) if servertype == "thread" else 0.0,
                "p_block": rng.choice([0.0, 0.3, 0.7, 1.0]), "net": {"shuffle_select": rng.random() < 0.5}}
        if rng.random() < 0.3:
            plan["loop_leftover"] = True
        if rng.random() < 0.25:
            plan["taint"] = True        # methods write into the request annotations dict they are handed
        if rng.random() < 0.3:
            # the application overrides Daemon.annotations(): its own key travels with every reply, from a dict the
            # daemon keeps ("persistent") or builds per call ("fresh")
            plan["daemon_ann"] = rng.choice(["persistent", "fresh"])
        return plan

    def line_codes(self, plan):
        return _codes() if plan["servertype"] == "thread" else ()

    # ------------------------------------------------------------------
    def scenario(self, ctx):
        plan, sched, net = ctx.plan, ctx.sched, ctx.net
        config.SERIALIZER = plan["serializer"]
        config.SERVERTYPE = plan["servertype"]
        config.THREADPOOL_SIZE_MIN, config.THREADPOOL_SIZE = plan["pool"]
        config.COMMTIMEOUT = 0.0
        ctx.probe(plan["servertype"])

        # fault: the reply of a call marked "RSET" is never delivered - the connection is reset instead (the serving
        # thread's send may fail, the client sees a communication error and reconnects: nothing may leak into that)
        doomed = set()

        def c2s(pipe, k, info, raw):
            if info["type"] == N.MSG_INVOKE and "RSET" in info["ann"]:
                doomed.add((pipe.conn, info["seq"]))
            if info["type"] == N.MSG_INVOKE and "RSTQ" in info["ann"]:
                # the request is delivered, then the client's side resets the connection: the server can still read the
                # queued request bytes (Linux), but the socket is not connected any more (getpeername fails)
                pipe.deliver(raw)
                c, s_ = net.conns[pipe.conn]
                for x in (c, s_):
                    x.reset = True
                    if x.out is not None:
                        x.out.dead = True
                ctx.fault("reset_after_request")
                return None
            return True

        def s2c(pipe, k, info, raw):
            if info["type"] == N.MSG_RESULT and (pipe.conn, info["seq"]) in doomed:
                c, s_ = net.conns[pipe.conn]
                break_conn(c, s_)
                ctx.fault("reply_reset")
                return None
            return True

        install_script(net, c2s, s2c)

        dmode = plan.get("daemon_ann")

        class AnnDaemon(SV.Daemon):
            extra = {DAEMON_KEY: DAEMON_VAL}

            def annotations(self):
                return self.extra if dmode == "persistent" else dict(self.extra)

        if dmode:
            ctx.probe("daemon_annotations_hook")
            AnnDaemon.extra = {DAEMON_KEY: DAEMON_VAL}
        daemon = (AnnDaemon if dmode else SV.Daemon)(host="127.0.0.1", port=0)
        addr = daemon.transportServer.sock.getsockname()
        obj = CtxObj(sched, taint=bool(plan.get("taint")))
        if plan.get("taint"):
            ctx.probe("request_annotations_written_in_place")
        uri = daemon.register(obj, "o")
        obj._nested = nested = set()    # connection numbers of the nested calls that relay() makes to the second daemon
        obj._back_uri = None
        back = back_loop = None
        if any(c["kind"] == "relay" for cl in plan["clients"] for sess in cl["sessions"] for c in sess):
            back = SV.Daemon(host="127.0.0.1", port=0)
            obj._back_uri = back.register(BackObj(), "back")
            back_loop = threading.Thread(target=back.requestLoop, name="back-daemon-loop")
            back_loop.start()

        def serve():
            if plan.get("loop_leftover"):
                # the thread that runs the request loop was a client itself before ("register with the name server, then serve"):
                # its call context still holds the annotations of the last reply it received
                cctx.response_annotations = {"TOKN": b"session-token-of-the-serving-thread"}
                cctx.annotations = {"MYRQ": b"request-annotation-of-the-serving-thread"}
                ctx.probe("serving_thread_was_a_client")
            daemon.requestLoop()

        loop = threading.Thread(target=serve, name="daemon-loop")
        loop.start()
        ops = {}        # tok -> dict(kind, key, mutate, conn, seq, corr, seen)
        handshakes = [] # (conn, seen annotations after bind)
        crng_n = [0]

        def new_corr():
            crng_n[0] += 1
            return uuid.UUID(int=(plan["seed"] * 1000003 + crng_n[0]) & ((1 << 128) - 1), version=4)

        def bad_handshake(kind):
            import marshal
            body = marshal.dumps({"handshake": "hello", "object": "o"})
            kw = {}
            typ = N.MSG_CONNECT
            if kind == "wrongtype":
                typ = N.MSG_INVOKE
            elif kind == "badversion":
                kw["version"] = 503
            elif kind == "oversize":
                kw["dlen"] = 0x7fffffff
            elif kind == "annmismatch":
                kw["alen"] = 1
            sk = None
            try:
                sk = net.connect_raw(addr, timeout=5.0)
                sk.sendall(N.build_message(typ, 0, 0, N.SER_MARSHAL, body, **kw))
                while sk.recv(4096):
                    pass
            except OSError:
                pass
            finally:
                if sk is not None:
                    sk.close()      # always leave: a peer that stays for ever blocks a timeout-less multiplex server by design
            ctx.probe("bad_handshake")
            ctx.fault("bad_handshake:" + kind)

        def client(ci, cspec):
            if cspec["start"]:
                sched.sleep(cspec["start"])
            bad = cspec.get("bad_hs")
            for si, sess in enumerate(list(cspec["sessions"]) + [None]):
                if bad and bad["before"] == si:
                    bad_handshake(bad["kind"])
                if sess is None:
                    break
                p = None
                for attempt in range(400):
                    try:
                        cctx.annotations = {}
                        cctx.correlation_id = None
                        p = CL.Proxy(uri)
                        p._pyroBind()
                        break
                    except E.CommunicationError as x:
                        p = None
                        if "free workers" in str(x):
                            ctx.probe("pool_full_retry")
                        sched.sleep(0.05)
                if p is None:
                    return
                conn = p._pyroConnection.sock.conn
                handshakes.append((conn, {k: bytes(v) for k, v in cctx.response_annotations.items()}))
                for j, c in enumerate(sess):
                    tok = "c%ds%dj%d" % (ci, si, j)
                    kind = c["kind"]
                    if p._pyroConnection is None:
                        # the previous call's connection was dropped on purpose: connect again first (so that the request below
                        # is attributed to the new connection)
                        ok = False
                        for attempt in range(400):
                            try:
                                cctx.annotations = {}
                                cctx.correlation_id = None
                                p._pyroBind()
                                ok = True
                                break
                            except E.CommunicationError as x:
                                if "free workers" in str(x):
                                    ctx.probe("pool_full_retry")
                                sched.sleep(0.05)
                        if not ok:
                            return
                        conn = p._pyroConnection.sock.conn
                        handshakes.append((conn, {k: bytes(v) for k, v in cctx.response_annotations.items()}))
                    cctx.annotations = {"REQA": tok.encode()}
                    if c.get("reset_reply"):
                        cctx.annotations["RSET"] = b"1"
                    if c.get("reset_after_request") and kind == "ow":
                        cctx.annotations["RSTQ"] = b"1"
                    pad = "p" * c.get("pad", 0)
                    cctx.correlation_id = new_corr() if cspec["corr"] else None
                    rec = {"kind": kind, "key": c["key"], "mutate": c["mutate"], "conn": conn, "corr": cctx.correlation_id,
                           "laddr": p._pyroLocalSocket}
                    outcome = "ok"
                    try:
                        if kind == "bare":
                            # a request without any annotation and without a correlation id
                            cctx.annotations = {}
                            cctx.correlation_id = None
                            rec["corr"] = None
                            p.plain(tok)
                        elif kind == "plain":
                            p.plain(tok)
                        elif kind == "prop":
                            p.prop
                        elif kind == "ping":
                            PR.SendingMessage.ping(p._pyroConnection)
                        elif kind == "batch":
                            b = api.BatchProxy(p)
                            b.ret(tok, c["key"], c["mutate"])
                            b.plain(tok)
                            list(b())
                        elif kind == "stream":
                            n = c.get("n", 2)
                            it = p.items(tok, n, c.get("work", 0) / 4.0)
                            for i in range(n):
                                # every fetch is a request of its own (to the daemon's object) with its own annotations
                                ftok = "%s.i%d" % (tok, i)
                                cctx.annotations = {"REQA": ftok.encode()}
                                cctx.correlation_id = new_corr() if cspec["corr"] else None
                                frec = {"kind": "item", "key": None, "mutate": False, "conn": conn, "corr": cctx.correlation_id,
                                        "laddr": p._pyroLocalSocket, "outcome": "ok"}
                                if c["pause"]:
                                    sched.sleep(c["pause"])      # other clients' requests are served in between
                                try:
                                    next(it)
                                except E.CommunicationError as x:
                                    frec["outcome"] = "comm:%s" % type(x).__name__
                                frec["seq"] = p._pyroSeq
                                frec["seen"] = {k: bytes(v) for k, v in cctx.response_annotations.items()}
                                ops[ftok] = frec
                                ctx.probe("stream_item_context")
                            cctx.annotations = {"REQA": (tok + ".close").encode()}
                            it.close()
                            cctx.annotations = {"REQA": tok.encode()}
                        elif kind == "relay":
                            rec["ikey"] = "I" + c["key"][1:]
                            rec["own_after"] = bool(c.get("own_after"))
                            p.relay(tok, c["key"], c["mutate"], rec["ikey"], rec["own_after"])
                            ctx.probe("nested_call")
                        elif kind == "ow":
                            p.ow(tok, c["key"], c["mutate"], c.get("ow_delay", 0), pad)
                            if c.get("reset_after_request"):
                                # the connection is gone without the client having noticed yet: drop it, next call reconnects
                                ctx.probe("reset_after_oneway_request")
                                p._pyroRelease()
                        else:
                            getattr(p, kind)(tok, c["key"], c["mutate"], c.get("work", 0), pad)
                    except ValueError:
                        outcome = "raised"
                    except E.CommunicationError as x:
                        outcome = "comm:%s" % type(x).__name__
                    rec["outcome"] = outcome
                    rec["seq"] = p._pyroSeq if kind != "ping" else 0
                    rec["seen"] = {k: bytes(v) for k, v in cctx.response_annotations.items()} if kind != "ping" else None
                    ops[tok] = rec
                    if outcome.startswith("comm"):
                        if c.get("reset_reply"):
                            ctx.probe("reply_reset_then_reconnect")
                        break
                    if c["pause"]:
                        sched.sleep(c["pause"])
                p._pyroRelease()
                sched.sleep(0.01)

        ths = [threading.Thread(target=client, args=(i, c), name="client%d" % i) for i, c in enumerate(plan["clients"])]
        for t in ths:
            t.start()
        for t in ths:
            t.join(900.0)
        if any(sched.sim_thread_of(t).state != "done" for t in ths):
            lt = sched.sim_thread_of(loop)
            if lt.state == "done":
                ctx.disturbed = "daemon loop died: %r" % (lt.died,)
            else:
                ctx.violate("client-hung", "", "a client did not finish within 900 virtual seconds")
            return
        for t in ths:
            st = sched.sim_thread_of(t)
            if st.died:
                raise S.HarnessError("client thread died: %r" % (st.died,))
        sched.sleep(1.0)
        sched.settle(5.0)
        if sched.preempts:
            ctx.probe("preempted")
        if any(c.get("ow_delay") and c["kind"] == "ow" for cl in plan["clients"] for se in cl["sessions"] for c in se):
            ctx.probe("oneway_delayed")
        self._judge(ctx, plan, net, obj, ops, handshakes)

    # ------------------------------------------------------------------
    def _judge(self, ctx, plan, net, obj, ops, handshakes):
        reqs = {}      # (conn, seq) -> request info (last one wins; seq is unique per connection within a session)
        req_by_tok = {}
        for m in net.messages:
            if m["dir"] == "c2s" and m["type"] == N.MSG_INVOKE and m["conn"] not in obj._nested:
                # (a nested call that a gateway method makes carries the annotations of the request being served: by design)
                tok = m["ann"].get("REQA", b"").decode()
                reqs[(m["conn"], m["seq"])] = m
                req_by_tok[tok] = m
        setters = 0
        served_clients = set()
        # correlation ids: one per request.  A request without a client-chosen id gets a fresh one from the daemon,
        # so the id a method observes must never be the id of a different request.
        corr_owner = {}
        for tok, rec in ops.items():
            if rec["corr"] is not None:
                corr_owner[rec["corr"]] = tok
        for tok, snaps in obj._snaps.items():
            rec = ops.get(tok)
            if rec is None or rec["kind"] == "batch":
                continue
            for sn in snaps:
                c = sn["corr"]
                owner = corr_owner.setdefault(c, tok)
                if owner != tok:
                    ctx.violate("context-mismatch", "foreign-correlation-id", "%s observed correlation id %s which belongs to request %s"
                                % (tok, c, owner))
        # ---- (1) snapshots equal the invoking request
        for tok, rec in ops.items():
            kind = rec["kind"]
            if kind == "ping" or rec["outcome"].startswith("comm"):
                continue
            snaps = obj._snaps.get(tok, [])
            if kind == "prop":
                continue
            if not snaps:
                if kind == "ow":
                    ctx.violate("oneway-never-ran", "", "one-way call %s never ran" % tok)
                else:
                    ctx.violate("call-never-ran", kind, "call %s (%s) left no snapshot" % (tok, kind))
                continue
            served_clients.add(tok.split("s")[0])
            req = req_by_tok.get(tok)
            if req is None and kind == "bare":
                req = reqs.get((rec["conn"], rec["seq"]))
                ctx.probe("request_without_annotations")
            if req is None:
                raise S.HarnessError("middlebox did not see the request of %s" % tok)
            for sn in snaps:
                bad = []
                sent = {k: bytes(v) for k, v in req["ann"].items()}
                own_marks = (tok.encode(), tok.split(".i")[0].encode())
                seen_ann = {k: v for k, v in sn["ann"].items() if not (k.startswith("TNT") and v in own_marks)}
                if seen_ann != sent:
                    # exactly the annotations of the request: nothing missing, nothing left over from another request
                    bad.append("annotations %r (request carried %r)" % (seen_ann, sent))
                if sn["seq"] != req["seq"]:
                    bad.append("seq %r (request had %r)" % (sn["seq"], req["seq"]))
                if (sn["flags"] | N.FLAG_COMPRESSED) != (req["flags"] | N.FLAG_COMPRESSED):
                    bad.append("flags %r (request had %r)" % (sn["flags"], req["flags"]))
                if sn["ser"] != req["ser"]:
                    bad.append("serializer %r (request had %r)" % (sn["ser"], req["ser"]))
                if sn["conn"] != rec["conn"]:
                    bad.append("connection %r (request came on %r)" % (sn["conn"], rec["conn"]))
                if sn["addr"] is not None and tuple(sn["addr"]) != tuple(rec["laddr"] or ()):
                    # (None is allowed: the daemon documents that getpeername() can fail, e.g. after a reset)
                    bad.append("peer address %r (client is %r)" % (sn["addr"], rec["laddr"]))
                if sn["addr"] is None:
                    ctx.probe("peer_address_unavailable")
                if rec["corr"] is not None and sn["corr"] != rec["corr"]:
                    bad.append("correlation id %r (client sent %r)" % (sn["corr"], rec["corr"]))
                if bad:
                    ctx.violate("context-mismatch", kind, "%s(%s) observed %s" % (kind, tok, "; ".join(bad)))
            if kind in ("ret", "boom", "ow", "batch", "relay"):
                setters += 1
                ctx.probe("mutate_idiom" if rec["mutate"] else "assign_idiom")
            if kind == "boom":
                ctx.probe("raise_after_set")
            if kind == "ow" and rec["mutate"]:
                ctx.probe("oneway_mutate")
            if kind == "batch":
                ctx.probe("batch")
        for tok, rec in ops.items():
            if rec["kind"] == "ping":
                ctx.probe("ping")
            if rec["kind"] == "prop":
                ctx.probe("prop")
        ctx.nontrivial = len(served_clients) >= 2 and setters > 0
        # ---- (2) every server->client message carries only annotations set by the call it answers
        def own_key(k, v):
            """the daemon-wide annotation of the application's Daemon.annotations() hook is legitimate on every message"""
            return bool(plan.get("daemon_ann")) and k == DAEMON_KEY and bytes(v) == DAEMON_VAL

        replies = {}
        nested = obj._nested
        for m in net.messages:
            rec = None
            if m["dir"] != "s2c" or m["conn"] in nested:
                continue        # (the second daemon's answers to the nested calls are not judged here)
            custom = {k: v for k, v in m["ann"].items() if k not in PYRO_KEYS and not own_key(k, v)}
            allowed = {}
            what = {N.MSG_CONNECTOK: "CONNECTOK", N.MSG_CONNECTFAIL: "CONNECTFAIL", N.MSG_PING: "PING", N.MSG_RESULT: "RESULT"}.get(m["type"], str(m["type"]))
            if m["type"] == N.MSG_RESULT:
                req = reqs.get((m["conn"], m["seq"]))
                if req is not None:
                    tok = req["ann"].get("REQA", b"").decode()
                    rec = ops.get(tok)
                    if rec is not None and rec["kind"] in ("ret", "boom", "batch", "relay"):
                        allowed = {rec["key"]: tok.encode()}
                replies[(m["conn"], m["seq"])] = custom
            foreign = {k: v for k, v in custom.items() if allowed.get(k) != v}
            if foreign and m["type"] == N.MSG_RESULT and rec is not None and rec["kind"] == "relay" \
                    and foreign == {rec["ikey"]: (tok + ".in").encode()}:
                # the annotation that the INNER method set for its own reply (to the gateway method's proxy) travels on with the
                # outer reply: the serving thread's call context is also the context of the client calls that thread makes
                ctx.violate("nested-reply-annotation-forwarded", "relay", "%s(%s) made a nested call whose reply carried %r; that "
                            "annotation was sent on with the reply to %s's own caller (connection %d seq %d: %r; the method itself set %s)"
                            % (rec["kind"], tok, foreign, tok, m["conn"], m["seq"], custom,
                               ("%r after the nested call" if rec["own_after"] else "%r before it") % rec["key"]))
            elif foreign:
                ctx.violate("foreign-annotation-sent", what, "%s on connection %d seq %d carries %r (allowed %r)"
                            % (what, m["conn"], m["seq"], foreign, allowed))
        # worker reuse / handshake after raise probes
        conns = sorted({r["conn"] for r in ops.values()})
        if plan["servertype"] == "thread" and len(conns) > plan["pool"][1]:
            ctx.probe("worker_reuse")
        order = sorted(((m["stamp"], m) for m in net.messages if m["dir"] == "s2c"), key=lambda x: x[0])
        prev_exc = False
        for _, m in order:
            if m["type"] == N.MSG_CONNECTOK and prev_exc:
                ctx.probe("handshake_after_raise")
            if m["type"] == N.MSG_RESULT:
                prev_exc = bool(m["flags"] & N.FLAG_EXC)
        # ---- (3) the client observes exactly the annotations of its own reply
        call_keys = {r.get("key") for r in ops.values()} | {r.get("ikey") for r in ops.values()}
        for tok, rec in ops.items():
            if rec["kind"] == "ping":
                continue
            seen = {k: v for k, v in (rec["seen"] or {}).items() if k not in PYRO_KEYS and not own_key(k, v)}
            if rec["outcome"].startswith("comm"):
                # a call that got no reply (the reply was replaced by a reset): whatever the client sees afterwards, it cannot be
                # an annotation that some call's reply carried - this call had no reply
                stale = sorted(k for k in seen if k in call_keys)
                ctx.probe("failed_call_annotations_looked_at")
                if stale:
                    ctx.violate("client-sees-foreign-annotation", "after-failed-call", "%s(%s) failed with %s without a reply, afterwards "
                                "the client sees %r: the annotations of an earlier call's reply" % (rec["kind"], tok, rec["outcome"], seen))
                continue
            if rec["kind"] == "ow":
                expect = {}
            else:
                expect = replies.get((rec["conn"], rec["seq"]))
                if expect is None:
                    continue
            if seen != expect:
                ctx.violate("client-sees-foreign-annotation", rec["kind"], "after %s(%s) the client sees %r, its reply carried %r"
                            % (rec["kind"], tok, seen, expect))
        for conn, seen in handshakes:
            seen = {k: v for k, v in seen.items() if k not in PYRO_KEYS and not own_key(k, v)}
            if seen:
                ctx.violate("client-sees-foreign-annotation", "handshake", "after connecting (connection %d) the client sees %r" % (conn, seen))


WORLD = CtxWorld()
