"""C14 - the name server is a faithful map on both storage back-ends, also across reopen, failed
statements and crashes.

Single-threaded world.  One run = one operation history over a colliding alphabet of names / tags.

configuration A (fault free):  reference map, NameServer(MemoryStorage) and NameServer(SqlStorage(file))
    execute the history in lockstep; the normalised outcome of every operation and, after every mutating
    operation or reopen, the full listing must agree three ways.
configuration B (fault enumeration): the same lockstep, and around every mutating operation the sqlite
    facade counts the statements (execute / effective commit) it issues; then for EVERY statement index k
    the database file is put back to its pre-operation image and the operation is repeated (a) with
    sqlite3.OperationalError raised at statement k and (b) with a crash just before statement k (database +
    rollback journal are copied at that instant and the copy is opened).

The sqlite facade replaces the module attribute ``sqlite3`` of Pyro5.nameserver for the duration of one run.
"""
import gc
import os
import re
import shutil
import sqlite3 as _sqlite3
import tempfile

from ..world import World
from .. import sched as S
from ..seams import NS
import Pyro5.core
import Pyro5.errors

NSNAME = Pyro5.core.NAMESERVER_NAME
SCRATCH = "/dev/shm" if os.path.isdir("/dev/shm") else None

NAMES = ["a", "A", "a_b", "axb", "a%", "a.b", "ab", "é", "éa", "", NSNAME, "a+", "a(", "A_B", "a%b"]
PREFIXES = ["a", "A", "a_", "a%", "a.", "é", "É", "P", "p", "Pyro.", "pyro.", "", "b"]
REGEXES = ["a", "A", "a.", "a\\.b", "^a", "a$", ".*", ".", "a|é", "(", "[a", "a(", "a+", "a\\+", "a\\(",
           "Pyro\\..*", "(?i)a", "é", "a%", "a_b$", "", "*"]
TAGS = ["t", "T", "t_", "t%", "", "u"]
# names / tags that AS A WHOLE read as a number to something that is not strictly textual (column type affinity,
# int()/float() conversion): families that collide numerically but are different strings
NUM_NAMES = ["42", "042", "0042", "4.2e1", "42.0", "1e3", "1000", "1_000", "3.1", "3.10", "-7", "+7", "7", "0x10", "16",
             " 42", "42 ", "inf", "nan", "1e999", ".5", "0.5", "\u0664\u0662", "\uff14\uff12", NSNAME]
NUM_PREFIXES = ["4", "04", "42", "0", "1", "1e", "3.1", "-", "+", " ", ".", "\u0664", ""]
NUM_REGEXES = ["\\d+", "\\d+$", "0*42", "4.*", "[0-9.]+$", "42", "1e3", "-?7", ".*", "\\s*42", "[+-]", "(?a)\\d+$", "("]
NUM_TAGS = ["42", "042", "3.1", "3.10", "1e3", "1000", "-7", "+7", "7", " 42", "\u0664\u0662", "t", ""]
# names / tags beyond the basic multilingual plane and around the places where code-point order, UTF-8 / UTF-16 order, case
# folding and normalisation disagree (a range query, a collation or a folding comparison in a back-end shows here)
UNI_NAMES = ["a", "a\U0001F600", "a\U00010000b", "a\uffff", "a\ufffd", "a\ud7ff", "a\u00e9", "ae\u0301", "\u00e9", "e\u0301", "\u00c9",
             "\u00df", "ss", "\u0131", "I", "i", "\u212a", "K", "k", "a\x00b", "a\x00", "\U0001F600", "\U0001F600a", "a\x7f", NSNAME]
UNI_PREFIXES = ["a", "a\U0001F600", "a\U00010000", "a\uffff", "a\x00", "\U0001F600", "e", "\u00e9", "k", "K", "\u212a", "s", "\u00df",
                "i", "I", "a\ud7ff", "ae", ""]
UNI_REGEXES = ["a.", "a.b", "a.$", "k", "(?i)k", "(?i)ss", "\u00e9", "e.", "a\x00", "a[\U00010000-\U0010ffff]", "a\\W", ".*", "[^a]", "("]
UNI_TAGS = ["t", "\U0001F600", "K", "\u212a", "k", "t\x00u", "\u00e9", "e\u0301", ""]
MUTATING = ("register", "register-safe", "remove-name", "remove-prefix", "remove-regex", "set_metadata")


# ------------------------------------------------------------------------------------------ sqlite facade
class _Crash(BaseException):
    """the process 'dies' just before a statement (BaseException: no Pyro5 handler may swallow it)"""


def _verb(sql):
    return sql.split(None, 1)[0].upper() if sql.strip() else ""


class _Cursor:
    def __init__(self, real, fac):
        self._r = real
        self._f = fac

    def execute(self, sql, *a):
        self._f.stmt(_verb(sql))
        self._r.execute(sql, *a)
        return self

    def fetchone(self):
        return self._r.fetchone()

    def fetchall(self):
        return self._r.fetchall()

    def __iter__(self):
        return iter(self._r)

    @property
    def lastrowid(self):
        return self._r.lastrowid

    def close(self):
        self._r.close()

    def __getattr__(self, n):
        return getattr(self._r, n)


class _Connection:
    """counts / fails execute and commit; context manager semantics of sqlite3.Connection
    (commit on success, rollback on exception, never closes)"""

    def __init__(self, real, fac):
        self._r = real
        self._f = fac

    def execute(self, sql, *a):
        self._f.stmt(_verb(sql))
        return self._r.execute(sql, *a)

    def cursor(self):
        return _Cursor(self._r.cursor(), self._f)

    def commit(self):
        # a commit without an open transaction executes no statement in the sqlite3 module: not a failure point
        if self._r.in_transaction:
            self._f.stmt("COMMIT")
        self._r.commit()

    def rollback(self):
        self._r.rollback()

    def close(self):
        self._r.close()

    def __enter__(self):
        return self

    def __exit__(self, et, ev, tb):
        if et is None:
            try:
                self.commit()
            except BaseException:
                self._r.rollback()
                raise
        else:
            self._r.rollback()
        return False

    def __getattr__(self, n):
        return getattr(self._r, n)


class _SqliteFacade:
    """stands in for the name ``sqlite3`` inside Pyro5.nameserver"""

    def __init__(self):
        self.mode = "off"
        self.k = -1
        self.log = []
        self.fired = False
        self.on_crash = None

    def __getattr__(self, n):            # exception classes, constants ...: the real module
        return getattr(_sqlite3, n)

    def connect(self, *a, **kw):
        return _Connection(_sqlite3.connect(*a, **kw), self)

    def arm(self, mode, k=-1, on_crash=None):
        self.mode, self.k, self.on_crash = mode, k, on_crash
        self.log = []
        self.fired = False

    def disarm(self):
        self.mode = "off"
        self.on_crash = None
        return self.log

    def stmt(self, what):
        if self.mode == "off":
            return
        i = len(self.log)
        self.log.append(what)
        if i == self.k and not self.fired:
            self.fired = True
            if self.mode == "fail":
                raise _sqlite3.OperationalError("injected failure of statement %d (%s)" % (i, what))
            if self.mode == "crash":
                self.on_crash()
                raise _Crash()


# ------------------------------------------------------------------------------------------ helpers
def _norm(x):
    if isinstance(x, Pyro5.core.URI):
        return str(x)
    if isinstance(x, (set, frozenset)):
        return frozenset(x)
    if isinstance(x, tuple):
        return tuple(_norm(i) for i in x)
    if isinstance(x, list):
        return [_norm(i) for i in x]
    if isinstance(x, dict):
        return {k: _norm(v) for k, v in x.items()}
    return x


def _canon(x):
    """hash-order free text of a normalised value"""
    if isinstance(x, frozenset):
        return "{" + ",".join(sorted(_canon(i) for i in x)) + "}"
    if isinstance(x, dict):
        return "{" + ",".join(sorted("%s:%s" % (_canon(k), _canon(v)) for k, v in x.items())) + "}"
    if isinstance(x, (tuple, list)):
        return "(" + ",".join(_canon(i) for i in x) + ")"
    return repr(x)


def _outcome(fn):
    try:
        return ("ok", _norm(fn()))
    except _Crash:
        raise
    except Exception as x:  # noqa - the class is the observation
        return ("exc", type(x).__name__)


def _kind(op):
    k = op["op"]
    if k == "register":
        return "register-safe" if op.get("safe") else "register"
    if k == "remove":
        return "remove-" + op["by"]
    if k == "list":
        return "list" if op["by"] == "none" else "list-" + op["by"]
    if k == "yplookup":
        return "yplookup-" + op["mode"]
    return k


def _meta_arg(op):
    m = op.get("meta")
    if m is None:
        return None
    t = op.get("mtype", "list")
    if t == "set":
        return set(m)
    if t == "tuple":
        return tuple(m)
    return list(m)


def _call(ns, op):
    k = op["op"]
    if k == "register":
        uri = Pyro5.core.URI(op["uri"]) if op.get("as_uri") else op["uri"]
        return ns.register(op["name"], uri, safe=bool(op.get("safe")), metadata=_meta_arg(op))
    if k == "set_metadata":
        return ns.set_metadata(op["name"], _meta_arg(op))
    if k == "remove":
        return ns.remove(**{op["by"]: op["arg"]})
    if k == "lookup":
        return ns.lookup(op["name"], return_metadata=bool(op.get("rm")))
    if k == "list":
        kw = {} if op["by"] == "none" else {op["by"]: op["arg"]}
        return ns.list(return_metadata=bool(op.get("rm")), **kw)
    if k == "yplookup":
        kw = {"meta_all": list(op["tags"])} if op["mode"] == "all" else {"meta_any": list(op["tags"])}
        return ns.yplookup(return_metadata=bool(op.get("rm")), **kw)
    if k == "count":
        return ns.count()
    raise ValueError(k)


def _listing(ns):
    return _outcome(lambda: ns.list(return_metadata=True))


# ------------------------------------------------------------------------------------------ reference map
_NE = ("exc", "NamingError")


def _select(m, by, arg):
    """names selected by a prefix / regex; a falsy selector means 'not given' = everything"""
    if by == "prefix" and arg:
        return [n for n in m if n.startswith(arg)]
    if by == "regex" and arg:
        rx = re.compile(arg)             # re.error -> caller
        return [n for n in m if rx.match(n)]
    return list(m)


def model_apply(m, op):
    """m: dict name -> (uri, frozenset(tags)), updated in place; returns the normalised outcome"""
    k = op["op"]
    if k == "register":
        if op.get("safe") and op["name"] in m:
            return _NE
        m[op["name"]] = (op["uri"], frozenset(op.get("meta") or ()))
        return ("ok", None)
    if k == "set_metadata":
        if op["name"] not in m:
            return _NE
        m[op["name"]] = (m[op["name"]][0], frozenset(op.get("meta") or ()))
        return ("ok", None)
    if k == "remove":
        by, arg = op["by"], op["arg"]
        if not arg:
            return ("ok", 0)
        if by == "name":
            if arg in m and arg != NSNAME:
                del m[arg]
                return ("ok", 1)
            return ("ok", 0)
        try:
            hit = [n for n in _select(m, by, arg) if n != NSNAME]
        except re.error:
            return _NE
        for n in hit:
            del m[n]
        return ("ok", len(hit))
    if k == "lookup":
        if op["name"] not in m:
            return _NE
        return ("ok", m[op["name"]] if op.get("rm") else m[op["name"]][0])
    if k == "list":
        try:
            sel = _select(m, op["by"], op.get("arg"))
        except re.error:
            return _NE
        return ("ok", {n: (m[n] if op.get("rm") else m[n][0]) for n in sel})
    if k == "yplookup":
        tags = frozenset(op["tags"])
        if not op["tags"]:
            sel = []
        elif op["mode"] == "all":
            sel = [n for n, (u, t) in m.items() if tags <= t]
        else:
            sel = [n for n, (u, t) in m.items() if tags & t]
        return ("ok", {n: (m[n] if op.get("rm") else m[n][0]) for n in sel})
    if k == "count":
        return ("ok", len(m))
    raise ValueError(k)


def _numval(s):
    """the number a sloppy reader would take the whole string for (None: it is no numeric literal)"""
    try:
        v = float(s)
    except ValueError:
        return None
    return v if v == v else "nan"


def _ascii_lower(s):
    return "".join(chr(ord(c) + 32) if "A" <= c <= "Z" else c for c in s)


def _prefix_causes(prefix, extra):
    """why did the sqlite back-end select these names although they do not start with prefix?"""
    causes = set()
    for n in extra:
        if not isinstance(n, str):
            causes.add(None)
        elif _ascii_lower(n).startswith(_ascii_lower(prefix)):
            causes.add("prefix-case")
        elif "_" in prefix or "%" in prefix:
            causes.add("prefix-wildcard")
        else:
            causes.add(None)
    return causes


def _own(op):
    """the single name a mutating operation is about (None for prefix / regex removal)"""
    if op["op"] in ("register", "set_metadata"):
        return op["name"]
    if op["op"] == "remove" and op["by"] == "name":
        return op["arg"]
    return None


def _touch(touched, op):
    for f in ("name", "arg"):
        if isinstance(op.get(f), str) and (f == "name" or op.get("by") == "name"):
            touched.add(op[f])


def _own_tags(op, before):
    own = _own(op)
    if own is None:
        return []
    return sorted(set(op.get("meta") or ()) | set(before[own][1] if own in before else ()))


def _expected_answers(state, touched, plain, tags):
    """what a live name server holding exactly the map `state` answers to the interrogation
    (lookup with metadata of every name in touched, lookup without metadata of every name in plain)"""
    a = {"list": ("ok", dict(state)), "count": ("ok", len(state))}
    for n in touched:
        a["lookup+meta " + repr(n)] = ("ok", state[n]) if n in state else _NE
    for n in plain:
        a["lookup " + repr(n)] = ("ok", state[n][0]) if n in state else _NE
    if tags:
        ts = frozenset(tags)
        a["yplookup-any"] = ("ok", {n: v for n, v in state.items() if ts & v[1]})
    return a


def _interrogate(ns, touched, plain, tags, listing=None):
    """ask the live name server instance (no reopen): full listing, count, lookups, yplookup"""
    a = {"list": listing if listing is not None else _listing(ns), "count": _outcome(ns.count)}
    for n in touched:
        a["lookup+meta " + repr(n)] = _outcome(lambda: ns.lookup(n, return_metadata=True))
    for n in plain:
        a["lookup " + repr(n)] = _outcome(lambda: ns.lookup(n))
    if tags:
        a["yplookup-any"] = _outcome(lambda: ns.yplookup(meta_any=list(tags), return_metadata=True))
    return a


def _lookup_list_disagree(a, touched):
    """names for which lookup and list of the same live instance contradict each other"""
    if a["list"][0] != "ok" or not isinstance(a["list"][1], dict):
        return []
    lst = a["list"][1]
    bad = []
    for n in sorted(touched):
        lk = a["lookup+meta " + repr(n)]
        if (lk == _NE and n not in lst) or (lk[0] == "ok" and n in lst and lk[1] == lst[n]):
            continue
        bad.append(n)
    return bad


def _answers_diff(a, b):
    return "; ".join("%s: %s vs %s" % (k, _canon(a[k]), _canon(b.get(k))) for k in sorted(a) if a[k] != b.get(k))


# ------------------------------------------------------------------------------------------ the world
class NsModelWorld(World):
    PROPERTY = "C14"
    NAME = "nsmodel"
    LEVEL = "fault_enumeration"
    THREADED = False
    REAL = ["Pyro5.nameserver.NameServer", "Pyro5.nameserver.MemoryStorage",
            "Pyro5.nameserver.SqlStorage over the real sqlite3 library on a real database file (tmpfs)",
            "Pyro5.core.URI", "re"]
    STUB = ["module attribute Pyro5.nameserver.sqlite3 -> pass-through facade that counts execute()/commit() and can "
            "raise OperationalError at, or 'crash' before, statement k", "threading.RLock (simulated, single thread)",
            "callers invoke NameServer methods directly (no wire, no serializer)"]
    PROBES = ["reopen", "stmt_fail", "crash_point", "commit_fail", "ns_entry_protected", "regex_remove", "prefix_remove",
              "yplookup_all", "yplookup_any", "unicode_name", "wildcard_prefix", "case_pair", "duplicate_tags",
              "invalid_regex", "numeric_name", "numeric_collision", "numeric_tag", "bulk_fill", "fault_points_sampled"]
    RULE = ("0.6% of the plans (thorough 1.2%) are 'bulk' histories: 130-1001 entries under one prefix, then removals by prefix / regex and "
            "listings over them; in configuration B a spread sample of ~24 of their (up to 3000) statements serves as failure / crash "
            "points instead of every one. Otherwise: plan = (configuration A|B, history of 6-14 (A) / 3-7 (B) operations over 3-7 names drawn from a colliding "
            "alphabet: case pairs, SQL wildcards, regex metacharacters, unicode, empty string, the name server's own "
            "name, or (28% of the plans) strings that as a whole are numeric literals colliding by value ('42','042','4.2e1',"
            "'1e3','1000','3.1','3.10','+7',' 42', unicode digits, inf, nan ...), 10% both; tags likewise with duplicates). A: model, memory and sqlite in lockstep, outcome of every operation "
            "and full listing after every mutation compared three ways. B: additionally every statement of every "
            "mutating operation is a failure point and a crash point (database restored to the pre-operation image "
            "each time). distinct = distinct plan; non-trivial = A: at least one mutation and one query were compared, "
            "B: at least one failure / crash point fired")
    ASSUMPTIONS = ["a failure point is a call of execute() or of an effective commit() (transaction open) made by SqlStorage; "
                   "connect() itself and fetch*() do not fail",
                   "a crash is a process crash at a statement boundary: what the process wrote to the database file and its "
                   "rollback journal is what the next opener sees (no torn pages, no lost fsync)",
                   "selectors that are falsy ('' / empty list) mean 'not given'",
                   "metadata collections contain only str; URIs are valid PYRO URIs",
                   "remove() is called with exactly one selector"]
    QUICK_RUNS = 6000
    CHUNK = 150
    SHRINK_LISTS = ["ops"]

    # ---------------------------------------------------------------- plans
    def gen(self, rng, tier):
        cfg = "B" if rng.random() < 0.25 else "A"
        # alphabet family of this history: textual collisions, numeric-literal collisions, or both
        r = rng.random()
        if r < 0.55:
            pool = {"names": NAMES, "prefixes": PREFIXES, "regexes": REGEXES, "tags": TAGS}
        elif r < 0.78:
            pool = {"names": NUM_NAMES, "prefixes": NUM_PREFIXES, "regexes": NUM_REGEXES, "tags": NUM_TAGS}
        elif r < 0.9:
            pool = {"names": UNI_NAMES, "prefixes": UNI_PREFIXES, "regexes": UNI_REGEXES, "tags": UNI_TAGS}
        else:
            pool = {"names": NAMES + NUM_NAMES[:-1], "prefixes": PREFIXES + NUM_PREFIXES, "regexes": REGEXES + NUM_REGEXES,
                    "tags": TAGS + NUM_TAGS[:-2]}
        if rng.random() < (0.012 if tier == "thorough" else 0.006):
            # 'bulk' history: hundreds of entries under one prefix (sizes around round numbers: a back-end that works in batches,
            # builds one statement for all of them or keeps a bounded cache shows here), then removals / listings over them
            n = rng.choice([130, 501, 513, 1001] if tier == "thorough" else [130, 501, 513])
            tail = []
            for _ in range(rng.randint(1, 2)):
                tail.append(rng.choice([{"op": "remove", "by": "prefix", "arg": "blk."}, {"op": "remove", "by": "regex", "arg": "blk\\.\\d+$"},
                                        {"op": "remove", "by": "prefix", "arg": "blk.00"}, {"op": "remove", "by": "prefix", "arg": "blk.05"}]))
                tail.append(rng.choice([{"op": "count"}, {"op": "list", "by": "prefix", "arg": "blk.", "rm": False},
                                        {"op": "yplookup", "mode": "any", "tags": ["bt"], "rm": False}]))
            return {"config": cfg, "bulk": True,
                    "ops": [{"op": "register", "name": "a", "uri": "PYRO:o0@h:1", "safe": False, "meta": None},
                            {"op": "fill", "prefix": "blk.", "n": n, "tag": rng.choice([None, "bt"])}] + tail}
        names = rng.sample(pool["names"], rng.randint(3, 6))
        if rng.random() < 0.35 and NSNAME not in names:
            names.append(NSNAME)
        nops = rng.randint(6, 14) if cfg == "A" else rng.randint(3, 7)
        nreg = rng.randint(1, 3)
        ops = [self._gen_op(rng, names, cfg, i < nreg, pool) for i in range(nops)]
        return {"config": cfg, "ops": ops}

    @staticmethod
    def _gen_op(rng, names, cfg, force_register, pool):
        NAMES, PREFIXES, REGEXES, TAGS = pool["names"], pool["prefixes"], pool["regexes"], pool["tags"]

        def name():
            return rng.choice(names) if rng.random() < 0.9 else rng.choice(NAMES)

        def tags(lo=0):
            return [rng.choice(TAGS) for _ in range(rng.randint(lo, 3))]

        def meta():
            if rng.random() < 0.2:
                return None, "list"
            return tags(), rng.choice(["list", "set", "tuple"])

        def prefix():
            r = rng.random()
            if r < 0.5:
                n = rng.choice(names)
                return n[:rng.randint(1, max(1, len(n)))] if rng.random() < 0.7 else n
            return rng.choice(PREFIXES)

        def regex():
            return rng.choice(names) if rng.random() < 0.25 else rng.choice(REGEXES)

        if cfg == "A":
            w = [("register", 28), ("remove", 16), ("set_metadata", 8), ("lookup", 10), ("list", 14), ("yplookup", 14),
                 ("count", 4), ("reopen", 6)]
        else:
            w = [("register", 36), ("remove", 30), ("set_metadata", 14), ("lookup", 4), ("list", 6), ("yplookup", 4),
                 ("count", 2), ("reopen", 4)]
        k = "register" if force_register else rng.choices([x for x, _ in w], [y for _, y in w])[0]
        if k == "register":
            m, t = meta()
            return {"op": k, "name": name(), "uri": "PYRO:o%d@h:%d" % (rng.randint(1, 3), rng.randint(1, 3)),
                    "safe": (not force_register) and rng.random() < 0.35, "meta": m, "mtype": t,
                    "as_uri": rng.random() < 0.15}
        if k == "remove":
            by = rng.choices(["name", "prefix", "regex"], [40, 35, 25])[0]
            return {"op": k, "by": by, "arg": name() if by == "name" else prefix() if by == "prefix" else regex()}
        if k == "set_metadata":
            m, t = meta()
            return {"op": k, "name": name(), "meta": m, "mtype": t}
        if k == "lookup":
            return {"op": k, "name": name(), "rm": rng.random() < 0.5}
        if k == "list":
            by = rng.choices(["none", "prefix", "regex"], [20, 50, 30])[0]
            return {"op": k, "by": by, "arg": None if by == "none" else prefix() if by == "prefix" else regex(),
                    "rm": rng.random() < 0.5}
        if k == "yplookup":
            return {"op": k, "mode": rng.choice(["all", "any"]), "tags": tags(0 if rng.random() < 0.1 else 1),
                    "rm": rng.random() < 0.6}
        return {"op": k}

    def simplify(self, plan):
        if plan.get("config") == "B":
            p = dict(plan)
            p["config"] = "A"
            yield p
        for i, op in enumerate(plan["ops"]):
            cands = [(f, v) for f, v in (("as_uri", False), ("mtype", "list"), ("rm", False), ("safe", False), ("meta", None))
                     if f in op and op[f] != v]
            m = op.get("meta") or op.get("tags")
            if m and len(m) > 1:
                f = "meta" if op.get("meta") else "tags"
                cands += [(f, m[:j] + m[j + 1:]) for j in range(len(m))]
            for f, v in cands:
                p = dict(plan)
                p["ops"] = [dict(o) for o in plan["ops"]]
                p["ops"][i][f] = v
                yield p

    # ---------------------------------------------------------------- one run
    def scenario(self, ctx):
        tmp = tempfile.mkdtemp(prefix="pyro5dst-c14-", dir=SCRATCH)
        fac = _SqliteFacade()
        real = NS.sqlite3
        NS.sqlite3 = fac
        try:
            self._history(ctx, ctx.plan, tmp, fac)
        finally:
            NS.sqlite3 = real
            shutil.rmtree(tmp, ignore_errors=True)

    def _history(self, ctx, plan, tmp, fac):
        path = os.path.join(tmp, "ns.db")
        faulty = plan.get("config") == "B"
        model = {}
        mem = NS.NameServer(NS.MemoryStorage())
        sql = NS.NameServer(NS.SqlStorage(path))
        n_mut = n_query = 0
        touched = set()
        for i, op in enumerate(plan["ops"]):
            kind = _kind(op)
            _touch(touched, op)
            if kind == "fill":
                # set-up step of the 'bulk' histories: many entries under one prefix, put into the map and both back-ends
                # through register(); not judged by itself
                ctx.probe("bulk_fill")
                ctx.sched.ev("op", i, kind, op["n"])
                for j in range(op["n"]):
                    name, uri = "%s%04d" % (op["prefix"], j), "PYRO:f%d@h:1" % j
                    meta = [op["tag"]] if op.get("tag") and j % 3 == 0 else None
                    model[name] = (uri, frozenset(meta or ()))
                    mem.register(name, uri, metadata=meta)
                    sql.register(name, uri, metadata=meta)
                continue
            if kind == "reopen":
                ctx.probe("reopen")
                ctx.sched.ev("op", i, kind)
                sql = NS.NameServer(NS.SqlStorage(path))
                l_model, l_mem, l_sql = ("ok", dict(model)), _listing(mem), _listing(sql)
                if l_sql != l_model:
                    ctx.violate("reopen-lost-data", "reopen", "after reopen #%d the sqlite listing is %s, the map is %s"
                                % (i, _canon(l_sql), _canon(l_model)))
                    return
                continue
            if plan.get("bulk"):
                gc.collect()
            mutating = kind in MUTATING
            before = dict(model)
            expect = model_apply(model, op)
            self._probes(ctx, op, kind, before, model, expect)
            ctx.sched.ev("op", i, kind, _canon(expect))
            pre = self._read(path) if faulty and mutating else None
            o_mem = _outcome(lambda: _call(mem, op))
            fac.arm("count")
            try:
                o_sql = _outcome(lambda: _call(sql, op))
            finally:
                stmts = list(fac.disarm())
            if not mutating:
                n_query += 1
                if o_mem != o_sql:
                    for key in self._classify_query(kind, op, before, o_mem, o_sql, sql):
                        ctx.violate("backend-divergence", key, "%s %s on %s: memory=%s sqlite=%s map=%s" % (
                            kind, self._args(op), _canon(before), _canon(o_mem), _canon(o_sql), _canon(expect)))
                elif o_mem != expect:
                    ctx.violate("model-divergence", kind, "%s %s on %s: both back-ends=%s map=%s" % (
                        kind, self._args(op), _canon(before), _canon(o_mem), _canon(expect)))
                continue
            n_mut += 1
            l_model, l_mem, l_sql = ("ok", dict(model)), _listing(mem), _listing(sql)
            if (o_mem, l_mem) != (o_sql, l_sql):
                for key in self._classify_mutation(kind, op, before, o_mem, l_mem, o_sql, l_sql, expect, l_model):
                    ctx.violate("backend-divergence", key, "%s %s on %s: memory=%s then %s; sqlite=%s then %s; map=%s then %s" % (
                        kind, self._args(op), _canon(before), _canon(o_mem), _canon(l_mem), _canon(o_sql), _canon(l_sql),
                        _canon(expect), _canon(l_model)))
                if not (l_mem == l_sql == l_model):
                    break
                continue
            if (o_mem, l_mem) != (expect, l_model):
                ctx.violate("model-divergence", kind, "%s %s on %s: both back-ends=%s then %s; map=%s then %s" % (
                    kind, self._args(op), _canon(before), _canon(o_mem), _canon(l_mem), _canon(expect), _canon(l_model)))
                if l_mem != l_model:
                    break
                continue
            # the live instances (no reopen) answer lookup / count / yplookup like the map after the operation
            tags = _own_tags(op, before)
            names = sorted(touched)
            # lookup without metadata: the names the operation is about (named by it, or changed by it)
            plain = sorted(set(n for n in set(before) | set(model) if before.get(n) != model.get(n))
                           | ({_own(op)} if _own(op) is not None else set()))
            a_model = _expected_answers(model, names, plain, tags)
            a_mem, a_sql = _interrogate(mem, names, plain, tags, l_mem), _interrogate(sql, names, plain, tags, l_sql)
            for who, a in (("memory", a_mem), ("sqlite", a_sql)):
                bad = _lookup_list_disagree(a, names)
                if bad:
                    ctx.violate("lookup-list-disagree", kind, "after %s %s on %s the %s name server's lookup and list disagree on %s: %s"
                                % (kind, self._args(op), _canon(before), who, bad, _answers_diff(a, a_model)))
            if a_mem != a_sql:
                ctx.violate("backend-divergence", kind, "after %s %s on %s the live name servers answer differently (memory vs sqlite): %s"
                            % (kind, self._args(op), _canon(before), _answers_diff(a_mem, a_sql)))
                break
            if a_mem != a_model:
                ctx.violate("model-divergence", kind, "after %s %s on %s both live name servers deviate from the map (back-ends vs map): %s"
                            % (kind, self._args(op), _canon(before), _answers_diff(a_mem, a_model)))
                break
            if faulty:
                ctx.sched.ev("stmts", i, tuple(stmts))
                if not self._fault_points(ctx, fac, tmp, path, op, kind, pre, stmts, before, dict(model), names, plain, tags):
                    break
        if faulty:
            ctx.nontrivial = bool(ctx.faults)
        else:
            ctx.nontrivial = n_mut > 0 and n_query > 0

    # ---------------------------------------------------------------- fault / crash enumeration of one operation
    @staticmethod
    def _read(path):
        with open(path, "rb") as f:
            return f.read()

    @staticmethod
    def _restore(path, data):
        for sfx in ("-journal", "-wal", "-shm"):
            try:
                os.unlink(path + sfx)
            except FileNotFoundError:
                pass
        with open(path, "wb") as f:
            f.write(data)

    def _fault_points(self, ctx, fac, tmp, path, op, kind, pre, stmts, before, after, names, plain, tags):
        """returns False if the history cannot be continued"""
        post = self._read(path)
        l_before, l_after = ("ok", before), ("ok", after)
        # a completed operation is visible to a new opener
        ctx.probe("reopen")
        l = _listing(NS.NameServer(NS.SqlStorage(path)))
        if l != l_after:
            ctx.violate("reopen-lost-data", kind, "%s %s completed on %s; a new SqlStorage on the file lists %s, expected %s"
                        % (kind, self._args(op), _canon(before), _canon(l), _canon(l_after)))
            return False
        commits = [j for j, s in enumerate(stmts) if s == "COMMIT"]
        a_before = _expected_answers(before, names, plain, tags)
        ok = True
        # (an operation over hundreds of entries issues thousands of statements: then a spread sample of them - the first and the
        #  last few, and evenly spaced ones in between - instead of every one)
        points = list(range(len(stmts)))
        if len(points) > 48:
            step = max(1, len(points) // 14)
            points = sorted(set(points[:4]) | set(points[-6:]) | set(points[::step]))
            ctx.probe("fault_points_sampled")
        # ---- (a) statement k raises sqlite3.OperationalError
        bulk = len(stmts) > 48
        for k in points:
            if bulk:
                # sqlite3 connections that SqlStorage leaves to the garbage collector are part of reference cycles; the collector is
                # off during a run, and an operation over a thousand names opens a thousand of them (descriptor limit)
                gc.collect()
            self._restore(path, pre)
            ns = NS.NameServer(NS.SqlStorage(path))
            for n in names:                     # a live server has answered lookups before (matters if the storage caches)
                _outcome(lambda: ns.lookup(n, return_metadata=True))
            fac.arm("fail", k)
            try:
                out = _outcome(lambda: _call(ns, op))
            finally:
                fac.disarm()
            if not fac.fired:
                raise S.HarnessError("failure point %d of %s never reached (statements %s)" % (k, kind, stmts))
            ctx.fault("stmt_fail")
            ctx.probe("stmt_fail")
            if stmts[k] == "COMMIT":
                ctx.fault("commit_fail")
                ctx.probe("commit_fail")
            if out != _NE:
                ctx.violate("failed-op-no-namingerror", kind, "%s %s on %s with statement %d/%d (%s) failing: outcome %s, expected NamingError"
                            % (kind, self._args(op), _canon(before), k, len(stmts), stmts[k], _canon(out)))
                ok = False
            # the live instance that executed the failed operation still answers like the map before it
            a = _interrogate(ns, names, plain, tags)
            bad = _lookup_list_disagree(a, names)
            if bad:
                ctx.violate("lookup-list-disagree", kind, "%s %s on %s with statement %d/%d (%s) failing: lookup and list of the live name server disagree on %s: %s"
                            % (kind, self._args(op), _canon(before), k, len(stmts), stmts[k], bad, _answers_diff(a, a_before)))
                ok = False
            if a != a_before:
                ctx.violate("failed-op-visible-in-live-server", kind, "%s %s on %s with statement %d/%d (%s) failing: live name server vs map before the operation: %s"
                            % (kind, self._args(op), _canon(before), k, len(stmts), stmts[k], _answers_diff(a, a_before)))
                ok = False
            l = _listing(NS.NameServer(NS.SqlStorage(path)))
            if l != l_before:
                ctx.violate("failed-op-had-effect", kind, "%s %s on %s with statement %d/%d (%s) failing: listing after reopen %s"
                            % (kind, self._args(op), _canon(before), k, len(stmts), stmts[k], _canon(l)))
                ok = False
        # ---- (b) the process dies just before statement k
        cdir = os.path.join(tmp, "crash")
        cpath = os.path.join(cdir, "ns.db")

        def snapshot():
            shutil.rmtree(cdir, ignore_errors=True)
            os.mkdir(cdir)
            shutil.copyfile(path, cpath)
            if os.path.exists(path + "-journal"):
                shutil.copyfile(path + "-journal", cpath + "-journal")

        for k in points:
            if bulk:
                gc.collect()
            self._restore(path, pre)
            ns = NS.NameServer(NS.SqlStorage(path))
            fac.arm("crash", k, snapshot)
            crashed = False
            try:
                _call(ns, op)
            except _Crash:
                crashed = True
            except Exception:  # noqa - cannot happen before the crash point in a deterministic replay
                pass
            finally:
                fac.disarm()
            if not crashed:
                raise S.HarnessError("crash point %d of %s never reached (statements %s)" % (k, kind, stmts))
            ctx.fault("crash")
            ctx.probe("crash_point")
            l = _listing(NS.NameServer(NS.SqlStorage(cpath)))
            if not commits or k <= commits[0]:
                allowed = [l_before]
            elif k > commits[-1]:
                allowed = [l_after]
            else:
                allowed = [l_before, l_after]
            if l not in allowed:
                ctx.violate("crash-partial-state", kind, "%s %s on %s, crash before statement %d/%d (%s; commits at %s): reopened copy lists %s"
                            % (kind, self._args(op), _canon(before), k, len(stmts), stmts[k], commits, _canon(l)))
                ok = False
        self._restore(path, post)
        return ok

    # ---------------------------------------------------------------- classification of back-end divergences
    @staticmethod
    def _args(op):
        return _canon({k: v for k, v in op.items() if k != "op"})

    @staticmethod
    def _classify_query(kind, op, before, o_mem, o_sql, sql):
        if kind == "list-prefix" and o_mem[0] == o_sql[0] == "ok" and isinstance(o_sql[1], dict) and isinstance(o_mem[1], dict):
            a, b = o_mem[1], o_sql[1]
            causes = _prefix_causes(op["arg"], set(b) - set(a))
            if set(a) - set(b) or any(a[n] != b[n] for n in a if n in b):
                causes.add(None)
            return sorted(kind if c is None else c for c in causes)
        if kind == "yplookup-all" and len(set(op["tags"])) != len(op["tags"]) and o_mem[0] == "ok":
            dedup = dict(op)
            dedup["tags"] = sorted(set(op["tags"]))
            if _outcome(lambda: _call(sql, dedup)) == o_mem:
                return ["yplookup-duplicate-tags"]
        return [kind]

    @staticmethod
    def _classify_mutation(kind, op, before, o_mem, l_mem, o_sql, l_sql, expect, l_model):
        if kind == "remove-prefix" and (o_mem, l_mem) == (expect, l_model) and l_sql[0] == "ok" and isinstance(l_sql[1], dict):
            left = l_sql[1]
            gone = set(before) - set(left)
            causes = _prefix_causes(op["arg"], gone - (set(before) - set(l_model[1])))
            if (set(left) - set(before) or (set(before) - set(l_model[1])) - gone or o_sql != ("ok", len(gone))
                    or any(left[n] != before[n] for n in left if n in before)):
                causes.add(None)
            return sorted(kind if c is None else c for c in causes) or [kind]
        return [kind]

    # ---------------------------------------------------------------- reach probes
    @staticmethod
    def _probes(ctx, op, kind, before, after, expect):
        k = op["op"]
        low = {}
        for n in before:
            low.setdefault(n.lower(), []).append(n)
        if any(len(v) > 1 for v in low.values()) and k in ("lookup", "list", "remove", "register", "set_metadata"):
            ctx.probe("case_pair")
        arg = op.get("name") if "name" in op else op.get("arg")
        if isinstance(arg, str) and any(ord(c) > 127 for c in arg) and any(any(ord(c) > 127 for c in n) for n in before):
            ctx.probe("unicode_name")
        if isinstance(arg, str) and _numval(arg) is not None and arg in after:
            ctx.probe("numeric_name")
            if any(n != arg and _numval(n) == _numval(arg) for n in after):
                ctx.probe("numeric_collision")      # e.g. "42" and "042" are both registered
        if k in ("register", "set_metadata") and expect[0] == "ok" and any(_numval(t) is not None for t in (op.get("meta") or ())):
            ctx.probe("numeric_tag")
        if kind in ("list-prefix", "remove-prefix") and op["arg"] and ("_" in op["arg"] or "%" in op["arg"]) and before:
            ctx.probe("wildcard_prefix")
        if k in ("register", "set_metadata", "yplookup"):
            t = op.get("meta") if k != "yplookup" else op["tags"]
            if t and len(set(t)) != len(t):
                ctx.probe("duplicate_tags")
        if k == "yplookup" and expect[0] == "ok" and expect[1]:
            ctx.probe("yplookup_all" if op["mode"] == "all" else "yplookup_any")
        if k in ("list", "remove") and op["by"] == "regex" and op.get("arg") and expect == _NE:
            ctx.probe("invalid_regex")
        if k == "remove" and expect[0] == "ok":
            if op["by"] == "regex" and expect[1] > 0:
                ctx.probe("regex_remove")
            if op["by"] == "prefix" and expect[1] > 0:
                ctx.probe("prefix_remove")
            if NSNAME in before and op["arg"]:
                a = op["arg"]
                try:
                    sel = (a == NSNAME) if op["by"] == "name" else NSNAME.startswith(a) if op["by"] == "prefix" \
                        else bool(re.match(a, NSNAME))
                except re.error:
                    sel = False
                if sel:
                    ctx.probe("ns_entry_protected")


WORLD = NsModelWorld()
