"""C17 - socket reads and writes are exact under fragmentation and transient errors.

Single-threaded world: the "schedule" of a case is the per-call behaviour script of a scripted socket.
One run holds 5-20 independent cases (plan["ops"]); a case is either 1-4 successive
``receive_data`` calls on one scripted socket, or one ``send_data`` call, or ("msg") 1-3 whole wire
messages read with ``protocol.recv_stub`` through a SocketConnection over the scripted socket.

The scripted socket executes one behaviour per recv/send call (sendall: per internal write):
    ["a"]        deliver / accept everything that was asked for
    ["d", k]     deliver / accept at most k bytes (k >= 1)
    ["e", NAME]  raise OSError(errno.NAME) - the constructor picks the subclass, so ETIMEDOUT *is* a
                 TimeoutError (= socket.timeout); behaviours are classified by the raised object
    ["t"]        raise socket.timeout
    ["z"]        end of stream (recv only; sticky)
and once the script is used up it delivers / accepts everything.  The end of the scripted stream is
an end of stream too (the peer closed after ``total`` bytes).

The oracle only uses the socket's own log of what it actually did during the call (I1..I4 of
DESIGN.md, section C17); it never predicts how the code under test sizes its recv calls.
"""
import errno
import socket
import struct

from ..world import World
from ..seams import SU, PR
import Pyro5.errors as E

# The documented retry set, written down literally from the unchanged source (socketutil.py line 28:
# ERRNO_RETRIES = [EINTR, EAGAIN, EWOULDBLOCK, EINPROGRESS]; the WSA* twins exist on Windows only).
# It is the property's notion of "retryable" (interrupted, would-block, try-again) and deliberately
# NOT read from socketutil.ERRNO_RETRIES at run time: that list is shared, mutable state of the code
# under test.  receive_data/send_data consult no other table (ERRNO_BADF, ERRNO_ENOTSOCK, ... are
# used by the servers and create_socket only).
RETRY = ["EINTR", "EAGAIN", "EWOULDBLOCK", "EINPROGRESS"]
RETRY_CODES = frozenset(getattr(errno, n) for n in RETRY)
# every other errno is fatal; a broad sample of what recv/send can report.  (EALREADY is left out:
# it is a BlockingIOError, and whether "already in progress" is try-again is not ours to decide.)
FATAL_CORE = ["ECONNRESET", "EPIPE", "EBADF", "ENOTCONN", "ETIMEDOUT"]
FATAL_FAMILIES = {
    "fatal_conn": ["ECONNABORTED", "ECONNREFUSED", "ENOTSOCK", "ESHUTDOWN", "EDESTADDRREQ"],
    "fatal_net": ["EHOSTUNREACH", "EHOSTDOWN", "ENETDOWN", "ENETUNREACH", "ENETRESET", "ENONET"],
    "fatal_proto": ["EPROTO", "ENOPROTOOPT", "EOPNOTSUPP", "EMSGSIZE"],
    "fatal_resource": ["ENOBUFS", "ENOMEM", "EIO", "EINVAL", "EFAULT", "EPERM", "EACCES", "EMFILE"],
}
# errors that carry no errno at all (socket.error("text"), what ssl and socket-like wrappers raise): fatal like any other
NOERRNO = ["NOERRNO", "NOERRNO_ARGS"]
FATAL = FATAL_CORE + [n for fam in sorted(FATAL_FAMILIES) for n in FATAL_FAMILIES[fam] if hasattr(errno, n)] + NOERRNO
FAMILY_OF = {n: fam for fam, names in FATAL_FAMILIES.items() for n in names}
FAMILY_OF.update({n: "fatal_noerrno" for n in NOERRNO})
assert not (RETRY_CODES & {getattr(errno, n) for n in FATAL if n not in NOERRNO}), "a fatal errno collides with the retry set"

HEADER_FORMAT = "!4sHBBHHII16sHH"      # Pyro5 wire header (protocol.py), 40 bytes
HEADER_SIZE = struct.calcsize(HEADER_FORMAT)
MAGIC = 0x4dc5
MSG_WAITALL = getattr(socket, "MSG_WAITALL", 0x100)

PAT_LEN = 1000 + 4 * 131072 + 64
# stream byte i depends on i only; neighbours differ, no period below 16 MiB
PAT = bytes((i * 7 + (i >> 8) * 3 + (i >> 16) * 5) & 0xff for i in range(PAT_LEN))

SMALL = [0, 1, 1, 2, 6, 34, 40, 40, 100, 1000]
LARGE = [59999, 60000, 60001, 120000, 120001]
SEND_SMALL = [0, 1, 2, 40, 40, 500, 5000]
SEND_LARGE = [60001, 70000, 120001]

# three sleeps of the back-off generator: 0.0001 + 0.001 + 0.01
BACKOFF3 = 0.0111 - 1e-9


class _Abort(BaseException):
    """raised by the scripted socket when an operation exceeds its socket-call bound (I4)"""


def _make_exc(name):
    if name == "NOERRNO":
        return OSError("scripted failure without an errno")
    if name == "NOERRNO_ARGS":
        return socket.error("scripted", "failure", "without an errno")     # 3 args: errno stays None too
    return OSError(getattr(errno, name), "scripted " + name)


def _classify(exc):
    """class of a raised behaviour, decided on the exception object: t(imeout) r(etryable) f(atal)"""
    if isinstance(exc, socket.timeout):
        return "t"
    if getattr(exc, "errno", None) in RETRY_CODES:
        return "r"
    return "f"


class _Sock:
    """common part of the scripted sockets; log entries are (cls, detail, requested, flags, moved)"""

    def __init__(self, ctx, script, timeout):
        self.ctx = ctx
        self.ev = ctx.sched.ev
        self.script = script
        self.pos = 0
        self.log = []
        self.calls = 0
        self.limit = 0
        self._timeout = timeout

    def gettimeout(self):
        return self._timeout

    def settimeout(self, t):
        self._timeout = t

    def fileno(self):
        return 7

    def _next(self):
        self.calls += 1
        if self.calls > self.limit:
            raise _Abort()
        if self.pos < len(self.script):
            b = self.script[self.pos]
            self.pos += 1
            return b
        return None

    def _raise(self, what, b, req, flags):
        if b[0] == "t":
            exc = socket.timeout("timed out")
            detail = "timeout"
        else:
            exc = _make_exc(b[1])
            detail = b[1]
        cls = _classify(exc)
        self.log.append((cls, detail, req, flags, 0))
        self.ev(what, req, flags, cls, detail)
        self.ctx.fault(detail)
        raise exc


class _RSock(_Sock):
    def __init__(self, ctx, script, timeout, base, end, buf=PAT):
        _Sock.__init__(self, ctx, script, timeout)
        self.buf = buf
        self.c = base
        self.end = end
        self.ateof = False

    def recv_into(self, buffer, nbytes=0, flags=0):
        # a legitimate implementation may read in place; same scripted behaviours as recv
        mv = memoryview(buffer).cast("B")
        data = self.recv(nbytes or len(mv), flags)
        mv[:len(data)] = data
        return len(data)

    def recv(self, n, flags=0):
        flags = int(flags)
        if flags and hasattr(self, "getpeercert"):
            self.calls += 1
            self.log.append(("f", "ssl-flags", n, flags, 0))
            raise ValueError("non-zero flags not allowed in calls to recv() on SSLSocket")
        if self.ateof:
            self.calls += 1
            if self.calls > self.limit:
                raise _Abort()
            b = ("z",)
        else:
            b = self._next()
        k = b[0] if b is not None else "a"
        if k == "e" or k == "t":
            self._raise("recv", b, n, flags)
        if k == "z":
            if not self.ateof:
                self.ctx.fault("eof")
            self.ateof = True
            self.log.append(("z", "eof", n, flags, 0))
            self.ev("recv", n, flags, "z")
            return b""
        want = n if k == "a" else min(n, b[1])
        left = self.end - self.c
        if want > left:
            want = left
        if want <= 0 and n > 0:
            # the scripted stream is used up: the peer has closed
            self.ateof = True
            self.ctx.fault("eof_stream_end")
            self.log.append(("z", "eof", n, flags, 0))
            self.ev("recv", n, flags, "z")
            return b""
        out = self.buf[self.c:self.c + want]
        self.c += want
        if want < n:
            self.ctx.fault("deliver_short")
        self.log.append(("d", k, n, flags, want))
        self.ev("recv", n, flags, "d", want)
        return out


class _SslRSock(_RSock):
    def getpeercert(self, binary_form=False):
        return None


class _WSock(_Sock):
    def __init__(self, ctx, script, timeout):
        _Sock.__init__(self, ctx, script, timeout)
        self.peer = bytearray()

    def _accept(self, what, b, data):
        n = len(data)
        k = n if (b is None or b[0] == "a") else max(1, min(n, b[1]))
        self.peer += data[:k]
        if k < n:
            self.ctx.fault("accept_short")
        self.log.append(("d", what, n, 0, k))
        self.ev(what, n, "d", k)
        return k

    def send(self, data, flags=0):
        b = self._next()
        if not len(data):
            self.log.append(("d", "send", 0, 0, 0))
            return 0
        if b is not None and b[0] in ("e", "t"):
            self._raise("send", b, len(data), flags)
        return self._accept("send", b, data)

    def sendall(self, data, flags=0):
        """like the real one: loops over partial writes internally, raises on the first error"""
        data = bytes(data)
        if not data:
            self.calls += 1
            self.log.append(("d", "sendall", 0, 0, 0))
            return None
        while data:
            b = self._next()
            if b is not None and b[0] in ("e", "t"):
                self._raise("sendall", b, len(data), flags)
            k = self._accept("sendall", b, data)
            data = data[k:]
        return None


class SockIOWorld(World):
    PROPERTY = "C17"
    NAME = "sockio"
    LEVEL = "exploration"
    REAL = ["Pyro5.socketutil.receive_data", "Pyro5.socketutil.send_data", "Pyro5.socketutil.__retrydelays",
            "Pyro5.socketutil.SocketConnection.recv/send (half of the cases go through the wrapper)",
            "Pyro5.errors.ConnectionClosedError/TimeoutError",
            "Pyro5.protocol.recv_stub / ReceivingMessage (msg cases: whole wire messages over the scripted socket)"]
    STUB = ["socket object (scripted per call: deliver k / retryable errno / fatal errno / timeout / end of stream)",
            "time.sleep inside socketutil (virtual clock)", "socketutil.USE_MSG_WAITALL (set per case)",
            "ssl socket (a scripted socket with a getpeercert attribute that refuses recv flags)"]
    PROBES = ["cases", "recv_ok", "multi_read", "surplus_untouched", "waitall_full", "waitall_short_then_loop",
              "retry_EINTR", "retry_EAGAIN", "retry_EWOULDBLOCK", "retry_EINPROGRESS", "chunk_60000_crossed",
              "backoff_slept_3", "eof_partial", "eof_empty", "timeout", "fatal", "etimedout_is_timeout",
              "ssl_like", "zero_size", "via_connection", "send_ok", "send_blocking", "send_loop", "send_partial",
              "send_retry", "send_fatal", "send_timeout", "sendall_partial_fail",
              "fatal_conn", "fatal_net", "fatal_proto", "fatal_resource",
              "msg_ok", "msg_multi", "msg_annotations", "msg_timeout_midway", "msg_timeout_clean", "msg_closed"]
    RULE = ("plan = 5-20 independent cases; a receive case = (stream offset, 1-4 read sizes around "
            "0/1/40/60000/60001/120001, stream length = sum of sizes +5/-3/0, USE_MSG_WAITALL, ssl-like, script of <= 12 "
            "per-call behaviours); a send case = (buffer size, blocking or timeout mode, script); a msg case = (1-3 wire "
            "messages with payload sizes 0..3000/60001, optional annotation, trailing bytes, script) read with recv_stub; "
            "fatal errnos are drawn from a broad list of names outside the literal retry set; behaviour weights and the "
            "errno subsets are drawn per run (swarm); distinct = distinct plan; non-trivial = at least one behaviour other "
            "than 'deliver everything' fired")
    ASSUMPTIONS = ["a socket call does exactly one scripted behaviour; recv never returns more than asked",
                   "end of stream is sticky; after a failed read the connection is not used again",
                   "retryable = EINTR, EAGAIN, EWOULDBLOCK, EINPROGRESS (EWOULDBLOCK == EAGAIN on this platform)",
                   "scripts have at most 12 behaviours, afterwards the socket delivers / accepts everything",
                   "partialData is demanded on the end-of-stream path only; on a fatal errno it must be right if present",
                   "for sends, a retryable errno may legitimately end in ConnectionClosedError ('or raises')",
                   "read size 0 may touch the socket once (MSG_WAITALL path) and then reports what the socket reported",
                   "every errno outside {EINTR, EAGAIN, EWOULDBLOCK, EINPROGRESS} is fatal (sampled: %s)" % ", ".join(FATAL),
                   "msg cases: the stream holds valid wire messages only, so recv_stub may return the exact message or raise "
                   "TimeoutError / ConnectionClosedError; a retry above receive_data is not judged, only its result"]
    QUICK_RUNS = 80000
    CHUNK = 500
    SHRINK_LISTS = ["ops"]
    THREADED = False

    # ------------------------------------------------------------------ plan
    def gen(self, rng, tier):
        big = tier == "thorough"
        w_short = rng.choice([0, 2, 4, 8])
        w_all = rng.choice([0, 1, 3])
        w_retry = rng.choice([0, 0, 2, 5, 10])
        w_fatal = rng.choice([0, 0, 1, 2])
        w_to = rng.choice([0, 0, 1, 2])
        w_eof = rng.choice([0, 0, 1, 2])
        if w_short + w_all + w_retry + w_fatal + w_to + w_eof == 0:
            w_short = 1
        retry_set = [n for n in RETRY if rng.random() < 0.6] or [rng.choice(RETRY)]
        p_fat = rng.choice([0.1, 0.3, 0.7])
        fatal_set = [n for n in FATAL if rng.random() < p_fat] or [rng.choice(FATAL)]
        p_large = rng.choice([0.02, 0.05, 0.15, 0.4])
        p_send = rng.choice([0.2, 0.35, 0.5])
        p_msg = rng.choice([0.0, 0.1, 0.2, 0.4])
        p_waitall = rng.choice([0.0, 0.5, 0.5, 1.0])
        p_ssl = rng.choice([0.0, 0.15, 0.4])
        p_tmode = rng.choice([0.0, 0.5, 0.5, 1.0])
        maxlen = 12
        run_w = (w_short, w_all, w_retry, w_fatal, w_to, w_eof)
        nops = rng.randint(5, 20)
        if p_large >= 0.4:
            nops = rng.randint(4, 8)

        def script(sizes, send, w=None):
            if w is None:
                w_short, w_all, w_retry, w_fatal, w_to, w_eof = run_w
            else:
                w_short, w_all, w_retry, w_fatal, w_to, w_eof = w
            out = []
            tot = w_short + w_all + w_retry + w_fatal + w_to + (0 if send else w_eof)
            if tot == 0:
                return out
            for _ in range(rng.randrange(0, maxlen + 1)):
                r = rng.random() * tot
                if r < w_short:
                    s = rng.choice(sizes)
                    out.append(["d", max(1, rng.choice([1, 1, 2, 7, 40, 59999, 60000, 60001, s // 2, s - 1, s - 1, s + 5]))])
                    continue
                r -= w_short
                if r < w_all:
                    out.append(["a"])
                    continue
                r -= w_all
                if r < w_retry:
                    out.append(["e", rng.choice(retry_set)])
                    if rng.random() < 0.06:
                        # a long run of transient errors inside one call (a peer that stays slow for seconds)
                        for _ in range(rng.choice([11, 12, 13, 14, 20, 33])):
                            out.append(["e", rng.choice(retry_set)])
                    continue
                r -= w_retry
                if r < w_fatal:
                    out.append(["e", rng.choice(fatal_set)])
                    continue
                r -= w_fatal
                if r < w_to:
                    out.append(["t"])
                    continue
                out.append(["z"])
            return out

        ops = []
        seq = 0
        for _ in range(nops):
            if rng.random() < p_msg:
                msgs = []
                for _ in range(rng.randint(1, 3)):
                    seq += 1
                    if rng.random() < p_large * 0.5:
                        n = rng.choice([60001, 120001])
                    else:
                        n = rng.choice([0, 1, 5, 40, 100, 300, rng.randrange(1, 3000)])
                    msgs.append({"n": n, "ann": rng.choice([0, 0, 0, 1, 30]) if rng.random() < 0.4 else None,
                                 "type": rng.choice([4, 5, 6]), "seq": seq, "flags": rng.choice([0, 0, 1, 4, 16])})
                sizes = [6, HEADER_SIZE - 6] + [m["n"] for m in msgs]
                # half of the msg cases use their own mix (fragmentation and timeouts inside a message)
                w = None if rng.random() < 0.5 else (4, 3, 1, 0.3, 2, 0.3)
                ops.append({"kind": "msg", "msgs": msgs, "slack": rng.choice([0, 0, 5, 40, -1]),
                            "off": rng.randrange(1000), "waitall": rng.random() < p_waitall,
                            "ssl": rng.random() < p_ssl, "timeout": 2.0, "script": script(sizes, False, w)})
                continue
            if rng.random() < p_send:
                if rng.random() < p_large:
                    n = rng.choice(SEND_LARGE + ([250001] if big else []))
                else:
                    n = rng.choice(SEND_SMALL + [rng.randrange(1, 3000)])
                ops.append({"kind": "send", "n": n, "off": rng.randrange(1000),
                            "timeout": 2.0 if rng.random() < p_tmode else None,
                            "conn": rng.random() < 0.5, "script": script([n], True)})
            else:
                sizes = []
                for _ in range(rng.randint(1, 4)):
                    if rng.random() < p_large:
                        sizes.append(rng.choice(LARGE + [rng.randrange(60000, 131072)]))
                    else:
                        sizes.append(rng.choice(SMALL + [rng.randrange(1, 3000)]))
                ops.append({"kind": "recv", "sizes": sizes, "slack": rng.choice([0, 0, 0, 5, 5, -3, -1]),
                            "off": rng.randrange(1000), "waitall": rng.random() < p_waitall,
                            "ssl": rng.random() < p_ssl, "timeout": 2.0 if rng.random() < p_tmode else None,
                            "conn": rng.random() < 0.5, "script": script(sizes, False)})
        return {"ops": ops}

    def simplify(self, plan):
        import copy
        for i, op in enumerate(plan.get("ops", [])):
            def var(**kw):
                p = copy.deepcopy(plan)
                p["ops"][i].update(kw)
                return p
            sc = op.get("script", [])
            if len(sc) > 1:
                h = len(sc) // 2
                yield var(script=sc[:h])
                yield var(script=sc[h:])
            for j in range(len(sc)):
                yield var(script=sc[:j] + sc[j + 1:])
            for j, b in enumerate(sc):
                if b[0] == "d" and b[1] > 1:
                    for k in (1, b[1] // 2):
                        if k != b[1]:
                            yield var(script=sc[:j] + [["d", k]] + sc[j + 1:])
            if op["kind"] == "msg":
                ms = op["msgs"]
                for j in range(len(ms)):
                    if len(ms) > 1:
                        yield var(msgs=ms[:j] + ms[j + 1:])
                for j, m in enumerate(ms):
                    for k in (0, 1, 2, 40, m["n"] // 2):
                        if k < m["n"]:
                            yield var(msgs=ms[:j] + [dict(m, n=k)] + ms[j + 1:])
                    if m.get("ann") is not None:
                        yield var(msgs=ms[:j] + [dict(m, ann=None)] + ms[j + 1:])
                    if m.get("flags"):
                        yield var(msgs=ms[:j] + [dict(m, flags=0)] + ms[j + 1:])
                if op.get("slack"):
                    yield var(slack=0)
                if op.get("ssl"):
                    yield var(ssl=False)
                if op.get("waitall"):
                    yield var(waitall=False)
            elif op["kind"] == "recv":
                sz = op["sizes"]
                for j in range(len(sz)):
                    if len(sz) > 1:
                        yield var(sizes=sz[:j] + sz[j + 1:])
                for j, s in enumerate(sz):
                    for k in (0, 1, 2, 40, s // 2, 60001):
                        if k < s:
                            yield var(sizes=sz[:j] + [k] + sz[j + 1:])
                if op.get("slack"):
                    yield var(slack=0)
                if op.get("ssl"):
                    yield var(ssl=False)
                if op.get("waitall"):
                    yield var(waitall=False)
            else:
                for k in (0, 1, 2, 40, op["n"] // 2):
                    if k < op["n"]:
                        yield var(n=k)
            if op.get("conn"):
                yield var(conn=False)
            if op.get("off"):
                yield var(off=0)
            if op.get("timeout") is not None and op["kind"] == "recv":
                yield var(timeout=None)

    # ------------------------------------------------------------------ run
    def scenario(self, ctx):
        for i, op in enumerate(ctx.plan.get("ops", [])):
            ctx.probe("cases")
            ctx.sched.ev("case", i, op["kind"])
            if op["kind"] == "recv":
                self._recv_case(ctx, op)
            elif op["kind"] == "msg":
                self._msg_case(ctx, op)
            else:
                self._send_case(ctx, op)
        ctx.nontrivial = bool(ctx.faults)

    # ---- receive ---------------------------------------------------------------------------------
    def _recv_case(self, ctx, op):
        sched = ctx.sched
        sizes = [int(s) for s in op["sizes"]]
        base = int(op.get("off", 0))
        total = max(0, sum(sizes) + int(op.get("slack", 0)))
        end = base + total
        if end > PAT_LEN:
            raise ValueError("plan asks for more stream than the pattern holds")
        script = op.get("script", [])
        SU.USE_MSG_WAITALL = bool(op.get("waitall"))
        ssl = bool(op.get("ssl"))
        sock = (_SslRSock if ssl else _RSock)(ctx, script, op.get("timeout"), base, end)
        if ssl:
            ctx.probe("ssl_like")
        target = sock
        if op.get("conn"):
            target = SU.SocketConnection(sock, keep_open=True)
            ctx.probe("via_connection")
        nok = 0
        for n in sizes:
            c0 = sock.c
            l0 = len(sock.log)
            t0 = sched.now
            sock.limit = sock.calls + (len(script) - sock.pos) + n + 5
            exc = None
            res = None
            try:
                if target is sock:
                    res = SU.receive_data(sock, n)
                else:
                    res = target.recv(n)
            except _Abort:
                ctx.violate("no-termination", "recv",
                            "receive_data(%d) made more than %d socket calls; %s" % (n, sock.limit, self._tail(sock.log[l0:])))
                return
            except BaseException as x:  # noqa - the property is about what may escape
                exc = x
            log = sock.log[l0:]
            moved = sock.c - c0
            self._recv_probes(ctx, n, log, sched.now - t0, exc)
            sched.ev("recv-done", n, type(exc).__name__ if exc is not None else "ok", moved, len(log))
            if exc is None:
                bad = self._check_return(n, res, c0, sock, log)
                if bad:
                    ctx.violate(bad[0], "recv", "receive_data(%d): %s; %s" % (n, bad[1], self._tail(log)))
                    return
                nok += 1
                if n == 0:
                    ctx.probe("zero_size")
                continue
            bad = self._check_raise(n, exc, c0, sock, log, moved)
            if bad:
                ctx.violate(bad[0], bad[1], "receive_data(%d) raised %s: %s; %s" % (n, type(exc).__name__, bad[2], self._tail(log)))
            return      # the connection is unusable after an error
        if nok:
            ctx.probe("recv_ok", nok)
        if nok >= 2:
            ctx.probe("multi_read")
        if nok == len(sizes) and sock.c < sock.end:
            ctx.probe("surplus_untouched")

    @staticmethod
    def _tail(log):
        return "socket log (class, behaviour, asked, flags, moved) = %r" % (log[-14:],)

    @staticmethod
    def _check_return(n, res, c0, sock, log):
        # I3: a fatal errno or a timeout is final; the code may not try again behind it
        for e in log[:-1]:
            if e[0] in ("f", "t"):
                return ("continued-after-terminal", "used the socket again after %r and returned" % (e[1],))
        if not isinstance(res, (bytes, bytearray, memoryview)):
            return ("short-or-wrong-data", "returned %r" % (type(res).__name__,))
        if len(res) != n:
            return ("short-or-wrong-data", "returned %d bytes" % len(res))
        if res != PAT[c0:c0 + n]:
            return ("short-or-wrong-data", "returned %d bytes that are not the next %d bytes of the stream" % (n, n))
        if sock.c != c0 + n:
            return ("cursor-mismatch", "right bytes returned but %d bytes were taken from the socket" % (sock.c - c0))
        return None

    @staticmethod
    def _check_raise(n, exc, c0, sock, log, moved):
        if isinstance(exc, E.ConnectionClosedError):
            out = "closed"
        elif isinstance(exc, E.TimeoutError):
            out = "timeout"
        elif isinstance(exc, OSError):
            return ("raw-oserror-escaped", "recv", "not a Pyro5 error: %r" % (exc,))
        else:
            return ("unexpected-exception", "recv:" + type(exc).__name__, repr(exc))
        for e in log[:-1]:
            if e[0] in ("f", "t"):
                return ("continued-after-terminal", "recv", "used the socket again after %r" % (e[1],))
        if n > 0 and moved >= n:
            return ("error-after-complete", "recv", "all %d requested bytes had been delivered (%d taken)" % (n, moved))
        if not log:
            return ("error-without-cause", "recv", "no socket call was made")
        last = log[-1]
        cls = last[0]
        if cls == "r":
            return ("retryable-not-retried", "recv:" + str(last[1]), "last behaviour was the retryable %s" % (last[1],))
        if cls == "d":
            return ("error-without-cause", "recv", "last behaviour was a plain delivery of %d bytes" % last[4])
        if cls == "t":
            if out != "timeout":
                return ("wrong-exception-class", "recv:timeout->closed", "the socket timed out (%s)" % (last[1],))
            return None
        if out != "closed":
            return ("wrong-exception-class", "recv:%s->timeout" % ("eof" if cls == "z" else "fatal"),
                    "last behaviour was %s" % (last[1],))
        pd = getattr(exc, "partialData", None)
        want = PAT[c0:sock.c]
        if cls == "z":
            if pd is None:
                return ("partialdata-wrong", "recv:missing", "short read without partialData (%d bytes were delivered)" % moved)
            if bytes(pd) != want:
                return ("partialdata-wrong", "recv:content", "partialData has %d bytes, %d were delivered (or content differs)"
                        % (len(pd), moved))
        elif pd is not None and bytes(pd) != want:
            return ("partialdata-wrong", "recv:content-on-fatal", "partialData has %d bytes, %d were delivered" % (len(pd), moved))
        return None

    @staticmethod
    def _recv_probes(ctx, n, log, slept, exc):
        wa_short = False
        for j, e in enumerate(log):
            cls, what, req, flags, moved = e
            more = j + 1 < len(log)
            if cls == "d":
                if flags & MSG_WAITALL:
                    if moved == n:
                        ctx.probe("waitall_full")
                    elif more:
                        wa_short = True
                else:
                    if wa_short:
                        ctx.probe("waitall_short_then_loop")
                        wa_short = False
                    if n > 60000 and req == 60000 and moved == 60000 and more:
                        ctx.probe("chunk_60000_crossed")
            elif cls == "r" and more:
                ctx.probe("retry_" + what)
        if slept >= BACKOFF3:
            ctx.probe("backoff_slept_3")
        if exc is not None and log:
            last = log[-1]
            if isinstance(exc, E.TimeoutError) and last[0] == "t":
                ctx.probe("timeout")
                if last[1] == "ETIMEDOUT":
                    ctx.probe("etimedout_is_timeout")
            elif isinstance(exc, E.ConnectionClosedError):
                if last[0] == "f":
                    ctx.probe("fatal")
                    if last[1] in FAMILY_OF:
                        ctx.probe(FAMILY_OF[last[1]])
                elif last[0] == "z":
                    ctx.probe("eof_partial" if getattr(exc, "partialData", None) else "eof_empty")

    # ---- whole messages through protocol.recv_stub -----------------------------------------------
    def _msg_case(self, ctx, op):
        """The stream holds valid wire messages (+ optional trailing bytes).  recv_stub must return exactly
        the next message and leave the cursor at its end, or raise TimeoutError / ConnectionClosedError
        for a reason the socket log shows.  Anything else (wrong payload, ProtocolError on a valid
        stream, raw errors) means bytes of the stream were lost, duplicated or shifted."""
        sched = ctx.sched
        base = int(op.get("off", 0))
        parts = []
        expect = []
        pos = 0
        pp = base
        for m in op["msgs"]:
            n = int(m["n"])
            ann = m.get("ann")
            annbytes = b""
            anns = {}
            if ann is not None:
                body = PAT[pp:pp + int(ann)]
                pp += int(ann)
                annbytes = struct.pack("!4sI", b"XTRA", len(body)) + body
                anns = {"XTRA": body}
            if pp + n > PAT_LEN:
                raise ValueError("plan asks for more data than the pattern holds")
            payload = PAT[pp:pp + n]
            pp += n
            hdr = struct.pack(HEADER_FORMAT, b"PYRO", PR.PROTOCOL_VERSION, int(m["type"]), 2, int(m["flags"]),
                              int(m["seq"]) & 0xffff, n, len(annbytes), b"\0" * 16, 0, MAGIC)
            parts.append(hdr + annbytes + payload)
            pos += len(parts[-1])
            expect.append((pos, m, anns, payload))
        buf = b"".join(parts)
        slack = int(op.get("slack", 0))
        if slack > 0:
            buf += PAT[pp:pp + slack]
        elif slack < 0:
            buf = buf[:max(0, len(buf) + slack)]
        script = op.get("script", [])
        SU.USE_MSG_WAITALL = bool(op.get("waitall"))
        ssl = bool(op.get("ssl"))
        sock = (_SslRSock if ssl else _RSock)(ctx, script, op.get("timeout"), 0, len(buf), buf)
        if ssl:
            ctx.probe("ssl_like")
        conn = SU.SocketConnection(sock, keep_open=True)
        nok = 0
        for end, m, anns, payload in expect:
            c0 = sock.c
            l0 = len(sock.log)
            sock.limit = sock.calls + (len(script) - sock.pos) + (len(buf) - c0) + 20
            exc = None
            msg = None
            try:
                msg = PR.recv_stub(conn)
            except _Abort:
                ctx.violate("no-termination", "msg", "recv_stub made more than %d socket calls; %s"
                            % (sock.limit, self._tail(sock.log[l0:])))
                return
            except BaseException as x:  # noqa
                exc = x
            log = sock.log[l0:]
            moved = sock.c - c0
            sched.ev("msg-done", m["n"], type(exc).__name__ if exc is not None else "ok", moved, len(log))
            if exc is None:
                bad = None
                try:
                    data = bytes(msg.data)
                    got_anns = {k: bytes(v) for k, v in msg.annotations.items()}
                    head = (msg.type, msg.seq, msg.flags, msg.data_size, msg.annotations_size)
                except Exception as x:  # noqa
                    bad = ("short-or-wrong-data", "recv_stub returned %r (%r)" % (type(msg).__name__, x))
                    data = got_anns = head = None
                if bad is None:
                    want_head = (int(m["type"]), int(m["seq"]) & 0xffff, int(m["flags"]), len(payload),
                                 sum(8 + len(v) for v in anns.values()))
                    if data != payload:
                        first = next((i for i in range(min(len(data), len(payload))) if data[i] != payload[i]), None)
                        bad = ("short-or-wrong-data", "payload of %d bytes is not the next %d payload bytes of the stream "
                               "(first difference at %r)" % (len(data), len(payload), first))
                    elif head != want_head or got_anns != anns:
                        bad = ("short-or-wrong-data", "header/annotations %r %r differ from the stream's %r %r"
                               % (head, sorted(got_anns), want_head, sorted(anns)))
                    elif sock.c != end:
                        bad = ("cursor-mismatch", "right message returned but the socket cursor is at %d, message ends at %d"
                               % (sock.c, end))
                if bad:
                    ctx.violate(bad[0], "msg", "recv_stub (message of %d bytes): %s; %s" % (m["n"], bad[1], self._tail(log)))
                    return
                nok += 1
                ctx.probe("msg_ok")
                if anns:
                    ctx.probe("msg_annotations")
                continue
            classes = [e[0] for e in log]
            bad = None
            if isinstance(exc, E.TimeoutError):
                if "t" not in classes:
                    bad = ("error-without-cause", "msg", "TimeoutError but the socket never timed out")
                else:
                    ctx.probe("msg_timeout_midway" if moved else "msg_timeout_clean")
            elif isinstance(exc, E.ConnectionClosedError):
                if "f" not in classes and "z" not in classes:
                    bad = ("error-without-cause", "msg", "ConnectionClosedError without a fatal error or end of stream")
                else:
                    ctx.probe("msg_closed")
            elif isinstance(exc, OSError):
                bad = ("raw-oserror-escaped", "msg", "not a Pyro5 error: %r" % (exc,))
            else:
                bad = ("stream-desync", "msg:" + type(exc).__name__,
                       "the stream holds valid messages only, yet: %r" % (exc,))
            if bad:
                ctx.violate(bad[0], bad[1], "recv_stub (message of %d bytes) raised %s: %s; %s"
                            % (m["n"], type(exc).__name__, bad[2], self._tail(log)))
            return
        if nok >= 2:
            ctx.probe("msg_multi")

    # ---- send ------------------------------------------------------------------------------------
    def _send_case(self, ctx, op):
        sched = ctx.sched
        n = int(op["n"])
        base = int(op.get("off", 0))
        if base + n > PAT_LEN:
            raise ValueError("plan asks for more data than the pattern holds")
        data = PAT[base:base + n]
        script = op.get("script", [])
        blocking = op.get("timeout") is None
        sock = _WSock(ctx, script, op.get("timeout"))
        sock.limit = len(script) + n + 5
        target = sock
        if op.get("conn"):
            target = SU.SocketConnection(sock, keep_open=True)
            ctx.probe("via_connection")
        ctx.probe("send_blocking" if blocking else "send_loop")
        key = "send:sendall" if blocking else "send:loop"
        exc = None
        try:
            if target is sock:
                SU.send_data(sock, data)
            else:
                target.send(data)
        except _Abort:
            ctx.violate("no-termination", "send", "send_data(%d bytes) made more than %d socket calls; %s"
                        % (n, sock.limit, self._tail(sock.log)))
            return
        except BaseException as x:  # noqa
            exc = x
        log = sock.log
        peer = bytes(sock.peer)
        sched.ev("send-done", n, type(exc).__name__ if exc is not None else "ok", len(peer), len(log))
        bad = None
        for e in log[:-1]:
            if e[0] in ("f", "t"):
                bad = ("continued-after-terminal", key, "used the socket again after %r" % (e[1],))
                break
        if bad is None and exc is None:
            if peer != data:
                bad = ("send-bytes-mismatch", key, "returned, but the peer accepted %d bytes (prefix of the buffer: %s)"
                       % (len(peer), data.startswith(peer)))
            else:
                ctx.probe("send_ok")
                acc = [e for e in log if e[0] == "d" and e[4]]
                if len(acc) >= 2:
                    ctx.probe("send_partial")
                if not blocking and any(e[0] == "r" for e in log):
                    ctx.probe("send_retry")
        elif bad is None:
            if isinstance(exc, E.ConnectionClosedError):
                out = "closed"
            elif isinstance(exc, E.TimeoutError):
                out = "timeout"
            else:
                out = None
            if out is None:
                if isinstance(exc, OSError):
                    bad = ("raw-oserror-escaped", key, "not a Pyro5 error: %r" % (exc,))
                else:
                    bad = ("unexpected-exception", key + ":" + type(exc).__name__, repr(exc))
            elif not data.startswith(peer):
                bad = ("send-bytes-mismatch", key + ":not-prefix", "raised %s, but the %d bytes the peer accepted are not a "
                       "prefix of the buffer" % (type(exc).__name__, len(peer)))
            elif len(peer) >= n and n > 0:
                bad = ("error-after-complete", key, "raised %s although the peer had accepted the whole buffer" % type(exc).__name__)
            elif not log or log[-1][0] == "d":
                bad = ("error-without-cause", key, "raised %s without a failing socket call" % type(exc).__name__)
            else:
                cls = log[-1][0]
                if cls == "t" and out != "timeout":
                    bad = ("wrong-exception-class", key + ":timeout->closed", "the socket timed out (%s)" % (log[-1][1],))
                elif cls != "t" and out != "closed":
                    bad = ("wrong-exception-class", key + ":errno->timeout", "last behaviour was %s" % (log[-1][1],))
                else:
                    ctx.probe("send_timeout" if cls == "t" else "send_fatal")
                    if cls == "f" and log[-1][1] in FAMILY_OF:
                        ctx.probe(FAMILY_OF[log[-1][1]])
                    if blocking and peer:
                        ctx.probe("sendall_partial_fail")
        if bad:
            ctx.violate(bad[0], bad[1], "send_data(%d bytes, %s): %s; %s"
                        % (n, "blocking" if blocking else "timeout mode", bad[2], self._tail(log)))


WORLD = SockIOWorld()
