"""C06 - wire messages decode to what was encoded; nothing else decodes.

Single-threaded world; the "schedule" is the transport script.  One run = one configuration
(COMPRESSION, MAX_MESSAGE_SIZE, correlation id, USE_MSG_WAITALL) and 8-16 independent *cases*:

stream   1-3 messages (built by the real SendingMessage, by the harness's own encoder, or raw garbage)
         + sentinel bytes, delivered by a scripted socket through the real
         SocketConnection.recv -> receive_data -> recv_stub -> ReceivingMessage.  Transport faults:
         fragmentation (recv returns 1..k bytes), short MSG_WAITALL reads, EINTR/EAGAIN between
         fragments, truncation (EOF or RST) at a chosen offset, in-flight mutation (byte flips,
         length-field rewrites, annotation/data boundary shifts, chunk-length rewrites, insert/delete).
         About half of the stream cases (and of the concurrent threads) first push the built messages through the
         real SocketConnection.send -> send_data into a scripted sending socket (blocking: sendall; with a timeout:
         send() returning short counts / EAGAIN); what that socket accepted is what the receiver gets. A blocking
         sendall() may also fail with a retryable errno after k > 0 bytes of a message: the receiver must then decode
         the messages before it and nothing else (for it the stream is truncated inside that message).
direct   the same bytes handed to ReceivingMessage(header, payload) without a socket.
sender   sender-side inputs only: bad annotation keys, str values, sizes around MAX_MESSAGE_SIZE.
sweep    one small message and one fault kind applied at EVERY offset (truncate after o bytes / flip byte o).
concurrent  (own plans, ~12% of the runs) 2-3 simulated threads each build their own 2-6 messages with
         SendingMessage and decode them with recv_stub over their own scripted socket, with line-granular
         pre-emption inside SendingMessage.__init__, ReceivingMessage.__init__, add_payload, validate and
         recv_stub: every thread's bytes (reference parser) and decoded messages must be its OWN specs
         (catches module-level / shared mutable state in the codec).

The oracle walks the delivered byte stream in lockstep with an independent reference codec
(sim.net.parse_header / parse_annotations + the builder below): whatever Pyro accepts must be a
well-formed message for the reference with the same fields and the same length; whatever was built
from sender-buildable fields and delivered intact must be accepted with exactly those fields.
"""
import errno
import random
import socket
import threading
import uuid
import zlib

from ..world import World
from .. import net as N
from .. import sched as S
from ..seams import PR, SU, config, current_context
import Pyro5.errors as E

F_COMP = N.FLAG_COMPRESSED
F_CORR = N.FLAG_CORR
MANAGED = F_COMP | F_CORR
BIG = 1 << 30
_TEXT = b"abcdefghijklmnopqrstuvwxyz0123456789 "
_LETTERS = "ABCDEFGHIJKLMNOPQRSTUVWXYZabcdefghijklmnopqrstuvwxyz"
_RETRY_ERRNOS = {"EINTR": errno.EINTR, "EAGAIN": errno.EAGAIN, "EWOULDBLOCK": errno.EWOULDBLOCK,
                 "EINPROGRESS": errno.EINPROGRESS}


class _Hang(BaseException):
    """the reader asked for bytes that will never come (connection open, script exhausted)"""


# ---------------------------------------------------------------- plan -> bytes helpers
def _bytes(spec):
    if spec is None:
        return b""
    if "hex" in spec:
        return bytes.fromhex(spec["hex"])
    n = spec.get("len", 0)
    s = spec.get("seed", 0)
    if n <= 0:
        return b""
    m = spec.get("mode", "rand")
    if m == "rand":
        return random.Random(s).randbytes(n)
    if m == "rep":
        return bytes([s & 0xff]) * n
    o = s % len(_TEXT)
    return ((_TEXT[o:] + _TEXT[:o]) * (n // len(_TEXT) + 1))[:n]


def _ann_value(vs):
    b = _bytes(vs)
    a = vs.get("as", "bytes")
    if a == "bytearray":
        return bytearray(b)
    if a == "memoryview":
        return memoryview(b)                                   # read-only view of bytes
    if a == "mv_rw":
        return memoryview(bytearray(b))                        # writable view (what a fragmented receive yields)
    if a in ("mv_slice", "mv_rw_slice"):
        pre = b"\xa5" * (1 + vs.get("seed", 0) % 5)
        whole = pre + b + b"\x5a\x5a"
        if a == "mv_rw_slice":
            whole = bytearray(whole)
        return memoryview(whole)[len(pre):len(pre) + len(b)]    # slice of a larger buffer
    if a == "str":
        return b.decode("latin-1")
    return b


_AS_TYPES = ["bytes", "bytes", "bytearray", "memoryview", "mv_rw", "mv_rw", "mv_slice", "mv_rw_slice"]


def _update_ann(d, spec_ann):
    """bring a REUSED annotation dict to the contents of spec_ann, mutating buffers in place where possible"""
    want = {k for k, _ in spec_ann}
    for k in list(d):
        if k not in want:
            del d[k]
    inplace = 0
    for k, vs in spec_ann:
        new = _bytes(vs)
        old = d.get(k)
        a = vs.get("as", "bytes")
        if isinstance(old, bytearray) and a == "bytearray" and len(old) == len(new):
            old[:] = new
            inplace += 1
        elif isinstance(old, memoryview) and not old.readonly and a in ("mv_rw", "mv_rw_slice") and len(old) == len(new):
            old[:] = new
            inplace += 1
        else:
            d[k] = _ann_value(vs)
    return inplace


def _compress_bound(n):
    return n + (n >> 12) + (n >> 14) + (n >> 25) + 13


def ref_build(spec):
    """the harness's own encoder; every field can be forged"""
    fg = spec.get("forge") or {}
    payload = _bytes(spec.get("pay"))
    flags = spec.get("flags", 0) & ~MANAGED
    if spec.get("z"):
        payload = zlib.compress(payload, spec.get("zlevel", 6))
        flags |= F_COMP
    if fg.get("zjunk"):
        payload += b"\xee" * fg["zjunk"]
    if fg.get("fakez"):
        flags |= F_COMP
    corr = bytes.fromhex(spec["corr"]) if spec.get("corr") else None
    if corr is not None:
        flags |= F_CORR
    if fg.get("corrbytes"):           # correlation bytes without the flag
        corrb = bytes.fromhex(fg["corrbytes"])
    else:
        corrb = corr or b"\0" * 16
    ann = b""
    chunks = [(k.encode("latin-1"), _bytes(v)) for k, v in spec.get("ann") or []]
    if fg.get("dup") and chunks:
        chunks.append((chunks[0][0], chunks[0][1] + b"!"))
    if fg.get("rawkey") and chunks:
        chunks[0] = (bytes.fromhex(fg["rawkey"]), chunks[0][1])
    for k, v in chunks:
        ann += k + len(v).to_bytes(4, "big") + v
    if fg.get("annraw"):
        ann = _bytes(fg["annraw"])
    hdr = N.HEADER.pack(bytes.fromhex(fg["tag"]) if "tag" in fg else b"PYRO", fg.get("version", N.PROTOCOL_VERSION),
                        spec.get("type", 0), spec.get("ser", 0), flags, spec.get("seq", 0), len(payload), len(ann),
                        corrb, fg.get("resv", 0), fg.get("magic", N.MAGIC))
    return hdr + ann + payload


def ref_parse(S, off, rmax, exact=False):
    """reference decoder at offset off of S -> (kind, fields|None)
    kind: msg | short | badheader | oversize | incomplete | badann | badzlib | trailing"""
    avail = len(S) - off
    if avail < 40:
        return "short", None
    h = N.parse_header(S[off:off + 40])
    if h is None:
        return "badheader", None
    body = h["alen"] + h["dlen"]
    if body > rmax:
        return "oversize", {"wire_flags": h["flags"], "alen": h["alen"], "dlen": h["dlen"]}
    if avail < 40 + body:
        return "incomplete", None
    if exact and avail != 40 + body:
        return "trailing", None
    ann = N.parse_annotations(S[off + 40:off + 40 + h["alen"]])
    if ann is None:
        return "badann", None
    data = S[off + 40 + h["alen"]:off + 40 + body]
    if h["flags"] & F_COMP:
        try:
            data = zlib.decompress(data)
        except zlib.error:
            return "badzlib", None
    return "msg", {"type": h["type"], "flags": h["flags"] & ~MANAGED, "seq": h["seq"], "ser": h["ser"], "ann": ann,
                   "corr": h["corr"] if h["flags"] & F_CORR else None, "data": data, "total": 40 + body,
                   "wire_flags": h["flags"], "alen": h["alen"], "dlen": h["dlen"]}


def _decoded(msg):
    """normalised view of a Pyro ReceivingMessage"""
    return {"type": msg.type, "flags": msg.flags & ~MANAGED, "seq": msg.seq, "ser": msg.serializer_id,
            "ann": {k: bytes(v) for k, v in msg.annotations.items()},
            "corr": bytes(msg.corr_id) if msg.flags & F_CORR else None,
            "data": bytes(msg.data)}


_FIELDS = ("type", "flags", "seq", "ser", "ann", "corr", "data")


def _diff(a, b, skip=()):
    for f in _FIELDS:
        if f in skip:
            continue
        if a[f] != b[f]:
            return f
    return None


def _short(v, n=60):
    r = repr(v)
    return r if len(r) <= n else r[:n] + "..."


def _chunk_len_pos(raw, idx):
    """position (relative to the message start) of the length field of annotation chunk idx, by the reference walk"""
    h = N.parse_header(raw[:40])
    if h is None:
        return None
    i = 40
    end = min(len(raw), 40 + h["alen"])
    k = 0
    while i + 8 <= end:
        ln = int.from_bytes(raw[i + 4:i + 8], "big")
        if k == idx:
            return i + 4
        i += 8 + ln
        k += 1
    return None


class ScriptSendSock:
    """the sending side of the scripted wire: collects what send()/sendall() accepted.
    In timeout mode send() may take only part of the data (short write) or raise a retryable errno."""
    family = socket.AF_INET
    type = socket.SOCK_STREAM
    proto = 0

    def __init__(self, snd, sched=None):
        self.timeout = snd.get("timeout")
        self.kmax = max(1, int(snd.get("kmax", 1)))
        self.p_short = snd.get("p_short", 0.0)
        self.p_err = snd.get("p_err", 0.0)
        self.rng = random.Random(snd.get("seed", 0))
        self.sched = sched
        self.buf = bytearray()
        self.nsend = self.nshort = self.nerr = 0
        self.row = 0
        self.fail = snd.get("fail")        # blocking mode: sendall number `call` transmits k > 0 bytes, then a retryable errno
        self.nsendall = 0
        self.fired = None                  # (sendall call index, bytes that went out before the errno)
        self.exc = None                    # what SocketConnection.send raised (the caller stops sending then)

    def settimeout(self, t):
        self.timeout = t

    def gettimeout(self):
        return self.timeout

    def fileno(self):
        return 98

    def shutdown(self, how):
        pass

    def close(self):
        pass

    def sendall(self, data, flags=0):
        if self.sched is not None:
            self.sched.yield_point("send")
        self.nsend += 1
        data = bytes(data)
        call = self.nsendall
        self.nsendall += 1
        f = self.fail
        if f and self.fired is None and call == f.get("call", 0) and len(data) >= 2:
            k = 1 + f.get("off", 0) % (len(data) - 1)
            self.buf += data[:k]
            self.fired = (call, k)
            name = f.get("err", "EAGAIN")
            raise OSError(_RETRY_ERRNOS.get(name, errno.EAGAIN), "scripted %s after %d of %d bytes" % (name, k, len(data)))
        self.buf += data

    def send(self, data, flags=0):
        if self.sched is not None:
            self.sched.yield_point("send")
        self.nsend += 1
        data = bytes(data)
        n = len(data)
        r = self.rng
        if self.timeout is not None:
            if self.p_err and self.row < 3 and self.nerr < 8 and r.random() < self.p_err:
                self.row += 1
                self.nerr += 1
                raise OSError(errno.EAGAIN, "scripted EAGAIN")
            self.row = 0
            if n > 1 and self.p_short and r.random() < self.p_short:
                lo = max(1, n // 64)
                k = r.randint(lo, max(lo, min(n - 1, max(self.kmax, lo))))
                self.nshort += 1
                self.buf += data[:k]
                return k
        self.buf += data
        return n


def _send_through(raws, snd, sched=None):
    """every message goes out with its own SocketConnection.send -> send_data call; returns the socket"""
    sock = ScriptSendSock(snd, sched)
    conn = SU.SocketConnection(sock, keep_open=True)
    for r in raws:
        try:
            conn.send(r)
        except Exception as x:  # noqa - the caller would drop the connection now
            sock.exc = x
            break
    return sock


# ---------------------------------------------------------------- process history must not leak into a run
# Many plans run in one worker process. Module-level mutable state of the codec (a cache of encodings, a scratch
# buffer ...) would make a run depend on the runs before it, and a violation found that way would not replay in a
# fresh interpreter. Every run therefore starts from the state the modules had when they were imported; state
# carried from one message to the next INSIDE a run is what the family / concurrent cases look at.
def _snapshot_module_state(mods):
    snap = []
    for m in mods:
        for name, val in sorted(vars(m).items()):
            if name.startswith("__"):
                continue
            if isinstance(val, dict):
                snap.append((val, dict(val)))
            elif isinstance(val, list):
                snap.append((val, list(val)))
            elif isinstance(val, set):
                snap.append((val, set(val)))
            elif isinstance(val, bytearray):
                snap.append((val, bytes(val)))
            elif callable(getattr(val, "cache_clear", None)):
                snap.append((val, None))
    return snap


def _restore_module_state(snap):
    for val, old in snap:
        if old is None:
            val.cache_clear()
        elif isinstance(val, dict):
            if val != old:
                val.clear()
                val.update(old)
        elif isinstance(val, list):
            if val != old:
                val[:] = old
        elif isinstance(val, set):
            if val != old:
                val.clear()
                val.update(old)
        elif isinstance(val, bytearray):
            if val != old:
                val[:] = old


_MODULE_STATE = _snapshot_module_state((PR, SU))

_CONC_CODES = None


def _conc_codes():
    global _CONC_CODES
    if _CONC_CODES is None:
        _CONC_CODES = S.code_objects(PR.SendingMessage.__init__, PR.ReceivingMessage.__init__, PR.ReceivingMessage.add_payload,
                                     PR.ReceivingMessage.validate, PR.recv_stub)
    return _CONC_CODES


# ---------------------------------------------------------------- scripted socket
class ScriptSock:
    family = socket.AF_INET
    type = socket.SOCK_STREAM
    proto = 0

    def __init__(self, data, tr, rst=False, sched=None):
        self.data = data
        self.pos = 0
        self.sched = sched
        self.mode = tr.get("mode", "full")
        self.kmax = max(1, int(tr.get("kmax", 1)))
        self.p_err = tr.get("p_err", 0.0)
        self.p_short = tr.get("p_short", 0.0)
        self.errs = tr.get("errs") or ["EINTR", "EAGAIN"]
        self.rng = random.Random(tr.get("seed", 0))
        self.eof = tr.get("eof", True)
        self.rst = rst
        self.nrecv = self.nfrag = self.nshort = self.nerr = 0
        self.row = 0
        self.timeout = None
        self.hit_end = False

    def settimeout(self, t):
        self.timeout = t

    def gettimeout(self):
        return self.timeout

    def fileno(self):
        return 99

    def shutdown(self, how):
        pass

    def close(self):
        pass

    def recv_into(self, buffer, nbytes=0, flags=0):
        # a legitimate implementation may read in place; same scripted behaviours as recv
        mv = memoryview(buffer).cast("B")
        data = self.recv(nbytes or len(mv), flags)
        mv[:len(data)] = data
        return len(data)

    def recv(self, n, flags=0):
        self.nrecv += 1
        if self.sched is not None:
            self.sched.yield_point("recv")
        if n <= 0:
            return b""
        r = self.rng
        if self.p_err and self.row < 3 and self.nerr < 12 and r.random() < self.p_err:
            self.row += 1
            self.nerr += 1
            name = self.errs[r.randrange(len(self.errs))]
            raise OSError(_RETRY_ERRNOS[name], "scripted " + name)
        self.row = 0
        avail = len(self.data) - self.pos
        if avail == 0:
            self.hit_end = True
            if self.rst:
                raise ConnectionResetError(errno.ECONNRESET, "Connection reset by peer")
            if self.eof:
                return b""
            raise _Hang()
        k = min(n, avail)
        if flags & socket.MSG_WAITALL:
            if k > 1 and self.p_short and r.random() < self.p_short:
                k = r.randint(1, k - 1)
                self.nshort += 1
            elif k < n and not (self.eof or self.rst):
                raise _Hang()
        else:
            if self.mode == "bytewise":
                k = 1
            elif self.mode == "rand":
                k = min(k, r.randint(1, self.kmax))
            if k < n:
                self.nfrag += 1
        out = self.data[self.pos:self.pos + k]
        self.pos += k
        return out


# ---------------------------------------------------------------- the world
class WireWorld(World):
    PROPERTY = "C06"
    NAME = "wire"
    LEVEL = "exploration"
    THREADED = False
    REAL = ["Pyro5.protocol.SendingMessage", "Pyro5.protocol.ReceivingMessage (header check, size check, add_payload)",
            "Pyro5.protocol.recv_stub", "Pyro5.socketutil.SocketConnection.recv", "Pyro5.socketutil.receive_data",
            "Pyro5.socketutil.SocketConnection.send -> send_data (blocking and timeout-mode send loop, ~half of the stream cases)",
            "Pyro5.config (COMPRESSION, MAX_MESSAGE_SIZE)", "Pyro5.callcontext.current_context.correlation_id", "zlib"]
    STUB = ["socket (scripted: fragment sizes, short MSG_WAITALL, retryable errnos, EOF/RST, in-flight mutation)",
            "time.sleep in socketutil (virtual clock)", "reference codec = sim.net.parse_header/parse_annotations + wire.ref_build"]
    PROBES = ["compressed", "corr_id", "annotations_many", "zero_len_annotation", "memoryview_annotation", "fragmented",
              "short_waitall", "retry_errno", "truncated_header", "truncated_annotations", "truncated_payload",
              "oversize_sender", "oversize_receiver", "mutated_accepted", "mutated_rejected", "boundary_field",
              "max_boundary_exact", "direct_decode", "ref_built_accepted", "hostile_accepted", "hostile_rejected",
              "sender_bad_key", "sender_str_value", "open_end", "sentinel_read", "large_over_60000",
              "chunk_overrun_rejected", "reencoded", "sweep_cut", "sweep_flip",
              "concurrent", "concurrent_preempted", "concurrent_overlap",
              "sent_timeout_mode", "short_send", "memoryview_writable_annotation", "memoryview_slice_annotation",
              "echo_writable_memoryview", "sendall_failed_midway", "annotation_dict_reused", "annotation_buffer_mutated_in_place", "annotation_family"]
    RULE = ("plan = (COMPRESSION, MAX_MESSAGE_SIZE, correlation id, USE_MSG_WAITALL; 8-16 cases, each a stream of 1-3 "
            "messages with boundary-biased fields + sentinel + transport script (fragmentation seed, errno/short-read "
            "probabilities, truncation offset, mutation list) or a sender-only input); distinct = distinct plan digest / "
            "distinct transport event digest; non-trivial = at least one transport fault or mutation fired or a size "
            "refusal was exercised")
    ASSUMPTIONS = ["every run starts from the import-time contents of the module-level containers / lru caches of Pyro5.protocol and "
                   "Pyro5.socketutil (state carried between messages is examined inside one run, not across runs of a worker process)",
                   "concurrent cases: pre-emption granularity is the source line inside SendingMessage.__init__, ReceivingMessage.__init__/add_payload/validate and recv_stub; MAX_MESSAGE_SIZE is left at the default there",
                   "equivalence of re-encoded messages is judged at the decoded level",
                   "only byte-format memoryview annotation values are generated",
                   "a caller-supplied FLAGS_COMPRESSED / FLAGS_CORR_ID bit is treated as 'managed by the codec' (10% of messages)",
                   "retryable errnos come in bursts of at most 3; timeouts are not part of this property"]
    QUICK_RUNS = 8000
    CHUNK = 250
    SHRINK_LISTS = ["cases"]

    # ================================================================ generation
    def gen(self, rng, tier):
        r = rng.random()
        if r < 0.4:
            smax = None
        elif r < 0.85:
            smax = rng.choice([48, 64, 100, 150, 256, 1000, 4096])
        else:
            smax = rng.randint(48, 4096)
        r = rng.random()
        if r < 0.4:
            corr = None
        elif r < 0.85:
            corr = "%032x" % rng.getrandbits(128)
        else:
            corr = rng.choice(["00" * 16, "ff" * 16, "00" * 15 + "01", "80" + "00" * 15])
        cfg = {"comp": rng.random() < 0.5, "max": smax, "corr": corr, "waitall": rng.random() < 0.5}
        if rng.random() < 0.12:
            # a threaded plan: only concurrent cases (line pre-emption is switched on for the whole run)
            return {"cfg": cfg, "cases": [self._gen_conc_case(rng, cfg) for _ in range(rng.randint(2, 5))],
                    "p_line": rng.choice([0.05, 0.1, 0.15, 0.2, 0.3]), "p_block": rng.choice([0.0, 0.2, 0.5, 1.0])}
        n = rng.randint(8, 16)
        return {"cfg": cfg, "cases": [self._gen_case(rng, cfg) for _ in range(n)]}

    def _gen_conc_case(self, rng, cfg):
        c2 = dict(cfg, max=None)
        threads = []
        for _ in range(rng.randint(2, 3)):
            msgs = []
            for _ in range(rng.randint(2, 6)):
                m = self._gen_msg(rng, c2, allow_big=False)
                if m["pay"]["len"] > 400:
                    m["pay"]["len"] = rng.randint(0, 400)
                m["flags"] &= ~MANAGED
                used = {k for k, _ in m["ann"]}
                while len(m["ann"]) < 2 or (len(m["ann"]) < 6 and rng.random() < 0.5):     # a long constructor
                    m["ann"].append([self._key(rng, used), {"len": rng.randint(0, 12), "seed": rng.getrandbits(16), "mode": "text",
                                                            "as": rng.choice(_AS_TYPES)}])
                msgs.append(m)
            r = rng.random()
            corr = None if r < 0.3 else "%032x" % rng.getrandbits(128)
            tr = self._gen_tr(rng, 0)
            tr["eof"] = True
            tr["p_err"] = rng.choice([0, 0, 0.05, 0.2])
            if tr["mode"] == "bytewise":
                tr["mode"] = "rand"
                tr["kmax"] = max(tr["kmax"], 7)
            threads.append({"corr": corr, "msgs": msgs, "tr": tr, "order": rng.choice(["batch", "alt"]),
                            "snd": dict(self._gen_snd(rng), fail=None) if rng.random() < 0.6 else None})
        return {"k": "conc", "threads": threads}

    @staticmethod
    def _key(rng, used):
        while True:
            k = rng.choice(["HMAC", "CORR", "BLBI", "XYZW"]) if rng.random() < 0.4 else "".join(rng.choice(_LETTERS) for _ in range(4))
            if k not in used:
                used.add(k)
                return k

    def _gen_msg(self, rng, cfg, allow_big=True):
        lim = cfg["max"] or BIG
        r = rng.random()
        nann = 0 if r < 0.45 else rng.randint(1, 2) if r < 0.75 else rng.randint(3, 5) if r < 0.95 else rng.randint(6, 20)
        ann = []
        used = set()
        for _ in range(nann):
            r = rng.random()
            ln = 0 if r < 0.25 else rng.randint(1, 24) if r < 0.85 else rng.randint(25, 300)
            ann.append([self._key(rng, used), {"len": ln, "seed": rng.getrandbits(16), "mode": rng.choice(["rand", "text"]),
                                               "as": rng.choice(_AS_TYPES)}])
        asz = sum(8 + v["len"] for _, v in ann)
        if asz > lim and rng.random() < 0.9:
            while ann and asz > lim:
                asz -= 8 + ann.pop()[1]["len"]
        room = lim - asz
        r = rng.random()
        if r < 0.35:
            ln = rng.choice([0, 1, 2, 50, 99, 100, 101, 102, 128, 200])
        elif r < 0.6:
            ln = rng.randint(0, 300)
        elif r < 0.85 and cfg["max"]:
            ln = room + rng.choice([-2, -1, 0, 0, 1, 1, 2, 10])
        elif r < 0.98 or not allow_big:
            ln = rng.randint(300, 5000)
        else:
            ln = rng.choice([59999, 60000, 60001, rng.randint(60002, 130000)])
        if ln > room and rng.random() < 0.75:
            ln = room - rng.randint(0, min(max(room, 0), 5))
        ln = max(0, ln)
        typ = rng.choice([0, 1, 2, 3, 4, 5, 6, 255, rng.randint(0, 255)])
        ser = rng.choice([0, 1, 2, 3, 4, 255, rng.randint(0, 255)])
        seq = rng.choice([0, 1, 0xFFFF, 0x8000, 0x00FF, 0x0100, rng.randint(0, 0xFFFF), rng.randint(0, 0xFFFF)])
        r = rng.random()
        flags = 0 if r < 0.25 else 0xFFFF if r < 0.35 else (1 << rng.randrange(16)) if r < 0.55 else rng.getrandbits(16)
        if rng.random() < 0.9:
            flags &= ~MANAGED
        return {"via": "sut", "type": typ, "flags": flags, "seq": seq, "ser": ser,
                "pay": {"len": ln, "seed": rng.getrandbits(16), "mode": rng.choice(["rand", "rep", "text"])},
                "ann": ann}

    def _gen_ref_msg(self, rng, cfg, hostile):
        m = self._gen_msg(rng, cfg, allow_big=False)
        m["via"] = "ref"
        m["flags"] &= ~MANAGED
        for _, v in m["ann"]:
            v["as"] = "bytes"
        if rng.random() < 0.5:
            m["corr"] = "%032x" % rng.getrandbits(128)
        if rng.random() < 0.4:
            m["z"] = True
            m["zlevel"] = rng.choice([0, 1, 4, 6, 9])
            if m["pay"]["len"] <= 100 and not hostile:
                m["pay"]["len"] = rng.randint(101, 400)
        if hostile:
            fg = {}
            what = rng.choice(["tag", "version", "magic", "resv", "zjunk", "fakez", "dup", "rawkey", "annraw", "corrbytes",
                               "smallz"])
            if what == "tag":
                fg["tag"] = rng.choice(["5059524e", "70797261", "00000000", "4f525950"])
            elif what == "version":
                fg["version"] = rng.choice([0, 501, 503, 0xFFFF, 48, 0xf601])
            elif what == "magic":
                fg["magic"] = rng.choice([0, 0x4dc4, 0xc54d, 0xFFFF, 0x4dc5 ^ (1 << rng.randrange(16))])
            elif what == "resv":
                fg["resv"] = rng.choice([1, 0xFFFF, rng.randint(1, 0xFFFF)])
            elif what == "zjunk":
                m["z"] = True
                fg["zjunk"] = rng.randint(1, 9)
            elif what == "fakez":
                m.pop("z", None)
                fg["fakez"] = True
            elif what == "dup":
                if not m["ann"]:
                    m["ann"] = [["DUPL", {"len": 3, "seed": 1, "mode": "text", "as": "bytes"}]]
                fg["dup"] = True
            elif what == "rawkey":
                if not m["ann"]:
                    m["ann"] = [["RAWK", {"len": 2, "seed": 1, "mode": "text", "as": "bytes"}]]
                fg["rawkey"] = rng.choice(["ff414243", "414243e9", "00010203", "20202020", "80808080"])
            elif what == "annraw":
                fg["annraw"] = {"len": rng.choice([1, 4, 7, 8, 9, 12, 16, rng.randint(1, 40)]), "seed": rng.getrandbits(16),
                                "mode": rng.choice(["rand", "rep", "text"])}
            elif what == "corrbytes":
                m.pop("corr", None)
                fg["corrbytes"] = "%032x" % rng.getrandbits(128)
            elif what == "smallz":
                m["z"] = True
                m["pay"]["len"] = rng.randint(0, 100)
            m["forge"] = fg
        return m

    def _gen_raw(self, rng):
        r = rng.random()
        if r < 0.25:
            b = rng.randbytes(rng.randint(0, 60))
        elif r < 0.5:
            b = b"PYRO"[:rng.randint(1, 4)] + rng.randbytes(rng.randint(0, 50))
        elif r < 0.75:
            b = b"PYRO\x01\xf6" + rng.randbytes(rng.randint(0, 60))
        else:
            alen, dlen = rng.randint(0, 30), rng.randint(0, 30)
            b = N.HEADER.pack(b"PYRO", 502, rng.randint(0, 255), rng.randint(0, 255), rng.getrandbits(16), rng.getrandbits(16),
                              dlen, alen, rng.randbytes(16), rng.getrandbits(16), N.MAGIC) + rng.randbytes(alen + dlen + rng.randint(-3, 3) % 64)
        return {"via": "raw", "hex": b.hex()}

    @staticmethod
    def _gen_tr(rng, biggest):
        r = rng.random()
        mode = "full" if r < 0.25 else "bytewise" if r < 0.4 else "rand"
        kmax = rng.choice([1, 2, 3, 5, 7, 16, 40, 64, 1000, 59999, 60000])
        if biggest > 3000:
            if mode == "bytewise":
                mode = "rand"
            kmax = max(kmax, biggest // 40)
        return {"mode": mode, "kmax": kmax, "p_err": rng.choice([0, 0, 0.05, 0.2, 0.5]),
                "errs": rng.choice([["EINTR"], ["EAGAIN"], ["EINTR", "EAGAIN"], ["EWOULDBLOCK", "EINPROGRESS", "EINTR"]]),
                "p_short": rng.choice([0, 0.3, 0.8]), "seed": rng.getrandbits(24), "eof": rng.random() < 0.7}

    @staticmethod
    def _gen_off(rng, msg):
        """offset inside an encoded message (taken modulo its length): biased to header / annotation area"""
        r = rng.random()
        asz = sum(8 + v["len"] for _, v in msg.get("ann") or [])
        if r < 0.45:
            return rng.randrange(40)
        if r < 0.7 and asz:
            return 40 + rng.randrange(asz)
        return rng.randrange(40 + asz + max(1, min(msg.get("pay", {}).get("len", 0), 1 << 20)))

    def _gen_mut(self, rng, msgs):
        j = rng.randrange(len(msgs))
        m = msgs[j]
        nann = len(m.get("ann") or [])
        r = rng.random()
        if r < 0.3:
            return {"op": "flip", "msg": j, "off": self._gen_off(rng, m), "mask": rng.choice([1, 2, 4, 8, 16, 32, 64, 128, 0xFF, rng.randint(1, 255)])}
        if r < 0.45:
            return {"op": "set32", "msg": j, "off": rng.choice([12, 16]),
                    "val": rng.choice([{"d": 1}, {"d": -1}, {"d": 8}, {"d": -8}, {"abs": 0}, {"abs": 0xFFFFFFFF}, {"abs": 0x80000000},
                                       {"d": rng.randint(-40, 40)}, {"abs": rng.randint(0, 300)}])}
        if r < 0.65:
            return {"op": "shift", "msg": j, "d": rng.choice([1, -1, 4, -4, 7, 8, -8, 9, 12, rng.randint(-30, 30) or 1])}
        if r < 0.85 and nann:
            return {"op": "chunk", "msg": j, "idx": rng.randrange(nann),
                    "d": rng.choice([1, -1, 2, 8, -8, 0x100, 0x10000, 0x1000000, -0x100, rng.randint(-20, 60) or 3]),
                    "fix": rng.choice(["none", "none", "alen", "tile", "tile"])}
        if r < 0.93:
            return {"op": "ins", "msg": j, "off": self._gen_off(rng, m), "hex": rng.randbytes(rng.randint(1, 9)).hex()}
        return {"op": "del", "msg": j, "off": self._gen_off(rng, m), "n": rng.randint(1, 9)}

    def _gen_case(self, rng, cfg):
        r = rng.random()
        if r < 0.07:
            return self._gen_sender_case(rng, cfg)
        if r < 0.11:
            c2 = dict(cfg)
            if c2["max"] is None or c2["max"] > 400:
                c2["max"] = 400        # keep swept messages small
            m = self._gen_ref_msg(rng, c2, False) if rng.random() < 0.2 else self._gen_msg(rng, c2, allow_big=False)
            if m["pay"]["len"] > 400:
                m["pay"]["len"] = rng.randint(0, 400)
            what = "cut" if rng.random() < 0.5 else "flip"
            return {"k": "sweep", "what": what, "msg": m, "sent": rng.choice(["", "5a", "5059524f"]),
                    "tr": self._gen_tr(rng, 0), "how": "eof" if rng.random() < 0.8 else "rst",
                    "mask": rng.choice([1, 2, 4, 8, 16, 32, 64, 128, 0xFF]), "mode": "direct" if rng.random() < 0.2 else "stub"}
        nm = rng.choice([1, 1, 2, 2, 3])
        r2 = rng.random()
        msgs = []
        for _ in range(nm):
            q = rng.random()
            if r2 < 0.12:      # hostile stream
                msgs.append(self._gen_raw(rng) if q < 0.35 else self._gen_ref_msg(rng, cfg, True) if q < 0.8
                            else self._gen_ref_msg(rng, cfg, False))
            else:
                msgs.append(self._gen_ref_msg(rng, cfg, False) if q < 0.12 else self._gen_msg(rng, cfg))
        biggest = max([m.get("pay", {}).get("len", 0) for m in msgs] + [0])
        sent = rng.choice(["", "5a", "50", "5059524f", "5059524f01f6", "5059524f01f6" + "00" * 34, rng.randbytes(rng.randint(1, 8)).hex()])
        case = {"k": "stream", "msgs": msgs, "sent": sent, "tr": self._gen_tr(rng, biggest), "mut": [], "cut": None,
                "rmax": None, "mode": "stub"}
        if r2 < 0.12:
            pass
        elif r2 < 0.45:       # clean delivery, fragmented
            if msgs[0].get("via", "sut") == "sut" and rng.random() < 0.35:
                case["msgs"] = self._gen_family(rng, cfg, msgs[0])
                case["fam"] = True
        elif r2 < 0.60:       # truncation
            j = rng.randrange(nm)
            case["cut"] = {"msg": j, "off": self._gen_off(rng, msgs[j]), "how": "eof" if rng.random() < 0.8 else "rst"}
        elif r2 < 0.85:       # mutation
            case["mut"] = [self._gen_mut(rng, msgs) for _ in range(rng.choice([1, 1, 1, 2, 3]))]
            case["tr"]["eof"] = True
        else:                 # receiver limit relative to the declared size of one message
            case["rmax"] = {"msg": rng.randrange(nm), "d": rng.choice([-1, -1, 0, 0, 1, -2, -40, rng.randint(-100, 100)])}
        if case["cut"] is None and rng.random() < 0.15:
            case["mode"] = "direct"
        elif rng.random() < 0.5:
            case["snd"] = self._gen_snd(rng)
        if case["mut"] or r2 < 0.12:
            case["tr"]["eof"] = True
        return case

    def _gen_family(self, rng, cfg, base):
        """2-5 further messages whose annotations are related to the first one's: identical, same contents as another
        buffer type, same keys / lengths with other contents, values swapped between keys, or ONE dict object that
        the caller keeps and changes between messages (a sender that remembers encodings must not mix them up)"""
        import copy
        lim = cfg["max"] or BIG
        used = {k for k, _ in base["ann"]}
        while len(base["ann"]) < 2:
            base["ann"].append([self._key(rng, used), {"len": rng.randint(1, 6), "seed": rng.getrandbits(16), "mode": "text",
                                                       "as": rng.choice(_AS_TYPES)}])
        if rng.random() < 0.6:
            base["ann"][0][1]["as"] = rng.choice(["bytearray", "mv_rw", "mv_rw_slice"])
            if base["ann"][0][1]["len"] == 0:
                base["ann"][0][1]["len"] = 3
        asz = sum(8 + v["len"] for _, v in base["ann"])
        if base["pay"]["len"] + asz > lim:
            base["pay"]["len"] = max(0, lim - asz)
        msgs = [base]
        for _ in range(rng.randint(2, 5)):
            m = copy.deepcopy(msgs[-1])
            m.pop("reuse", None)
            m["seq"] = (m["seq"] + 1) & 0xFFFF
            how = rng.choice(["same", "retype", "retype", "recontent", "recontent", "swap", "reuse", "reuse", "reuse"])
            if how == "retype":
                for _, v in m["ann"]:
                    v["as"] = rng.choice(_AS_TYPES)
            elif how == "recontent":
                for _, v in m["ann"]:
                    if rng.random() < 0.7:
                        v["seed"] = rng.getrandbits(16)
                        v["mode"] = "rand"
            elif how == "swap":
                a, b = rng.sample(range(len(m["ann"])), 2)
                m["ann"][a][1], m["ann"][b][1] = m["ann"][b][1], m["ann"][a][1]
            elif how == "reuse":
                m["reuse"] = len(msgs) - 1
                v = m["ann"][rng.randrange(len(m["ann"]))][1]
                v["seed"] = rng.getrandbits(16)
                v["mode"] = "rand"
                if rng.random() < 0.3:
                    v["as"] = rng.choice(_AS_TYPES)
            msgs.append(m)
        return msgs

    @staticmethod
    def _gen_snd(rng):
        """the sending socket: blocking (sendall) or with a timeout (send loop; short writes and EAGAIN possible)"""
        snd = {"timeout": rng.choice([None, 0.5, 5.0, 5.0]), "kmax": rng.choice([1, 3, 17, 100, 1000, 59999, 60001, 100000]),
               "p_short": rng.choice([0.3, 0.8, 1.0]), "p_err": rng.choice([0, 0, 0.1, 0.3]), "seed": rng.getrandbits(24)}
        if snd["timeout"] is None and rng.random() < 0.5:
            # sendall() is not resumable: k > 0 bytes of one message go out, then a retryable errno
            snd["fail"] = {"call": rng.randrange(3), "off": rng.choice([0, 1, 5, 38, 39, 40, 47, rng.randrange(400), rng.getrandbits(17)]),
                           "err": rng.choice(["EAGAIN", "EINTR", "EWOULDBLOCK", "EINPROGRESS"])}
        return snd

    def _gen_sender_case(self, rng, cfg):
        m = self._gen_msg(rng, cfg, allow_big=False)
        r = rng.random()
        bad = None
        if r < 0.35:
            key = rng.choice(["", "A", "AB", "ABC", "ABCDE", "ABCDEFGH"])
            m["ann"].insert(rng.randint(0, len(m["ann"])), [key, {"len": rng.randint(0, 8), "seed": 1, "mode": "text", "as": "bytes"}])
            bad = "keylen"
        elif r < 0.6:
            m["ann"].insert(rng.randint(0, len(m["ann"])), ["STRV", {"len": rng.randint(0, 8), "seed": 1, "mode": "text", "as": "str"}])
            bad = "strval"
        elif cfg["max"]:
            asz = sum(8 + v["len"] for _, v in m["ann"])
            m["pay"]["len"] = max(0, cfg["max"] - asz + rng.choice([-1, 0, 1, 1, 2, 100]))
        return {"k": "sender", "msg": m, "bad": bad}

    def line_codes(self, plan):
        if any(c.get("k") == "conc" for c in plan.get("cases") or []):
            return _conc_codes()
        return ()

    # ================================================================ shrinking help
    def simplify(self, plan):
        import copy
        cfg = plan["cfg"]
        for k, v in (("comp", False), ("corr", None), ("waitall", False), ("max", None)):
            if cfg.get(k) != v:
                p = copy.deepcopy(plan)
                p["cfg"][k] = v
                yield p
        for i, c in enumerate(plan["cases"]):
            if c.get("k") == "conc":
                ths = c.get("threads") or []
                if len(ths) > 2:
                    for t in range(len(ths)):
                        p = copy.deepcopy(plan)
                        del p["cases"][i]["threads"][t]
                        yield p
                for t, th in enumerate(ths):
                    for k in range(len(th.get("msgs") or [])):
                        if len(th["msgs"]) > 1:
                            p = copy.deepcopy(plan)
                            del p["cases"][i]["threads"][t]["msgs"][k]
                            yield p
                    tr = th.get("tr") or {}
                    if tr.get("mode", "full") != "full" or tr.get("p_err") or tr.get("p_short"):
                        p = copy.deepcopy(plan)
                        p["cases"][i]["threads"][t]["tr"] = {"mode": "full", "eof": True}
                        yield p
                    if th.get("corr"):
                        p = copy.deepcopy(plan)
                        p["cases"][i]["threads"][t]["corr"] = None
                        yield p
                    if th.get("snd"):
                        p = copy.deepcopy(plan)
                        p["cases"][i]["threads"][t]["snd"] = None
                        yield p
                continue
            if c.get("k") == "sweep":
                # a sweep is the union of single-offset stream cases: find the one that matters
                for o in range(640):
                    p = copy.deepcopy(plan)
                    sub = {"k": "stream", "msgs": [c["msg"]], "sent": c.get("sent", "5a"), "mut": [], "cut": None, "rmax": None,
                           "tr": dict(c.get("tr") or {}, seed=(c.get("tr") or {}).get("seed", 0) + o), "mode": c.get("mode", "stub")}
                    if c.get("what", "cut") == "cut":
                        sub["cut"] = {"msg": 0, "off": o, "how": c.get("how", "eof")}
                        sub["mode"] = "stub"
                    else:
                        sub["mut"] = [{"op": "flip", "msg": 0, "off": o, "mask": c.get("mask", 1)}]
                    p["cases"][i] = sub
                    yield p
                continue
            if c.get("k") != "stream":
                continue
            nm = len(c["msgs"])
            if nm > 1:
                # drop one message no fault refers to (indices of the faults are renumbered)
                holders = [o for o in c.get("mut") or []] + [h for h in (c.get("cut"), c.get("rmax")) if h]
                refs = {h.get("msg", 0) % nm for h in holders}
                for j in range(nm):
                    if j in refs:
                        continue
                    p = copy.deepcopy(plan)
                    cc = p["cases"][i]
                    del cc["msgs"][j]
                    for h in [o for o in cc.get("mut") or []] + [h for h in (cc.get("cut"), cc.get("rmax")) if h]:
                        k = h.get("msg", 0) % nm
                        h["msg"] = k - 1 if k > j else k
                    yield p
            tr = c.get("tr") or {}
            if tr.get("mode", "full") != "full" or tr.get("p_err") or tr.get("p_short"):
                p = copy.deepcopy(plan)
                p["cases"][i]["tr"] = {"mode": "full", "eof": tr.get("eof", True)}
                yield p
            if len(c.get("mut") or []) > 1:
                for j in range(len(c["mut"])):
                    p = copy.deepcopy(plan)
                    del p["cases"][i]["mut"][j]
                    yield p
            if c.get("sent"):
                p = copy.deepcopy(plan)
                p["cases"][i]["sent"] = ""
                yield p
            if c.get("snd"):
                p = copy.deepcopy(plan)
                p["cases"][i]["snd"] = None
                yield p
                if c["snd"].get("fail"):
                    p = copy.deepcopy(plan)
                    p["cases"][i]["snd"].pop("fail")
                    yield p
            if c.get("mode") != "direct" and not c.get("cut"):
                p = copy.deepcopy(plan)
                p["cases"][i]["mode"] = "direct"
                yield p
            for j, m in enumerate(c["msgs"]):
                if m.get("via") == "raw":
                    continue
                if m.get("ann"):
                    for a in range(len(m["ann"])):
                        p = copy.deepcopy(plan)
                        del p["cases"][i]["msgs"][j]["ann"][a]
                        yield p
                    for a, (_, v) in enumerate(m["ann"]):
                        if v.get("len", 0) > 1:
                            p = copy.deepcopy(plan)
                            p["cases"][i]["msgs"][j]["ann"][a][1]["len"] = v["len"] // 2
                            yield p
                pl = (m.get("pay") or {}).get("len", 0)
                if pl > 0:
                    for nl in (0, pl // 2, pl - 1):
                        if nl != pl:
                            p = copy.deepcopy(plan)
                            p["cases"][i]["msgs"][j]["pay"]["len"] = nl
                            yield p
                for f in ("type", "flags", "seq", "ser"):
                    if m.get(f):
                        p = copy.deepcopy(plan)
                        p["cases"][i]["msgs"][j][f] = 0
                        yield p

    # ================================================================ scenario
    def scenario(self, ctx):
        plan = ctx.plan
        cfg = plan["cfg"]
        self._info_done = False
        _restore_module_state(_MODULE_STATE)
        for i, case in enumerate(plan["cases"]):
            # every case starts from the run configuration (cases must not leak into each other)
            config.COMPRESSION = bool(cfg.get("comp"))
            if cfg.get("max") is not None:
                config.MAX_MESSAGE_SIZE = cfg["max"]
            else:
                config.MAX_MESSAGE_SIZE = BIG
            current_context.correlation_id = uuid.UUID(hex=cfg["corr"]) if cfg.get("corr") else None
            SU.USE_MSG_WAITALL = bool(cfg.get("waitall"))
            nv = len(ctx.violations)
            if case.get("k") == "sender":
                self._sender_case(ctx, i, case, cfg)
            elif case.get("k") == "sweep":
                self._sweep_case(ctx, i, case, cfg)
            elif case.get("k") == "conc":
                self._conc_case(ctx, i, case, cfg)
            else:
                self._stream_case(ctx, i, case, cfg)
            if len(ctx.violations) > nv and not self._info_done:
                self._info_done = True
                ctx.info["first_violating_case"] = i
        current_context.correlation_id = None

    # ---------------------------------------------------------------- concurrent builders / readers
    def _conc_case(self, ctx, i, case, cfg):
        sched = ctx.sched
        config.MAX_MESSAGE_SIZE = BIG
        ctx.probe("concurrent")
        pre0 = sched.preempts
        recs = []

        def worker(ti, th, rec):
            try:
                current_context.correlation_id = uuid.UUID(hex=th["corr"]) if th.get("corr") else None
                specs = th.get("msgs") or []
                objs = []
                for spec in specs:
                    ann = {}
                    for k, v in spec.get("ann") or []:
                        ann[k] = _ann_value(v)
                    objs.append((_bytes(spec.get("pay")), ann))

                def build(k):
                    spec = specs[k]
                    t0 = sched.stamp()
                    try:
                        sm = PR.SendingMessage(spec["type"], spec["flags"], spec["seq"], spec["ser"], objs[k][0], objs[k][1] or None)
                        out = bytes(sm.data)
                    except Exception as x:  # noqa
                        out = x
                    rec["enc"].append((t0, sched.stamp(), out))
                    sched.ev("c-enc", i, ti, k, len(out) if isinstance(out, bytes) else type(out).__name__)
                    return out

                def read(conn, k):
                    try:
                        msg = PR.recv_stub(conn)
                        out = _decoded(msg)
                    except Exception as x:  # noqa
                        out = x
                    rec["dec"].append(out)
                    sched.ev("c-dec", i, ti, k, "msg" if isinstance(out, dict) else type(out).__name__)
                    return out

                if th.get("order") == "alt":
                    for k in range(len(specs)):
                        raw = build(k)
                        if not isinstance(raw, bytes):
                            break
                        if th.get("snd"):
                            raw = bytes(_send_through([raw], dict(th["snd"], seed=th["snd"].get("seed", 0) + k, fail=None), sched).buf)
                        sock = ScriptSock(raw, dict(th.get("tr") or {}, eof=True, seed=(th.get("tr") or {}).get("seed", 0) + k), sched=sched)
                        if not isinstance(read(SU.SocketConnection(sock, keep_open=True), k), dict):
                            break
                else:
                    raws = []
                    for k in range(len(specs)):
                        raw = build(k)
                        if not isinstance(raw, bytes):
                            break
                        raws.append(raw)
                    wire = bytes(_send_through(raws, dict(th["snd"], fail=None), sched).buf) if th.get("snd") else b"".join(raws)
                    sock = ScriptSock(wire, dict(th.get("tr") or {}, eof=True), sched=sched)
                    conn = SU.SocketConnection(sock, keep_open=True)
                    for k in range(len(raws)):
                        if not isinstance(read(conn, k), dict):
                            break
                    rec["left"] = len(sock.data) - sock.pos
            except _Hang:
                rec["hang"] = True
            finally:
                current_context.correlation_id = None
                rec["done"] = True

        ths = []
        for ti, th in enumerate(case.get("threads") or []):
            rec = {"enc": [], "dec": [], "done": False, "left": 0}
            recs.append(rec)
            ths.append(threading.Thread(target=worker, args=(ti, th, rec), name="wire-c%d-t%d" % (i, ti)))
        for t in ths:
            t.start()
        for t in ths:
            t.join(3600.0)
        for t in ths:
            st = sched.sim_thread_of(t)
            if st is not None and st.died:
                raise S.HarnessError("concurrent worker died: %r" % (st.died,))
        if not all(r["done"] for r in recs):
            ctx.violate("hang", "concurrent", "case %d: a thread building / decoding its own messages did not finish within 3600 virtual seconds" % i)
            return
        if sched.preempts > pre0:
            ctx.probe("concurrent_preempted")
            ctx.nontrivial = True
        iv = [(a, b, ti) for ti, r in enumerate(recs) for a, b, _ in r["enc"]]
        if any(a1 < b2 and a2 < b1 and t1 != t2 for n, (a1, b1, t1) in enumerate(iv) for a2, b2, t2 in iv[n + 1:]):
            ctx.probe("concurrent_overlap")
        # ---- oracle: every thread sees only its own messages
        def blame(ti, th, rec, kind, key, msg):
            """a wrong result that the same thread body also produces when it runs alone is a plain codec defect"""
            rec2 = {"enc": [], "dec": [], "done": False, "left": 0}
            worker(ti, th, rec2)
            same = len(rec2["enc"]) == len(rec["enc"]) and len(rec2["dec"]) == len(rec["dec"]) and \
                all((a[2] == b[2]) if isinstance(a[2], bytes) else type(a[2]) is type(b[2]) for a, b in zip(rec["enc"], rec2["enc"])) and \
                all((a == b) if isinstance(a, dict) else type(a) is type(b) for a, b in zip(rec["dec"], rec2["dec"])) and \
                rec.get("hang") == rec2.get("hang") and rec["left"] == rec2["left"]
            if same:
                ctx.violate("decode-mismatch", "in-thread:" + key, msg + " [the thread body gives the same result when run alone]")
            else:
                ctx.violate(kind, key, msg + " [run alone, the same thread body gives a different result]")

        for ti, (th, rec) in enumerate(zip(case.get("threads") or [], recs)):
            specs = th.get("msgs") or []
            enc_ok = True
            for k, (_, _, out) in enumerate(rec["enc"]):
                spec = specs[k]
                exp = {"type": spec["type"], "flags": spec["flags"] & ~MANAGED, "seq": spec["seq"], "ser": spec["ser"],
                       "ann": {a: _bytes(v) for a, v in spec.get("ann") or []},
                       "corr": bytes.fromhex(th["corr"]) if th.get("corr") else None, "data": _bytes(spec.get("pay"))}
                skip = ("corr",) if spec["flags"] & F_CORR else ()
                if not isinstance(out, bytes):
                    blame(ti, th, rec, "cross-thread-corruption", "encoder", "case %d thread %d message %d: SendingMessage raised %r while "
                                "other threads were building messages" % (i, ti, k, out))
                    enc_ok = False
                    break
                rk, rf = ref_parse(out, 0, BIG, exact=True)
                d = _diff(rf, exp, skip) if rk == "msg" else rk
                if d:
                    blame(ti, th, rec, "cross-thread-corruption", "encoder", "case %d thread %d message %d: the bytes built by this thread are "
                                "not its own message (reference parser: %s%s); header %s" % (
                                    i, ti, k, d, "" if rk != "msg" else " = %s, this thread encoded %s" % (_short(rf[d]), _short(exp[d])),
                                    out[:40].hex()))
                    enc_ok = False
                    break
                if k < len(rec["dec"]):
                    dec = rec["dec"][k]
                    if not isinstance(dec, dict):
                        blame(ti, th, rec, "cross-thread-corruption", "decoder", "case %d thread %d message %d: bytes are this thread's own "
                                    "well-formed message but decoding raised %r" % (i, ti, k, dec))
                        enc_ok = False
                        break
                    d = _diff(dec, exp, skip)
                    if d:
                        blame(ti, th, rec, "cross-thread-corruption", "decoder", "case %d thread %d message %d: field %s decoded as %s, this "
                                    "thread encoded %s (bytes were correct)" % (i, ti, k, d, _short(dec[d]), _short(exp[d])))
                        enc_ok = False
                        break
            if enc_ok:
                if rec.get("hang"):
                    blame(ti, th, rec, "cross-thread-corruption", "hang", "case %d thread %d: the reader asked for more bytes than were sent" % (i, ti))
                elif len(rec["dec"]) != len(rec["enc"]) or rec["left"]:
                    blame(ti, th, rec, "cross-thread-corruption", "cursor", "case %d thread %d: %d messages built, %d decoded, %d bytes left"
                                % (i, ti, len(rec["enc"]), len(rec["dec"]), rec["left"]))

    # ---------------------------------------------------------------- sender side
    def _encode_sut(self, ctx, i, spec, cfg, ann_obj=None):
        """build with the real SendingMessage under the run configuration; apply the sender oracle.
        returns (raw bytes | None, expected fields | None)"""
        smax = config.MAX_MESSAGE_SIZE
        payload = _bytes(spec.get("pay"))
        if ann_obj is not None:
            ann = ann_obj
        else:
            ann = {}
            for k, v in spec.get("ann") or []:
                ann[k] = _ann_value(v)
        asz = sum(8 + len(v) for v in ann.values())
        applies = bool(cfg.get("comp")) and len(payload) > 100
        try:
            sm = PR.SendingMessage(spec["type"], spec["flags"], spec["seq"], spec["ser"], payload, ann if ann else None)
        except E.ProtocolError as x:
            if applies:
                justified = _compress_bound(len(payload)) + asz > smax
            else:
                justified = len(payload) + asz > smax
            ctx.sched.ev("enc-refused", i, justified)
            if justified:
                ctx.probe("oversize_sender")
                ctx.nontrivial = True
            else:
                ctx.violate("valid-refused-by-sender", "ProtocolError",
                            "case %d: payload %d + annotations %d <= MAX_MESSAGE_SIZE %d but SendingMessage raised %r"
                            % (i, len(payload), asz, smax, x))
            return None, None
        except Exception as x:  # noqa
            ctx.sched.ev("enc-raised", i, type(x).__name__)
            ctx.violate("valid-refused-by-sender", type(x).__name__,
                        "case %d: SendingMessage(type=%d flags=0x%x seq=%d ser=%d, %d payload bytes, %d annotations) raised %r"
                        % (i, spec["type"], spec["flags"], spec["seq"], spec["ser"], len(payload), len(ann), x))
            return None, None
        raw = bytes(sm.data)
        h = N.parse_header(raw[:40])
        declared = (h["dlen"] + h["alen"]) if h is not None else None
        if (declared is not None and declared > smax) or (not applies and len(payload) + asz > smax):
            ctx.violate("oversize-not-refused-by-sender", "",
                        "case %d: SendingMessage built a message of declared size %r (payload %d + annotations %d) with "
                        "MAX_MESSAGE_SIZE=%d" % (i, declared, len(payload), asz, smax))
        exp = {"type": spec["type"], "flags": spec["flags"] & ~MANAGED, "seq": spec["seq"], "ser": spec["ser"],
               "ann": {k: bytes(v) for k, v in ann.items()},
               "corr": bytes.fromhex(cfg["corr"]) if cfg.get("corr") else None, "data": payload,
               "skip": ("corr",) if spec["flags"] & F_CORR else ()}
        return raw, exp

    def _sender_case(self, ctx, i, case, cfg):
        spec = case["msg"]
        bad = case.get("bad")
        if bad:
            payload = _bytes(spec.get("pay"))
            ann = {}
            for k, v in spec.get("ann") or []:
                ann[k] = _ann_value(v)
            try:
                sm = PR.SendingMessage(spec["type"], spec["flags"], spec["seq"], spec["ser"], payload, ann)
            except E.ProtocolError:
                ctx.probe("sender_bad_key" if bad == "keylen" else "sender_str_value")
                ctx.sched.ev("bad", i, bad, "ProtocolError")
            except Exception as x:  # noqa
                ctx.sched.ev("bad", i, bad, type(x).__name__)
                # any error refuses the unbuildable message; the statement does not fix the class
                ctx.probe("sender_bad_key" if bad == "keylen" else "sender_str_value")
            else:
                ctx.sched.ev("bad", i, bad, "built")
                ctx.violate("invalid-annotation-accepted-by-sender", bad,
                            "case %d: SendingMessage built %d bytes from annotations %s"
                            % (i, len(sm.data), _short([(k, type(v).__name__) for k, v in ann.items()], 200)))
            return
        raw, exp = self._encode_sut(ctx, i, spec, cfg)
        if raw is None:
            return
        # a message the sender built must decode (no transport) to what went in
        self._decode_direct(ctx, i, raw, config.MAX_MESSAGE_SIZE, exp, hostile=False, spec=spec)

    # ---------------------------------------------------------------- checks shared by both decode paths
    def _check_accepted(self, ctx, i, where, msg, rk, rf, exp, hostile, consumed, spec, raw_hex):
        """Pyro returned a message. rk/rf: reference verdict for the same bytes. Returns True if consistent."""
        if rk != "msg":
            if rk in ("short", "incomplete"):
                ctx.violate("truncated-accepted", "", "case %d %s: a message was returned from an incomplete byte string (%s): %s"
                            % (i, where, rk, raw_hex))
            elif rk == "oversize":
                ctx.violate("oversize-not-refused-by-receiver", "",
                            "case %d %s: declared size %d > MAX_MESSAGE_SIZE %d was accepted"
                            % (i, where, rf["alen"] + rf["dlen"], config.MAX_MESSAGE_SIZE))
            else:
                ctx.violate("malformed-accepted", rk, "case %d %s: Pyro accepted bytes the reference parser calls %s: %s"
                            % (i, where, rk, raw_hex))
            return False
        dec = _decoded(msg)
        ok = True
        if consumed is not None and consumed != rf["total"]:
            ctx.violate("cursor-mismatch", "", "case %d %s: message of %d bytes, %d bytes consumed" % (i, where, rf["total"], consumed))
            ok = False
        d = _diff(dec, rf)
        if d:
            ctx.violate("decode-mismatch", "ref:" + d, "case %d %s: field %s decoded as %s, reference decoder says %s; bytes %s"
                        % (i, where, d, _short(dec[d]), _short(rf[d]), raw_hex))
            ok = False
        if exp is not None:
            d = _diff(dec, exp, exp.get("skip", ()))
            if d:
                key = d
                if spec is not None and spec.get("flags", 0) & MANAGED:
                    key = d + ":caller-set-managed-flag"
                ctx.violate("decode-mismatch", key, "case %d %s: field %s: encoded %s, decoded %s"
                            % (i, where, d, _short(exp[d]), _short(dec[d])))
                ok = False
            else:
                self._clean_probes(ctx, spec, dec, rf)
        # re-encode what was accepted and decode it again
        if ok:
            self._reencode(ctx, i, where, msg, dec)
        # the receiver owns what it decoded: an application that adds to the annotations of THIS message (Pyro's own client
        # code does, when it forwards a blob) must not change what any other message decodes to
        try:
            if isinstance(msg.annotations, dict) and len(msg.annotations) < 3:
                msg.annotations["Z%03d" % (i % 1000)] = b"written into a decoded message"
                ctx.probe("decoded_annotations_written")
        except Exception:  # noqa
            pass
        return ok

    def _clean_probes(self, ctx, spec, dec, rf):
        if rf["wire_flags"] & F_COMP:
            ctx.probe("compressed")
        if dec["corr"] is not None:
            ctx.probe("corr_id")
        if len(dec["ann"]) >= 3:
            ctx.probe("annotations_many")
        if spec is not None:
            for _, v in spec.get("ann") or []:
                if v.get("len", 0) == 0:
                    ctx.probe("zero_len_annotation")
                if v.get("as") in ("mv_rw", "mv_rw_slice"):
                    ctx.probe("memoryview_writable_annotation")
                if v.get("as") in ("mv_slice", "mv_rw_slice"):
                    ctx.probe("memoryview_slice_annotation")
                if v.get("as") in ("memoryview", "mv_rw", "mv_slice", "mv_rw_slice"):
                    ctx.probe("memoryview_annotation")
            if spec.get("type") in (0, 255) or spec.get("ser") in (0, 255) or spec.get("seq") in (0, 0xFFFF) or \
                    (spec.get("flags", 0) | MANAGED) == 0xFFFF:
                ctx.probe("boundary_field")
            if spec.get("via") == "ref":
                ctx.probe("ref_built_accepted")
        if rf["alen"] + rf["dlen"] == config.MAX_MESSAGE_SIZE:
            ctx.probe("max_boundary_exact")
        if rf["dlen"] > 60000:
            ctx.probe("large_over_60000")

    def _reencode(self, ctx, i, where, msg, dec):
        save_max, save_corr = config.MAX_MESSAGE_SIZE, current_context.correlation_id
        try:
            config.MAX_MESSAGE_SIZE = BIG
            current_context.correlation_id = uuid.UUID(bytes=dec["corr"]) if dec["corr"] is not None else None
            try:
                # echo shape: the annotations of the RECEIVED message (memoryviews into the receive buffer, writable when
                # receive_data assembled it from fragments) go into a new message as they are
                echo = dict(msg.annotations)
                if any(isinstance(v, memoryview) and not v.readonly for v in echo.values()):
                    ctx.probe("echo_writable_memoryview")
                sm = PR.SendingMessage(msg.type, msg.flags, msg.seq, msg.serializer_id, dec["data"], echo)
                raw = bytes(sm.data)
                m2 = PR.ReceivingMessage(raw[:40], raw[40:])
                dec2 = _decoded(m2)
            except Exception as x:  # noqa
                ctx.violate("reencode-mismatch", type(x).__name__, "case %d %s: re-encoding the accepted message raised %r" % (i, where, x))
                return
            d = _diff(dec, dec2)
            if d:
                ctx.violate("reencode-mismatch", d, "case %d %s: decode(encode(m)).%s = %s, m.%s = %s"
                            % (i, where, d, _short(dec2[d]), d, _short(dec[d])))
            else:
                ctx.probe("reencoded")
        finally:
            config.MAX_MESSAGE_SIZE = save_max
            current_context.correlation_id = save_corr

    def _check_oversize_refusal(self, ctx, i, where, x, consumed):
        if consumed is not None and consumed > 40:
            ctx.violate("oversize-body-read", "", "case %d %s: %d bytes of an oversize message were read before %r"
                        % (i, where, consumed, x))
        else:
            # refused without reading the body: that is what the statement demands (it does not name an exception class)
            ctx.probe("oversize_receiver")
            ctx.nontrivial = True

    # ---------------------------------------------------------------- direct decode (no socket)
    def _decode_direct(self, ctx, i, S, rmax, exp, hostile, spec=None, mutated=False):
        ctx.probe("direct_decode")
        rk, rf = ref_parse(S, 0, rmax, exact=True)
        raw_hex = S[:200].hex() + ("..." if len(S) > 200 else "")
        if rk == "msg" and i % 3 == 0:
            # the same bytes cut differently: a "header" of more than 40 bytes is not a header (the two arguments must tile
            # the message exactly: 40 header bytes, then annotations + payload)
            k = 1 + (i // 3) % 9
            for hdr, body in ((S[:40 + k], S[40 + k:]), (S[:40] + b"\0" * k, S[40:]), (S, b"")):
                if len(hdr) == 40:
                    continue
                try:
                    m2 = PR.ReceivingMessage(hdr, body)
                except Exception:  # noqa
                    ctx.probe("overlong_header_rejected")
                    continue
                ctx.violate("malformed-accepted", "overlong-header", "case %d direct: ReceivingMessage accepted a header argument of %d "
                            "bytes (type %r seq %r, %d payload bytes): %s" % (i, len(hdr), m2.type, m2.seq, len(m2.data or b""), raw_hex))
                return
        try:
            msg = PR.ReceivingMessage(S[:40], S[40:])
        except Exception as x:  # noqa
            ctx.sched.ev("direct", i, type(x).__name__)
            if rk == "oversize":
                self._check_oversize_refusal(ctx, i, "direct", x, None)
            elif not hostile:
                key = type(x).__name__
                if spec is not None and spec.get("via", "sut") == "sut" and spec.get("flags", 0) & MANAGED:
                    key += ":caller-set-managed-flag"
                ctx.violate("valid-rejected", key, "case %d direct: a sender-buildable message was rejected: %r; bytes %s"
                            % (i, x, raw_hex))
            else:
                ctx.probe("mutated_rejected" if mutated else "hostile_rejected")
                if rk == "badann":
                    ctx.probe("chunk_overrun_rejected")
            return
        ctx.sched.ev("direct", i, "msg", msg.type, msg.seq, len(msg.data))
        if self._check_accepted(ctx, i, "direct", msg, rk, rf, exp, hostile, None, spec, raw_hex) and hostile:
            ctx.probe("mutated_accepted" if mutated else "hostile_accepted")

    # ---------------------------------------------------------------- mutations
    def _mutate(self, ctx, S, bounds, ops):
        """returns (mutated bytes, index of first message touched | None)"""
        buf = bytearray(S)
        first = None
        for o in ops:
            if not bounds:
                break
            j = o.get("msg", 0) % len(bounds)
            st, en = bounds[j]
            ln = en - st
            if ln <= 0:
                continue
            op = o.get("op")
            fired = None
            if op == "flip":
                p = st + o.get("off", 0) % ln
                if p < len(buf):
                    buf[p] ^= (o.get("mask", 1) & 0xFF) or 1
                    fired = "byte_flip"
            elif op == "set32":
                p = st + o.get("off", 12)
                if ln >= 40 and p + 4 <= len(buf):
                    old = int.from_bytes(buf[p:p + 4], "big")
                    v = o.get("val") or {}
                    new = v["abs"] if "abs" in v else old + v.get("d", 1)
                    new = max(0, min(0xFFFFFFFF, new))
                    if new != old:
                        buf[p:p + 4] = new.to_bytes(4, "big")
                        fired = "length_rewrite"
            elif op == "shift":
                if ln >= 40 and st + 40 <= len(buf):
                    dl = int.from_bytes(buf[st + 12:st + 16], "big")
                    al = int.from_bytes(buf[st + 16:st + 20], "big")
                    d = o.get("d", 1)
                    d = max(-al, dl - 0xFFFFFFFF, min(dl, 0xFFFFFFFF - al, d))
                    if d:
                        buf[st + 12:st + 16] = (dl - d).to_bytes(4, "big")
                        buf[st + 16:st + 20] = (al + d).to_bytes(4, "big")
                        fired = "boundary_shift"
            elif op == "chunk":
                rel = _chunk_len_pos(bytes(buf[st:en]), o.get("idx", 0))
                if rel is not None and st + rel + 4 <= len(buf):
                    p = st + rel
                    old = int.from_bytes(buf[p:p + 4], "big")
                    new = max(0, min(0xFFFFFFFF, old + o.get("d", 1)))
                    d = new - old
                    dl = int.from_bytes(buf[st + 12:st + 16], "big")
                    al = int.from_bytes(buf[st + 16:st + 20], "big")
                    fix = o.get("fix", "none")
                    if fix == "tile" and not (0 <= dl - d <= 0xFFFFFFFF and 0 <= al + d <= 0xFFFFFFFF):
                        fix = "none"
                    if fix == "alen" and not 0 <= al + d <= 0xFFFFFFFF:
                        fix = "none"
                    if d:
                        buf[p:p + 4] = new.to_bytes(4, "big")
                        if fix in ("alen", "tile"):
                            buf[st + 16:st + 20] = (al + d).to_bytes(4, "big")
                        if fix == "tile":
                            buf[st + 12:st + 16] = (dl - d).to_bytes(4, "big")
                        fired = "chunk_len_rewrite"
            elif op == "ins":
                p = min(len(buf), st + o.get("off", 0) % ln)
                buf[p:p] = bytes.fromhex(o.get("hex", "00"))
                fired = "insert"
            elif op == "del":
                p = min(len(buf), st + o.get("off", 0) % ln)
                n = max(1, o.get("n", 1))
                if p < len(buf):
                    del buf[p:p + n]
                    fired = "delete"
            if fired:
                ctx.fault(fired)
                first = j if first is None else min(first, j)
        return bytes(buf), first

    # ---------------------------------------------------------------- stream case
    def _build_msgs(self, ctx, i, msgs, cfg):
        raws, exps, specs, hostile = [], [], [], []
        dicts = {}
        for mi, spec in enumerate(msgs or []):
            via = spec.get("via", "sut")
            if via == "sut":
                ann_obj = None
                if spec.get("reuse") is not None and spec["reuse"] in dicts:
                    # the caller keeps ONE annotation dict and changes it between messages (values replaced or buffers
                    # mutated in place): every message must carry what the dict held when it was built
                    ann_obj = dicts[spec["reuse"]]
                    if _update_ann(ann_obj, spec.get("ann") or []):
                        ctx.probe("annotation_buffer_mutated_in_place")
                    ctx.probe("annotation_dict_reused")
                else:
                    ann_obj = {}
                    for k, v in spec.get("ann") or []:
                        ann_obj[k] = _ann_value(v)
                dicts[mi] = ann_obj
                raw, exp = self._encode_sut(ctx, i, spec, cfg, ann_obj)
                if raw is None:
                    continue
                raws.append(raw)
                exps.append(exp)
                hostile.append(False)
            elif via == "ref":
                raw = ref_build(spec)
                fg = spec.get("forge")
                hs = bool(fg) or bool(spec.get("z") and (spec.get("pay") or {}).get("len", 0) <= 100)
                raws.append(raw)
                hostile.append(hs)
                if hs:
                    exps.append(None)
                else:
                    exps.append({"type": spec.get("type", 0), "flags": spec.get("flags", 0) & ~MANAGED, "seq": spec.get("seq", 0),
                                 "ser": spec.get("ser", 0), "ann": {k: _bytes(v) for k, v in spec.get("ann") or []},
                                 "corr": bytes.fromhex(spec["corr"]) if spec.get("corr") else None,
                                 "data": _bytes(spec.get("pay"))})
            else:
                raws.append(_bytes(spec))
                exps.append(None)
                hostile.append(True)
            specs.append(spec)
        return raws, exps, specs, hostile

    def _sweep_case(self, ctx, i, case, cfg):
        """one message, one fault kind, EVERY offset: truncation after o bytes / flip of byte o"""
        pre = self._build_msgs(ctx, i, [case["msg"]], cfg)
        if not pre[0]:
            return
        raw = pre[0][0]
        n = len(raw)
        h = N.parse_header(raw[:40])
        dense = min(n, 40 + (h["alen"] if h is not None else 0) + 16)
        if n <= 200:
            offs = list(range(n))
        else:
            offs = list(range(dense)) + list(range(dense, n, max(1, (n - dense) // 24)))[:24] + [n - 1]
        tr = dict(case.get("tr") or {})
        seed = tr.get("seed", 0)
        what = case.get("what", "cut")
        ctx.probe("sweep_" + what)
        for o in offs:
            tr["seed"] = seed + o
            sub = {"k": "stream", "msgs": [case["msg"]], "sent": case.get("sent", "5a"), "tr": tr, "mut": [], "cut": None,
                   "rmax": None, "mode": case.get("mode", "stub")}
            if what == "cut":
                sub["cut"] = {"msg": 0, "off": o, "how": case.get("how", "eof")}
                sub["mode"] = "stub"
            else:
                sub["mut"] = [{"op": "flip", "msg": 0, "off": o, "mask": case.get("mask", 1)}]
            self._stream_case(ctx, i, sub, cfg, pre)

    def _stream_case(self, ctx, i, case, cfg, pre=None):
        raws, exps, specs, hostile = pre if pre is not None else self._build_msgs(ctx, i, case.get("msgs"), cfg)
        if not raws:
            return
        # receiver limit
        rmax = config.MAX_MESSAGE_SIZE
        if case.get("rmax"):
            j = case["rmax"].get("msg", 0) % len(raws)
            h = N.parse_header(raws[j][:40])
            if h is not None:
                rmax = max(0, h["alen"] + h["dlen"] + case["rmax"].get("d", 0))
        bounds = []
        o = 0
        for r in raws:
            bounds.append((o, o + len(r)))
            o += len(r)
        sentinel = bytes.fromhex(case.get("sent") or "")
        S = b"".join(raws)
        send_failed = None
        if case.get("fam"):
            ctx.probe("annotation_family")
        ssock = None
        if case.get("snd") and case.get("mode") != "direct":
            # the messages travel through the real SocketConnection.send -> send_data first (blocking socket: sendall;
            # socket with a timeout: send loop with short writes / EAGAIN); what that put on the wire is what is delivered
            snd = dict(case["snd"])
            if snd.get("fail") and (case.get("cut") or case.get("mut") or snd.get("timeout") is not None):
                snd.pop("fail")          # one transport story per case
            if snd.get("fail"):
                snd["fail"] = dict(snd["fail"], call=snd["fail"].get("call", 0) % len(raws))
            ssock = _send_through(raws, snd)
            if ssock.exc is not None and ssock.fired is None:
                x = ssock.exc
                ctx.sched.ev("send-raised", i, type(x).__name__)
                ctx.violate("valid-rejected", "send:" + type(x).__name__, "case %d: sending %d intact messages (%d bytes) over a socket with "
                            "timeout=%r raised %r" % (i, len(raws), len(S), case["snd"].get("timeout"), x))
                return
            ctx.sched.sev("snd", i, ssock.nsend, ssock.nshort, ssock.nerr, len(ssock.buf),
                          type(ssock.exc).__name__ if ssock.exc is not None else None)
            if ssock.fired is not None:
                send_failed = ssock.fired
                ctx.fault("sendall_partial_errno")
                ctx.nontrivial = True
            S = bytes(ssock.buf)
            if ssock.timeout is not None:
                ctx.probe("sent_timeout_mode")
            if ssock.nshort:
                ctx.fault("short_send", ssock.nshort)
                ctx.nontrivial = True
            if ssock.nerr:
                ctx.fault("send_errno", ssock.nerr)
        mutated_from = None
        if case.get("mut"):
            S, mutated_from = self._mutate(ctx, S, bounds, case["mut"])
            if mutated_from is not None:
                ctx.nontrivial = True
        # ---- direct mode: one byte string, no socket
        if case.get("mode") == "direct":
            config.MAX_MESSAGE_SIZE = rmax
            if mutated_from is not None:
                self._decode_direct(ctx, i, S, rmax, None, True, None, mutated=True)
            else:
                for j, r in enumerate(raws):
                    self._decode_direct(ctx, i, r, rmax, exps[j], hostile[j], specs[j])
            return
        S_msgs_len = len(S)
        cut = None
        cut_msg = None
        region = None
        tr = dict(case.get("tr") or {})
        rst = False
        if send_failed is not None:
            # a blocking sendall() failed after k bytes of message j: whatever the sender does next (it should raise and
            # drop the connection), the receiver may decode the messages before j and NOTHING else - for it this is a
            # stream truncated inside message j. What is delivered is what the sending socket really accepted.
            j, k = send_failed
            st, en = bounds[j]
            cut = st + k
            cut_msg = j
            h = N.parse_header(raws[j][:40])
            alen = h["alen"] if h is not None else 0
            region = "header" if k < 40 else "annotations" if k < 40 + alen else "payload"
            tr["eof"] = True
        elif case.get("cut") and mutated_from is None:
            j = case["cut"].get("msg", 0) % len(raws)
            st, en = bounds[j]
            cut = st + case["cut"].get("off", 0) % max(1, en - st)
            cut_msg = j
            rel = cut - st
            h = N.parse_header(raws[j][:40])
            alen = h["alen"] if h is not None else 0
            region = "header" if rel < 40 else "annotations" if rel < 40 + alen else "payload"
            S = S[:cut]
            tr["eof"] = True
            rst = case["cut"].get("how") == "rst"
            ctx.fault("truncate_rst" if rst else "truncate_eof")
            ctx.nontrivial = True
        else:
            S = S + sentinel
        if mutated_from is not None:
            tr["eof"] = True
        sock = ScriptSock(S, tr, rst=rst)
        conn = SU.SocketConnection(sock, keep_open=True)
        config.MAX_MESSAGE_SIZE = rmax
        all_clean = True
        stopped = False
        nmsg = len(raws)
        clean_decoded = 0
        try:
            attempt = 0
            while attempt < nmsg + 2:
                off = sock.pos
                # which message (if any) starts here, untouched?
                j = None
                if mutated_from is None or (mutated_from > 0 and off < bounds[mutated_from][0]):
                    for jj, (st, en) in enumerate(bounds):
                        if st == off and (mutated_from is None or jj < mutated_from):
                            j = jj
                            break
                if cut is None and mutated_from is None and off >= S_msgs_len:
                    break        # all messages read: the sentinel is next
                if cut is not None and j is not None and bounds[j][1] > cut:
                    status = "truncated" if not hostile[j] else "hostile"
                elif j is not None and not hostile[j]:
                    status = "clean"
                else:
                    status = "hostile"
                where = "msg %d (%s) at offset %d" % (attempt, status, off)
                rk, rf = ref_parse(S, off, rmax)
                try:
                    msg = PR.recv_stub(conn)
                except _Hang:
                    ctx.sched.ev("m", i, attempt, "hang", sock.pos)
                    if status == "clean":
                        ctx.violate("hang", "", "case %d %s: the reader asked for more bytes than the message has "
                                    "(stream of %d bytes fully consumed, connection still open)" % (i, where, len(S)))
                    stopped = True
                    break
                except Exception as x:  # noqa
                    consumed = sock.pos - off
                    ctx.sched.ev("m", i, attempt, type(x).__name__, sock.pos)
                    stopped = True
                    if rk == "oversize":
                        self._check_oversize_refusal(ctx, i, where, x, consumed)
                    elif status == "clean":
                        key = type(x).__name__
                        if specs[j].get("via", "sut") == "sut" and specs[j].get("flags", 0) & MANAGED:
                            key += ":caller-set-managed-flag"
                        ctx.violate("valid-rejected", key, "case %d %s: a sender-buildable message delivered intact "
                                    "was rejected: %r (transport: %d recv calls, %d fragments, %d short, %d errnos)"
                                    % (i, where, x, sock.nrecv, sock.nfrag, sock.nshort, sock.nerr))
                    elif status == "truncated":
                        if isinstance(x, E.ConnectionClosedError):
                            ctx.probe("truncated_" + region)
                            if send_failed is not None:
                                ctx.probe("sendall_failed_midway")
                        else:
                            ctx.violate("unexpected-exception-class", "truncated", "case %d %s: stream truncated in the %s "
                                        "(%d of %d bytes) raised %r instead of ConnectionClosedError"
                                        % (i, where, region, cut - bounds[cut_msg][0], bounds[cut_msg][1] - bounds[cut_msg][0], x))
                    else:
                        ctx.probe("mutated_rejected" if mutated_from is not None else "hostile_rejected")
                        if rk == "badann":
                            ctx.probe("chunk_overrun_rejected")
                    break
                consumed = sock.pos - off
                ctx.sched.ev("m", i, attempt, "msg", sock.pos, msg.type, msg.seq, len(msg.data), zlib.crc32(bytes(msg.data)))
                raw_hex = S[off:off + 200].hex() + ("..." if len(S) - off > 200 else "")
                if status == "truncated":
                    ctx.violate("truncated-accepted", "", "case %d %s: stream truncated in the %s but a message was returned" % (i, where, region))
                    stopped = True
                    break
                ok = self._check_accepted(ctx, i, where, msg, rk, rf, exps[j] if status == "clean" else None,
                                          status != "clean", consumed, specs[j] if j is not None else None, raw_hex)
                if not ok:
                    all_clean = False
                    stopped = True
                    break
                if status == "clean":
                    clean_decoded += 1
                else:
                    ctx.probe("mutated_accepted" if mutated_from is not None else "hostile_accepted")
                attempt += 1
            # ---- the sentinel must be exactly what is left
            if not stopped and cut is None and mutated_from is None and sock.pos == S_msgs_len:
                try:
                    rest = bytes(conn.recv(len(sentinel)))
                except _Hang:
                    ctx.violate("hang", "sentinel", "case %d: reading the %d sentinel bytes after the last message blocked" % (i, len(sentinel)))
                except Exception as x:  # noqa
                    ctx.violate("cursor-mismatch", "sentinel", "case %d: reading the sentinel raised %r" % (i, x))
                else:
                    if rest != sentinel or sock.pos != len(S):
                        ctx.violate("cursor-mismatch", "sentinel", "case %d: sentinel %s expected after the messages, got %s"
                                    % (i, sentinel.hex(), rest.hex()))
                    else:
                        ctx.probe("sentinel_read")
                        if not sock.eof:
                            ctx.probe("open_end")
            elif not stopped and cut is None and mutated_from is None:
                ctx.violate("cursor-mismatch", "end", "case %d: after all messages the cursor is at %d, expected %d" % (i, sock.pos, S_msgs_len))
        finally:
            ctx.sched.sev("io", i, sock.nrecv, sock.nfrag, sock.nshort, sock.nerr, sock.pos)
        if sock.nfrag:
            ctx.fault("fragment", sock.nfrag)
        if sock.nshort:
            ctx.fault("short_waitall", sock.nshort)
        if sock.nerr:
            ctx.fault("retry_errno", sock.nerr)
        if sock.nfrag or sock.nshort or sock.nerr:
            ctx.nontrivial = True
        if clean_decoded and all_clean:
            if ssock is not None and ssock.nshort:
                ctx.probe("short_send")
            if sock.nfrag:
                ctx.probe("fragmented")
            if sock.nshort:
                ctx.probe("short_waitall")
            if sock.nerr:
                ctx.probe("retry_errno")


WORLD = WireWorld()
