"""Shared pieces of the network worlds: daemon start-up, raw message I/O, scripted middlebox."""
import threading

from .. import net as N
from ..seams import SV, ST, SM, config  # noqa: F401
import Pyro5.errors as E  # noqa: F401

SERIALIZERS = ["serpent", "json", "marshal", "msgpack"]
SER_IDS = {"serpent": 1, "marshal": 2, "json": 3, "msgpack": 4}


def read_exact(sk, n):
    buf = b""
    while len(buf) < n:
        c = sk.recv(n - len(buf))
        if not c:
            return None
        buf += c
    return buf


def read_msg(sk):
    """read one Pyro message from a raw SimSocket with the harness's own parser; None on EOF / garbage"""
    h = read_exact(sk, N.HEADER_SIZE)
    if h is None:
        return None
    info = N.parse_header(h)
    if info is None:
        return None
    body = read_exact(sk, info["alen"] + info["dlen"])
    if body is None:
        return None
    info["ann"] = N.parse_annotations(body[:info["alen"]])
    info["payload"] = body[info["alen"]:]
    return info


class Server:
    """a real Daemon with its request loop running in a simulated thread"""

    def __init__(self, ctx, servertype="thread", daemon_cls=None, pool=(1, 8), commtimeout=0.0, polltimeout=2.0):
        config.SERVERTYPE = servertype
        config.THREADPOOL_SIZE_MIN, config.THREADPOOL_SIZE = pool
        config.COMMTIMEOUT = commtimeout
        config.POLLTIMEOUT = polltimeout
        self.ctx = ctx
        self.servertype = servertype
        self.daemon = (daemon_cls or SV.Daemon)(host="127.0.0.1", port=0)
        self.addr = self.daemon.transportServer.sock.getsockname()
        self.loop = threading.Thread(target=self.daemon.requestLoop, name="daemon-loop")
        self.loop.start()
        self.loop_t = ctx.sched.sim_thread_of(self.loop)

    def register(self, obj, oid):
        return self.daemon.register(obj, oid)

    def loop_alive(self):
        return self.loop_t.state != "done"

    def loop_death(self):
        return self.loop_t.died

    def worker_threads(self):
        return [t for t in self.ctx.sched.threads if t.name == "Worker"]


class ScriptPipe(N.MessagePipe):
    """MessagePipe whose per-message behaviour is delegated to a callback:
    cb(pipe, k, info, raw) -> None (callback did everything) or True (deliver unchanged)"""

    def __init__(self, net, src, dst, conn, direction, cb):
        super().__init__(net, src, dst, conn, direction)
        self.cb = cb

    def handle(self, k, info, raw):
        if self.cb(self, k, info, raw):
            self.deliver(raw)


def install_script(net, cb_c2s, cb_s2c):
    """route every new connection through ScriptPipes"""
    def on_connect(idx, csock, ssock):
        csock.out = ScriptPipe(net, csock, ssock, idx, "c2s", cb_c2s)
        ssock.out = ScriptPipe(net, ssock, csock, idx, "s2c", cb_s2c)
    net.on_connect = on_connect


def break_conn(csock, ssock, keep_client_rx=False):
    """both ends see a reset; pipes stop delivering"""
    for s in (csock, ssock):
        s.reset = True
        if s.out is not None:
            s.out.dead = True
    if not keep_client_rx and csock.net.rst_discards_rx:
        del csock.rx[:]
    if csock.net.rst_discards_rx:
        del ssock.rx[:]
