"""C10 - a remote iterator delivers exactly the server's items, once, in order; the server forgets streams as documented.

1-2 real proxies (each owned by its own client thread) open 1-4 streams (generator / list iterator; empty, short, long,
raising at position k) on a real Daemon (both server types) and then run a plan of next / close / release / reconnect /
drop (the network resets the proxy's connection between two calls) / advance steps; on the thread server a COMMTIMEOUT may
additionally make the server close idle connections by itself.  A 'par' step releases two client threads of different
proxies at the same instant (one loses / releases its connection, the other opens / fetches from / closes one of its own
streams), a 'stall' plan slows the server's disconnect step down (injected stalls inside Daemon._clientDisconnect) while the same
proxy reconnects and fetches at once, and a client thread may carry a fixed correlation id (documented client API) with every call.  A next() may carry an
in-flight fault: a middlebox loses the reply of that get_next_stream_item call (connection reset, or - with a proxy timeout -
the reply never arrives), with config.MAX_RETRIES in {0,1,2}.  Plan variants: 'combined' (streams on a second daemon served by
the first one's multiplex loop) and 'external_loop' (the daemon is never run by requestLoop(): a harness thread plays the
application's own select loop over daemon.sockets and calls daemon.events()).  The driver hands the steps to the owning client thread one at a time, so the plan order is the real order of
client operations; everything the server does on its own (housekeeping on its timers, noticing a disconnect, running the
one-way close_stream call in its own thread) interleaves freely with them.

Observation: the world's Daemon subclass overrides the documented hooks housekeeping() and clientDisconnect(conn) and its
DaemonObject subclass (the documented ``interface`` argument) stamps the entry of get_next_stream_item / close_stream; every
observation carries the global event number and the virtual time.  The reference model replays client operations and
server observations in event order and keeps, per stream, the set of states the server may be in
{live(conn), lingering(t0), forgotten}; every outcome a client sees has to be one the model allows (may), and a stream the
model says must be alive / must be forgotten has to be present in / absent from the daemon's table at every housekeeping pass.
"""
import gc
import threading
import uuid

from ..world import World
from .. import sched as S
from .. import net as N
from .common import Server, SERIALIZERS, break_conn, install_script
from ..seams import config, CL, SV
import Pyro5.api as api
import Pyro5.errors as E
from Pyro5.callcontext import current_context as cctx

POLL = 2.0
ADVANCES = [0.5, 2, 4, 8, 15, 30]
EPS = 1e-6
HK_BOUND = 2 * POLL + 1.0      # longest allowed gap between two housekeeping passes of a running daemon (virtual seconds):
#                                multiplex: every loop iteration ends with a pass or a select timeout <= POLLTIMEOUT;
#                                thread server: Housekeeper.waittime = min(POLLTIMEOUT, max(COMMTIMEOUT, 5)) = POLL; plus slack


class _Run:
    """per-run state consulted by the module-level workload classes"""
    cur = None


def _obs(kind, *data):
    run = _Run.cur
    if run is None:
        return
    s = run["sched"]
    run["obs"].append((s.stamp(), kind, s.now) + data)


def _conn_of(c):
    return getattr(getattr(c, "sock", None), "conn", None)


@api.expose
class Src:
    """the streamed sources: items are unique [stream slot, index] pairs"""

    def gen(self, slot, n, bad, fin=False):
        _obs("create", slot, _conn_of(cctx.client))

        def g():
            try:
                for i in range(n + 1):
                    if i == bad:
                        raise ValueError("boom-%d-%d" % (slot, i))
                    if i == n:
                        return
                    yield [slot, i]
            except GeneratorExit:
                if fin:
                    # clean-up code that fails when the generator is closed before it is exhausted (dropped by the server, or
                    # closed explicitly): nobody's business but the generator's
                    raise OSError("clean-up of stream source %d failed" % slot)
                raise
        return g()

    def lst(self, slot, n, bad):
        _obs("create", slot, _conn_of(cctx.client))
        return iter([[slot, i] for i in range(n)])


ITER_EXCS = {"ValueError": ValueError, "AttributeError": AttributeError, "KeyError": KeyError, "IndexError": IndexError,
             "TypeError": TypeError, "RuntimeError": RuntimeError, "ZeroDivisionError": ZeroDivisionError, "NamingError": E.NamingError}


class _Err:
    """what is kept of an exception: plain data"""

    def __init__(self, cls, text, comm, proto):
        self.cls, self.text, self.comm, self.proto = cls, text, comm, proto


class SeqBase:
    """focus shape 'iterate the proxy': a sequence-like remote object; `for x in proxy` streams its __iter__ generator, which
    raises an exception of a chosen class at position `bad`"""

    def __init__(self, n, bad, exc):
        self.n, self.bad, self.exc = n, bad, exc

    @api.expose
    def __iter__(self):
        def g():
            for i in range(self.n):
                if i == self.bad:
                    if self.exc == "Unserializable":
                        yield [7, i, object()]      # an item that no serializer can put on the wire: the fetch fails
                        return
                    raise ITER_EXCS[self.exc]("boom-%d" % i)
                yield [7, i]
        return g()

    @api.expose
    def __len__(self):
        return self.n


class SeqIndexed(SeqBase):
    @api.expose
    def __getitem__(self, i):
        if not 0 <= i < self.n:
            raise IndexError(i)
        return [7, i]


@api.expose
class BackNote:
    """served by the in-thread daemon of NestSrc"""

    def __init__(self):
        self.n = 0

    def note(self):
        self.n += 1
        return self.n


@api.expose
class NestSrc:
    """focus shape 'nested serve': before it hands out its iterator the method serves a request of ANOTHER daemon in its own
    thread (an application that pumps a second, loop-less daemon from inside a call: daemon.events(ready sockets))"""

    def __init__(self, back, note):
        self._back, self._note = back, note

    def gen_nested(self, n):
        sched = _Run.cur["sched"]
        want = self._note.n + 1
        for _ in range(400):
            sel = N.SimSelector(_Run.cur["net"])
            for sk in self._back.sockets:
                sel.register(sk, 1)
            ready = [k.fileobj for k, _ in sel.select(0)]
            sel.close()
            if ready:
                self._back.events(ready)
            if self._note.n >= want:
                break
            sched.sleep(0.01)
        sched.ev("nested-served", self._note.n >= want)
        return ([8, i] for i in range(n))


@api.expose
class SlowSrc:
    """focus shape 'slow item': a generator whose item k takes `slow` virtual seconds to produce"""

    def gen(self, n, k, slow):
        sched = _Run.cur["sched"]

        def g():
            for i in range(n):
                if i == k:
                    sched.ev("slow-item", "start")
                    sched.sleep(slow)
                    sched.ev("slow-item", "end")
                yield [9, i]
        return g()


@api.expose
class Ping:
    """unrelated object the background 'chatter' client keeps calling"""

    def ping(self):
        return 1


@api.expose
class ObsDaemonObject(SV.DaemonObject):
    """the real DaemonObject; entry and exit of the two stream calls are stamped"""

    def get_next_stream_item(self, streamId):
        _obs("fetch", streamId, _conn_of(cctx.client))
        try:
            return super().get_next_stream_item(streamId)
        finally:
            e = self.daemon.streaming_responses.get(streamId)
            _obs("fetch-end", streamId, None if e is None else (_conn_of(e[0]), e[2]))

    def close_stream(self, streamId):
        _obs("closex", streamId)
        try:
            return super().close_stream(streamId)
        finally:
            _obs("closex-end", streamId)


class ObsDaemon(SV.Daemon):
    def __init__(self, *a, **k):
        k.setdefault("interface", ObsDaemonObject)
        super().__init__(*a, **k)

    # documented hooks -------------------------------------------------
    def housekeeping(self):
        _obs("hk", tuple(sorted(self.streaming_responses)))

    def clientDisconnect(self, conn):
        _obs("disc", _conn_of(conn))

    # pass-through wrappers that only stamp the *start* of the two internal steps (needed when line pre-emption makes
    # them non-atomic; without pre-emption start and end are adjacent)
    def _housekeeping(self):
        _obs("hk-start")
        return super()._housekeeping()

    def _clientDisconnect(self, conn):
        _obs("disc-start", _conn_of(conn))
        err = None
        try:
            return super()._clientDisconnect(conn)
        except BaseException as x:
            err = type(x).__name__
            raise
        finally:
            _obs("disc-end", _conn_of(conn), err)


class _OwnLoop:
    """a daemon that is never run by requestLoop(): a harness thread plays the application's own event loop
    (documented pattern, examples/eventloop): select over daemon.sockets, hand the readable ones to daemon.events()"""

    def __init__(self, ctx, servertype, commtimeout, pool=(1, 8)):
        config.SERVERTYPE = servertype
        config.THREADPOOL_SIZE_MIN, config.THREADPOOL_SIZE = pool
        config.COMMTIMEOUT = commtimeout
        config.POLLTIMEOUT = POLL
        self.daemon = ObsDaemon(host="127.0.0.1", port=0)
        self.stop = False
        net, daemon = ctx.net, self.daemon

        def own_loop():
            while not self.stop:
                sel = N.SimSelector(net)
                for sk in daemon.sockets:
                    sel.register(sk, 1)
                ready = [k.fileobj for k, _ in sel.select(POLL)]
                sel.close()
                if ready and not self.stop:
                    daemon.events(ready)

        self.loop = threading.Thread(target=own_loop, name="daemon-loop")
        self.loop.start()
        self.loop_t = ctx.sched.sim_thread_of(self.loop)

    def register(self, obj, oid):
        return self.daemon.register(obj, oid)

    def loop_alive(self):
        return self.loop_t.state != "done"

    def loop_death(self):
        return self.loop_t.died


_CODES = None


def _codes():
    global _CODES
    if _CODES is None:
        _CODES = S.code_closure(SV.Daemon._housekeeping, SV.Daemon._clientDisconnect, SV.Daemon._streamResponse,
                                 SV.DaemonObject.get_next_stream_item, SV.DaemonObject.close_stream)
    return _CODES


_CODES_STALL = None


def _codes_stall():
    """stall plans: only the server's disconnect step may be slowed down (fetches and housekeeping stay atomic)"""
    global _CODES_STALL
    if _CODES_STALL is None:
        _CODES_STALL = S.code_objects(SV.Daemon._clientDisconnect)
    return _CODES_STALL


def source_shape(sd):
    """-> (number of items, how it ends: 'stop' | 'exc')"""
    n, bad = sd["n"], sd["bad"]
    if sd["kind"] == "gen" and 0 <= bad <= n:
        return bad, "exc"
    return n, "stop"


class StreamWorld(World):
    PROPERTY = "C10"
    NAME = "stream"
    REAL = ["Daemon._streamResponse / _clientDisconnect / _housekeeping", "DaemonObject.get_next_stream_item / close_stream",
            "Pyro5.client._StreamResultIterator, Proxy._pyroReconnect / _pyroRelease / _pyroInvoke",
            "svr_threads.Housekeeper (real thread on the virtual clock), ClientConnectionJob, Pool",
            "SocketServer_Multiplex loop/events (housekeeping after every batch and on select timeouts)",
            "_OnewayCallThread (close_stream)", "Pyro5.protocol", "serializers (all four)"]
    STUB = ["sockets/selector (in-memory)", "threads (baton scheduler; optional line pre-emption inside the stream functions)",
            "time (virtual clock)", "uuid4 (seeded)"]
    PROBES = ["item", "stop", "generator_exception", "closed_by_client", "lifetime_expired", "linger_expired",
              "reconnect_within_linger", "reconnect_after_linger", "terminated_error", "client_local_closed",
              "streaming_disabled", "two_proxies", "concurrent_streams", "multiplex", "thread", "housekeeping_observed",
              "temp_proxy_close", "client_local_stop", "preempted", "raced",
              "connection_dropped", "continued_after_drop", "concurrent_ops", "client_correlation_id", "disconnect_during_table_change", "chatter", "combined", "combined_slave_idle_expiry", "external_loop", "reply_lost", "continued_after_lost_reply", "fetch_during_disconnect", "stalled", "foreign_thread_close", "foreign_thread_finalize", "transient_socket_errors", "slow_fetch_timed_out", "iterated_proxy", "iterated_proxy_generator_raises", "unserializable_item", "source_cleanup_raises", "nested_request_served_in_call"]
    # also counted, but too schedule-dependent to demand: "fetch_before_old_disconnect", "expired_but_still_answers"
    RULE = ("plan = (server type, serializer, ITER_STREAMING on/off, ITER_STREAM_LIFETIME in {0,5,20}, ITER_STREAM_LINGER in "
            "{0,3,10}, 18% of the multiplex plans 'combined': the streams live on a second daemon served by the first one's loop (Daemon.combine), "
            "violation keys then end in ':combined', 30% of the thread-server plans are the short focus shape 'reconnect races the old connection's "
            "teardown' (p_stall inside _clientDisconnect; release/drop, reconnect and next at once, once or twice; advance linger+5; next), 12% of the other plans 'external_loop' (own select loop + daemon.events(), keys end in "
            "':external-loop'), next ops may carry an in-flight fault reply_rst / reply_timeout with MAX_RETRIES in {0,1,2} and an optional "
            "1 s proxy timeout, 10% of the plans inject transient socket errors (net p_retry_errno 0.05/0.2, retry_burst 3/16/20) on the "
            "server's (thread + COMMTIMEOUT) or the clients' (proxy timeout) sockets, 1-2 proxies, 1-4 stream sources (generator/list, 0-8 items, optional ValueError at position k), 6-26 ops "
            "open/next/close/release/reconnect/drop/advance{0.5..30 s} with optional settle after each (drop = the network resets "
            "the proxy's connection while nothing is in flight; 15% of the thread-server plans also set COMMTIMEOUT=3 s so that the "
            "server closes idle connections itself; par = {release|drop of one proxy} concurrently with {open|next|close on a stream "
            "of the other proxy}; 30% of the plans run a background client pinging an unrelated object every POLLTIMEOUT/4 s; "
            "25% of the plans give client threads a fixed correlation id, possibly shared by both), "
            "block/line pre-emption "
            "probabilities; 22% of the plans end with the focus shape 'expiry race': a fresh stream is closed / fetched at the instant "
            "of the first housekeeping pass after its lifetime or linger ran out, with line pre-emption inside _housekeeping, "
            "_clientDisconnect, _streamResponse, get_next_stream_item, close_stream; 14% end with the focus shape 'disconnect while the table "
            "changes': proxy A with two open streams disconnects at the instant at which proxy B creates / exhausts / closes a stream, "
            "and comes back long after the linger period); distinct = distinct interleaving digest; non-trivial = at least one item was fetched and at least "
            "one stream was forgotten for a reason other than exhaustion (close, failure, lifetime, disconnect/linger) or "
            "resumed after a reconnect")
    ASSUMPTIONS = ["client operations are sequential across proxies (the plan order) except inside a 'par' step, whose two operations touch "
                   "streams of different proxies and are therefore independent in the model; the server's own activity interleaves freely",
                   "tolerance of expiry: a stream more than 2*POLLTIMEOUT+1 virtual seconds past its lifetime / linger must be gone (no items, "
                   "not in the table) even if no housekeeping pass was observed - the current servers run a pass at least every "
                   "POLLTIMEOUT whatever the traffic; a gap above the bound is only counted (probe housekeeping_gap_over_bound), "
                   "the violation is the stream that outlives its limits",
                   "a fetch whose reply is lost after the server executed it ends with a communication error for the caller, who thereby "
                   "knows that one item may be missing; the model advances the cursor exactly when the server certainly ran the fetch and "
                   "keeps both cursors otherwise; stream fetches are never retried whatever MAX_RETRIES says (a next() that makes two "
                   "fetches and returns normally has lost an item silently: item-lost/retried-fetch); other calls (open) may be retried",
                   "external_loop on the multiplex server: the daemon can only housekeep when the application hands it an event; before the "
                   "final look at the table the driver therefore makes one unrelated connection",
                   "a fetch that overlaps a disconnect step (line pre-emption / injected stall) is two whole-entry stores in either order: "
                   "the entry the fetch leaves behind (observed when it ends) decides which; a slow disconnect step may have set its linger "
                   "mark anywhere between its start and its end (both times are kept)",
                   "an iterator may be closed or dropped (finalised) by a thread other than its proxy's owner only when it is out of sync "
                   "with a connected proxy (close_stream then goes through a temporary copy owned by the closing thread); otherwise the "
                   "driver lets the owner do it (in sync it would use the proxy itself and fail the owner check - the caller's fault)",
                   "transient socket errors (EAGAIN / EINTR bursts on sockets in timeout mode) only make calls take virtual seconds; they are "
                   "injected either on the server's sockets (COMMTIMEOUT, clients without a timeout) or on the clients' (proxy timeout), so a "
                   "slow server never meets an impatient client; before looking at the table the driver waits until the server has read "
                   "whatever was sent to it",
                   "the background 'chatter' client (30% of the plans: one ping every POLLTIMEOUT/4 s on its own connection) is not part "
                   "of the model",
                   "when the server's disconnect step fails before reaching the clientDisconnect hook the connection has ended all the "
                   "same: linger counts from the end of that step",
                   "a stream whose lifetime/linger has elapsed may still answer until the next observed housekeeping pass and must "
                   "be gone after it; exactly at the limit either is accepted",
                   "next() after exhaustion or after a client-side close() is expected to raise StopIteration locally (DESIGN.md C10), "
                   "next() on a released proxy ConnectionClosedError locally",
                   "a call over a connection that the network reset or the server closed before the request was read fails with a "
                   "communication error without consuming an item and leaves the proxy released; the iterator stays usable: local "
                   "ConnectionClosedError until the reconnect, then the stream continues (within linger) or answers with an error; a "
                   "StopIteration the client produces by itself is accepted only when every item was delivered and the source would stop next",
                   "linger is counted from the moment the server notices the disconnect (clientDisconnect hook) and is cleared "
                   "only by the first fetch after the reconnect, as the code documents",
                   "when line pre-emption makes a fetch / close / disconnect / housekeeping step overlap another one, the streams "
                   "they touch are only checked for item order, crashes and the empty table at the end"]
    QUICK_RUNS = 8000
    CHUNK = 100
    SHRINK_LISTS = ["ops"]

    # ------------------------------------------------------------------ plans
    def gen(self, rng, tier):
        big = tier == "thorough"
        if rng.random() < 0.06:
            # focus shape "slow item": the client's timeout ends a fetch while the server is still producing the item; the client
            # reconnects, closes the iterator (the close request reaches a thread server while the generator is executing) and,
            # after the item is done, somebody asks the server for that stream again: an error, never an item
            k = rng.randint(0, 2)
            return {"servertype": rng.choice(["thread", "thread", "multiplex"]), "serializer": rng.choice(SERIALIZERS), "streaming": True,
                    "lifetime": rng.choice([0, 0, 20]), "linger": rng.choice([0, 3, 10, 30]), "nproxies": 1, "streams": [], "ops": [],
                    "slowfetch": {"k": k, "n": k + rng.randint(2, 4), "slow": rng.choice([3.0, 6.0]), "timeout": 1.0,
                                  "wait_more": rng.choice([0.0, 2.0, 12.0]), "settle_before_close": rng.random() < 0.3},
                    "p_block": rng.choice([0.0, 0.0, 0.3]), "net": {"shuffle_select": rng.random() < 0.5}}
        if rng.random() < 0.04:
            # focus shape "nested serve": the method that opens the stream first serves a request of another (loop-less) daemon in
            # its own thread; then the client fetches, leaves for longer than the linger period, and comes back: an error, no item
            return {"servertype": rng.choice(["thread", "multiplex"]), "serializer": rng.choice(SERIALIZERS), "streaming": True,
                    "lifetime": 0, "linger": rng.choice([0, 3, 10]), "nproxies": 1, "streams": [], "ops": [],
                    "nested": {"n": rng.randint(3, 6), "fetch": rng.randint(0, 2), "how": rng.choice(["release", "drop"])},
                    "p_block": rng.choice([0.0, 0.0, 0.3]), "net": {"shuffle_select": rng.random() < 0.5}}
        if rng.random() < 0.05:
            # focus shape "iterate the proxy": for x in proxy -> the remote __iter__ generator is streamed; it raises an exception of
            # some class at some position (or not at all); the object may support indexing too
            n = rng.randint(1, 5)
            return {"servertype": rng.choice(["thread", "multiplex"]), "serializer": rng.choice(SERIALIZERS), "streaming": True,
                    "lifetime": 0, "linger": rng.choice([0, 10]), "nproxies": 1, "streams": [], "ops": [],
                    "iterproxy": {"n": n, "bad": rng.choice([-1, rng.randint(0, n), rng.randint(0, n)]),
                                  "exc": rng.choice(sorted(ITER_EXCS) + ["Unserializable", "Unserializable"]), "getitem": rng.random() < 0.6},
                    "p_block": rng.choice([0.0, 0.0, 0.3]), "net": {"shuffle_select": rng.random() < 0.5}}
        servertype = rng.choice(["thread", "multiplex"])
        streaming = rng.random() >= 0.07
        lifetime = rng.choice([0, 0, 5, 20])
        linger = rng.choice([0, 3, 10])
        nprox = rng.choice([1, 1, 2])
        nstreams = rng.randint(1, 4)
        streams = []
        for i in range(nstreams):
            kind = rng.choice(["gen", "gen", "list"])
            n = rng.choice([0, 1, 2, 3, 3, 5, 8])
            bad = -1
            if kind == "gen" and rng.random() < 0.35:
                bad = rng.randint(0, n)
            streams.append({"proxy": rng.randrange(nprox), "kind": kind, "n": n, "bad": bad})
            if kind == "gen" and rng.random() < 0.2:
                streams[-1]["fin"] = True       # its clean-up code raises when it is closed / dropped early
        if nprox == 2 and nstreams >= 2:
            streams[0]["proxy"], streams[1]["proxy"] = 0, 1
        nops = rng.randint(6, 34 if big else 26)
        ops = []
        opened = []

        def st(o):
            if rng.random() < 0.5:
                o["settle"] = True
            return o

        def some_stream():
            return opened[rng.randrange(len(opened))]

        while len(ops) < nops:
            r = rng.random()
            unopened = [i for i in range(nstreams) if i not in opened]
            if unopened and (not opened or r < 0.22):
                s = unopened[0] if rng.random() < 0.7 else rng.choice(unopened)
                opened.append(s)
                ops.append(st({"op": "open", "s": s}))
            elif r < 0.60:
                ops.append(st({"op": "next", "s": some_stream()}))
            elif r < 0.66:
                ops.append(st({"op": "close", "s": some_stream()}))
            elif r < 0.72:
                ops.append(st({"op": "release", "p": rng.randrange(nprox)}))
            elif r < 0.78:
                ops.append(st({"op": "reconnect", "p": rng.randrange(nprox)}))
            elif r < 0.86:
                ops.append({"op": "advance", "dt": rng.choice(ADVANCES)})
            elif r < 0.885:
                ops.append(st({"op": "drop", "p": rng.randrange(nprox)}))
            elif r < 0.90:
                # a fault INSIDE a fetch: the server executes it, the reply is lost (connection reset / client timeout)
                s = some_stream()
                ops.append(st({"op": "next", "s": s, "fault": rng.choice(["reply_rst", "reply_timeout"])}))
                if rng.random() < 0.8:
                    if rng.random() < 0.4:
                        ops.append({"op": "advance", "dt": rng.choice([0.5, 2, 4])})
                    ops.append(st({"op": "reconnect", "p": streams[s]["proxy"]}))
                    ops.append(st({"op": "next", "s": s}))
                    if rng.random() < 0.5:
                        ops.append(st({"op": "next", "s": s}))
            elif r < 0.915 and nprox == 2:
                # two clients at the same instant: one loses / releases its connection, the other works on one of its streams
                s = some_stream()
                ops.append(st({"op": "par", "a": {"op": rng.choice(["release", "drop"]), "p": 1 - streams[s]["proxy"]},
                               "b": {"op": rng.choice(["next", "next", "close"]), "s": s}}))
            elif r < 0.93:
                # focus shape: the network kills the connection of a stream's proxy; the client finds out inside its next
                # next(), reconnects and goes on fetching
                s = some_stream()
                p = streams[s]["proxy"]
                ops.append(st({"op": "drop", "p": p}))
                if rng.random() < 0.6:
                    ops.append({"op": "advance", "dt": rng.choice(ADVANCES)})
                ops.append(st({"op": "next", "s": s}))
                if rng.random() < 0.3:
                    ops.append(st({"op": "next", "s": s}))
                ops.append(st({"op": "reconnect", "p": p}))
                ops.append(st({"op": "next", "s": s}))
                if rng.random() < 0.5:
                    ops.append(st({"op": "next", "s": s}))
            else:
                # focus shape: drop the connection of a stream's proxy, wait, come back and fetch
                s = some_stream()
                p = streams[s]["proxy"]
                ops.append(st({"op": "release", "p": p}))
                if rng.random() < 0.85:
                    ops.append({"op": "advance", "dt": rng.choice(ADVANCES)})
                if rng.random() < 0.8:
                    ops.append(st({"op": "reconnect", "p": p}))
                else:
                    ops.append(st({"op": "open", "s": unopened[0]} if unopened and streams[unopened[0]]["proxy"] == p
                                  else {"op": "reconnect", "p": p}))
                    if ops[-1]["op"] == "open":
                        opened.append(ops[-1]["s"])
                ops.append(st({"op": "next", "s": s}))
        lines = rng.random() < 0.35
        p_line = rng.choice([0.03, 0.1, 0.25]) if lines else 0.0
        p_block = rng.choice([0.0, 0.0, 0.2, 0.6])
        commtimeout = 0.0
        race = streaming and rng.random() < 0.22
        if servertype == "thread" and not race and rng.random() < 0.15:
            commtimeout = 3.0       # the server itself drops connections that were idle for 3 s; the client finds out at its next call
        par = streaming and not race and rng.random() < 0.14
        if par:
            # focus shape "disconnect while the table changes": proxy A (two open streams, created after one of proxy B) loses its
            # connection at the very instant at which proxy B creates / exhausts / closes a stream; long after the linger period A
            # comes back: both streams must be forgotten
            nprox = 2
            commtimeout = 0.0
            lines, p_line, p_block = True, rng.choice([0.1, 0.25]), rng.choice([0.2, 0.6])
            if linger == 0:
                linger = rng.choice([3, 10])
            if lifetime and rng.random() < 0.7:
                lifetime = 0
            pa = rng.randrange(2)
            pb = 1 - pa
            b1 = len(streams)
            a1, a2, b2 = b1 + 1, b1 + 2, b1 + 3
            nb = rng.choice([0, 1, 2])
            streams.append({"proxy": pb, "kind": rng.choice(["gen", "list"]), "n": nb, "bad": -1})
            streams.append({"proxy": pa, "kind": rng.choice(["gen", "list"]), "n": rng.choice([2, 3, 5]), "bad": -1})
            streams.append({"proxy": pa, "kind": rng.choice(["gen", "list"]), "n": rng.choice([2, 3, 5]), "bad": -1})
            streams.append({"proxy": pb, "kind": rng.choice(["gen", "list"]), "n": rng.choice([1, 3]), "bad": -1})
            variant = rng.choice(["close", "close", "open", "exhaust"] if servertype == "thread" else ["close", "close", "close", "open"])
            tail = [{"op": "open", "s": b1}, {"op": "open", "s": a1}, {"op": "open", "s": a2}]
            if rng.random() < 0.5:
                tail.append({"op": "next", "s": a1})
            if variant == "exhaust":
                tail += [{"op": "next", "s": b1} for _ in range(nb)]
            t = sum(o["dt"] for o in ops if o["op"] == "advance")
            if t == int(t):
                tail.append({"op": "advance", "dt": 0.5})       # stay clear of the housekeeper's ticks (every POLL s)
            bop = {"close": {"op": "close", "s": b1}, "open": {"op": "open", "s": b2}, "exhaust": {"op": "next", "s": b1}}[variant]
            tail.append({"op": "par", "a": {"op": rng.choice(["release", "release", "drop"]), "p": pa}, "b": bop})
            tail.append({"op": "advance", "dt": linger + 2.5})
            tail += [{"op": "reconnect", "p": pa}, {"op": "next", "s": a1}, {"op": "next", "s": a2}]
            ops = ops + tail
        chatter = rng.random() < 0.3
        corr = [None] * nprox
        if rng.random() < 0.25:
            # the client thread of a proxy sets a fixed correlation id (documented client API): it travels with every call
            corr[0] = 0
            if nprox == 2:
                corr[1] = rng.choice([None, 0, 1])
        p_stall = 0.0
        stall = False
        if streaming and not race and not par and rng.random() < (0.3 if servertype == "thread" else 0.03):
            # focus shape "reconnect races the old connection's teardown": the proxy loses / drops its connection and reconnects and
            # fetches at once, while the server's worker of the OLD connection is slow (injected stall) inside _clientDisconnect;
            # then the linger period passes with the client connected all the time, and it fetches again
            stall = True
            lines, p_line, p_block, p_stall = True, rng.choice([0.0, 0.0, 0.05]), rng.choice([0.0, 0.0, 0.3]), rng.choice([0.08, 0.12, 0.17])
            commtimeout = 0.0
            if linger == 0:
                linger = rng.choice([3, 10])
            if lifetime and rng.random() < 0.8:
                lifetime = 0
            # a short plan of its own (the stall has to hit one particular line of the disconnect step: keep the table small)
            nprox = 1
            chatter = False
            corr = [corr[0]]
            k = rng.choice([1, 2, 3, 4])
            streams = [{"proxy": 0, "kind": rng.choice(["gen", "list"]), "n": rng.choice([3, 5, 8]), "bad": -1} for _ in range(k)]
            ops = [{"op": "open", "s": i} for i in range(k)] + [{"op": "next", "s": rng.randrange(k)} for _ in range(rng.randint(0, 1))]
            for _ in range(rng.choice([1, 1, 1, 1, 1, 2])):
                ops += [{"op": rng.choice(["release", "release", "drop"]), "p": 0}, {"op": "reconnect", "p": 0}]
                order = list(range(k))
                rng.shuffle(order)
                ops += [{"op": "next", "s": i} for i in order]      # every stream is resumed over the new connection at once
            ops += [{"op": "advance", "dt": linger + 5}] + [{"op": "next", "s": i} for i in range(k)]
            if rng.random() < 0.5:
                ops += [{"op": "next", "s": rng.randrange(k)}]
        if race:
            # focus shape "expiry race": a fresh stream reaches its lifetime (or its linger period after a disconnect) and the
            # client closes it / fetches from it at the very instant of the first housekeeping pass that would remove it
            # (thread server: the housekeeper ticks every POLL s from daemon start; multiplex: POLL s after the last request)
            lines, p_line, p_block = True, rng.choice([0.1, 0.25]), rng.choice([0.2, 0.6])
            t = sum(o["dt"] for o in ops if o["op"] == "advance")
            r = len(streams)
            n = rng.choice([1, 2, 3])
            k = rng.randint(0, n - 1)
            streams.append({"proxy": 0, "kind": rng.choice(["gen", "list"]), "n": n, "bad": -1})
            tail = [{"op": "open", "s": r}] + [{"op": "next", "s": r} for _ in range(k)]
            by_linger = linger > 0 and rng.random() < 0.35
            if by_linger:
                if lifetime:
                    lifetime = 20 if linger < 10 else 0
                limit = linger
                tail += [{"op": "release", "p": 0}, {"op": "reconnect", "p": 0}]
            else:
                if lifetime == 0:
                    lifetime = rng.choice([5, 20])
                limit = lifetime
            if servertype == "thread":
                # the first housekeeper tick that sees the limit exceeded; the client acts at the same instant
                tail.append({"op": "advance", "dt": POLL * (int((t + limit) // POLL) + 1) - t})
            else:
                # a request shortly before the limit (restarts the select timeout), the decisive one shortly after it
                tail.append({"op": "advance", "dt": limit - 1})
                tail.append({"op": "reconnect", "p": 0} if by_linger else {"op": "next", "s": r})
                tail.append({"op": "advance", "dt": 1.5})
            tail.append({"op": rng.choice(["close", "close", "next"]), "s": r})
            tail.append({"op": "advance", "dt": 4})
            ops = ops + tail
        plan = {"servertype": servertype, "serializer": rng.choice(SERIALIZERS), "streaming": streaming,
                "lifetime": lifetime, "linger": linger, "nproxies": nprox, "streams": streams, "ops": ops,
                "commtimeout": commtimeout, "corr": corr, "chatter": chatter, "lines": lines, "p_line": p_line, "p_block": p_block, "p_stall": p_stall, "stall": stall,
                "net": {"shuffle_select": rng.random() < 0.5}}
        if rng.random() < 0.12:
            # some iterators are closed / dropped (finalised) by a thread that is not the proxy's owner
            for o in ops:
                if o["op"] == "close" and rng.random() < 0.7:
                    o["forget" if rng.random() < 0.3 else "helper"] = True
            plan["helper_final"] = rng.choice(["close", "close", "forget"])
        if any(o.get("fault") for o in ops):
            plan["retries"] = rng.choice([0, 1, 2])             # config.MAX_RETRIES: must not apply to stream fetches
            plan["timeout"] = rng.choice([None, 1.0, 1.0])      # proxy timeout (virtual s); without it reply_timeout acts as reply_rst
            if stall:
                plan["timeout"] = None      # a stalled server step must not look like a lost reply
        if servertype == "multiplex" and rng.random() < 0.18:
            # the stream sources live on a SECOND daemon that is combined into the first one's multiplex loop (Daemon.combine);
            # the background client, if any, talks to the master (master busy, slave idle) or to the slave
            plan["combined"] = True
            plan["chatter_on"] = rng.choice(["master", "master", "slave"])
        elif rng.random() < 0.12:
            # the daemon is never run by requestLoop(): the application's own loop selects on daemon.sockets and calls daemon.events()
            plan["external_loop"] = True
        if not stall and rng.random() < 0.10:
            # transient socket errors: recv()/send() on sockets in timeout mode fail with EAGAIN / EINTR, in bursts of up to
            # retry_burst consecutive failures (socketutil retries with a growing back-off delay: 16-20 retries cost 9-15 virtual s
            # inside one call).  Either the server's sockets (thread server with COMMTIMEOUT, patient clients) or the clients'
            # (proxy timeout): never both, so that a slow server cannot run into the client's timeout.
            plan["net"]["p_retry_errno"] = rng.choice([0.05, 0.2])
            plan["net"]["retry_burst"] = rng.choice([3, 16, 20])
            if servertype == "thread" and not race and not par and rng.random() < 0.5:
                plan["commtimeout"] = 3.0
                plan["timeout"] = 0.0       # explicitly none (a proxy's default timeout is config.COMMTIMEOUT)
                plan["net"]["retry_sides"] = "s"
            else:
                plan["commtimeout"] = 0.0
                plan["timeout"] = 1.0
                plan["net"]["retry_sides"] = rng.choice(["c", "all"])
        return plan

    def line_codes(self, plan):
        if plan.get("stall"):
            return _codes_stall()
        return _codes() if plan.get("lines") else ()

    def simplify(self, plan):
        if plan.get("serializer") != "serpent":
            p = dict(plan)
            p["serializer"] = "serpent"
            yield p
        if plan.get("nproxies", 1) > 1:
            p = dict(plan)
            p["nproxies"] = 1
            p["corr"] = (plan.get("corr") or [None])[:1]
            p["streams"] = [dict(s, proxy=0) for s in plan["streams"]]
            p["ops"] = [dict(o, p=0) if "p" in o else o for o in plan["ops"]]
            yield p
        if plan["net"].get("shuffle_select"):
            p = dict(plan)
            p["net"] = dict(plan["net"], shuffle_select=False)
            yield p
        for i, o in enumerate(plan["ops"]):
            if o.get("settle"):
                p = dict(plan)
                p["ops"] = [dict((k, v) for k, v in x.items() if k != "settle") if j == i else x for j, x in enumerate(plan["ops"])]
                yield p
                break

    # ------------------------------------------------------------------ scenario
    def scenario(self, ctx):
        plan, sched = ctx.plan, ctx.sched
        config.SERIALIZER = plan["serializer"]
        config.ITER_STREAMING = bool(plan["streaming"])
        config.ITER_STREAM_LIFETIME = float(plan["lifetime"])
        config.ITER_STREAM_LINGER = float(plan["linger"])
        config.MAX_RETRIES = int(plan.get("retries") or 0)
        ctx.probe(plan["servertype"])
        run = _Run.cur = {"sched": sched, "obs": [], "net": ctx.net}
        its = {}
        variant = "combined" if plan.get("combined") else ("external-loop" if plan.get("external_loop") else None)
        if variant:
            plain = ctx.violate     # signatures of the combined-daemon / external-loop variants are told apart by their key

            def violate(kind, key="", msg=""):
                plain(kind, (str(key) + ":" + variant) if key else variant, msg)
            ctx.violate = violate
        try:
            if plan.get("slowfetch"):
                self._slowfetch(ctx, run, its)
            elif plan.get("iterproxy"):
                self._iterproxy(ctx, run, its)
            elif plan.get("nested"):
                self._nested(ctx, run, its)
            else:
                self._drive(ctx, run, its)
        finally:
            _Run.cur = None
            for it in its.values():     # _StreamResultIterator.__del__ calls close(): make that a no-op at teardown
                it.proxy = None
            # ... and for every other stream iterator of this run that is still around (dropped by the scenario, but alive in a
            # reference cycle: exception -> traceback -> frame of __next__). Finalised later - by the collector at the start of the
            # next run, or by a collection INSIDE the next run ('forget' steps) - its __del__ would open a connection to "its"
            # daemon: the next run's daemon has the same address, and would get a close_stream message out of nowhere.
            for o in gc.get_objects():
                if type(o) is CL._StreamResultIterator:
                    o.proxy = None

    def _nested(self, ctx, run, its):
        """focus shape 'nested serve' (own small oracle; see gen)"""
        import Pyro5.core as core
        plan, sched, ns = ctx.plan, ctx.sched, ctx.plan["nested"]
        srv = Server(ctx, plan["servertype"], daemon_cls=ObsDaemon, polltimeout=POLL)
        daemon = srv.daemon
        config.SERVERTYPE = "multiplex"
        back = SV.Daemon(host="127.0.0.1", port=0)          # never run by a loop of its own
        config.SERVERTYPE = plan["servertype"]
        note = BackNote()
        back_uri = back.register(note, "note")
        uri = srv.register(NestSrc(back, note), "nest")
        done = {"cb": None}

        def callback_client():
            try:
                with CL.Proxy(back_uri) as q:
                    q._pyroTimeout = 30.0
                    done["cb"] = q.note()
            except Exception as x:  # noqa
                done["cb"] = "error: %r" % (x,)

        cb = threading.Thread(target=callback_client, name="client-callback")
        cb.start()
        px = CL.Proxy(uri)
        try:
            it = its[0] = px.gen_nested(ns["n"])
        except Exception as x:  # noqa
            ctx.disturbed = "opening the stream failed: %s: %s" % (type(x).__name__, x)
            return
        cb.join(60.0)
        if done["cb"] != 1:
            ctx.disturbed = "the nested request was not served inside the call: %r" % (done["cb"],)
            return
        ctx.probe("nested_request_served_in_call")
        ctx.nontrivial = True
        sid = it.streamId
        for i in range(ns["fetch"]):
            v = next(it)
            if list(v) != [8, i]:
                ctx.violate("wrong-item", "nested-serve", "item %d arrived as %r" % (i, v))
                return
            ctx.probe("item")
        # the client leaves (orderly, or its connection is reset) and stays away for longer than the linger period
        if ns["how"] == "drop":
            c, s_ = ctx.net.conns[px._pyroConnection.sock.conn]
            break_conn(c, s_)
        px._pyroRelease()
        sched.settle()
        away = float(plan["linger"]) + 2 * POLL + 2
        sched.sleep(away)
        sched.settle()
        what = "stream %s (opened by a method that served a nested request first), client away for %.0f s, linger %s" % (sid[:8], away, plan["linger"])
        if sid in daemon.streaming_responses:
            ctx.violate("stream-leaked", "nested-serve", "%s: still in the server's table" % what)
        try:
            px._pyroReconnect(tries=3)
            r = px._pyroInvoke("get_next_stream_item", [sid], {}, objectId=core.DAEMON_NAME)
            ctx.violate("item-after-forgotten", "nested-serve", "%s: the returning client got %r" % (what, r))
        except StopIteration:
            ctx.violate("answer-after-forgotten", "nested-serve", "%s: the returning client got StopIteration (stream still known)" % what)
        except E.CommunicationError as x:
            ctx.disturbed = "the probe fetch lost its connection: %s" % x
        except Exception as x:  # noqa
            ctx.probe("terminated_error" if "terminated" in str(x) else "terminated_other_error")
        it.proxy = None
        px._pyroRelease()
        back.close()
        daemon.shutdown()

    def _iterproxy(self, ctx, run, its):
        """focus shape 'iterate the proxy' (own small oracle; see gen)"""
        plan, sched, ip = ctx.plan, ctx.sched, ctx.plan["iterproxy"]
        srv = Server(ctx, plan["servertype"], daemon_cls=ObsDaemon, polltimeout=POLL)
        daemon = srv.daemon
        n, bad = ip["n"], ip["bad"]
        uri = srv.register((SeqIndexed if ip["getitem"] else SeqBase)(n, bad, ip["exc"]), "seq")
        px = CL.Proxy(uri)
        want = [[7, i] for i in range(n if bad < 0 or bad >= n else bad)]
        want_exc = ip["exc"] if 0 <= bad < n else None
        got, err = [], None
        try:
            for x in px:
                got.append(list(x))
                if len(got) > 3 * n + 3:
                    break
        except Exception as x:  # noqa
            # (plain data, never the exception object: its traceback holds this frame, this frame would hold it - a cycle that only
            #  the collector frees, i.e. the NEXT run's start, where the stream iterator's __del__ would then talk to a dead daemon)
            try:
                text = str(x)[:200]
            except Exception:  # noqa
                text = "<cannot be rendered>"
            err = _Err(type(x).__name__, text, isinstance(x, E.CommunicationError), isinstance(x, E.ProtocolError))
        ctx.nontrivial = True
        ctx.probe("iterated_proxy")
        if want_exc:
            ctx.probe("iterated_proxy_generator_raises")
        if err is not None and err.comm and not (want_exc == "Unserializable" and err.proto):
            ctx.disturbed = "iteration lost its connection: %s" % err.text
            px._pyroRelease()
            return
        what = "for x in proxy over %d items%s" % (n, (", generator raises %s at position %d" % (want_exc, bad)) if want_exc else "")
        if got[:len(want)] != want:
            ctx.violate("wrong-item", "iterate-proxy", "%s delivered %r" % (what, got))
        elif len(got) > len(want):
            ctx.violate("item-repeated", "iterate-proxy:" + (want_exc or "stop"), "%s delivered %r: more than the generator produced"
                        % (what, got))
        if want_exc and got[:len(want)] == want:
            if err is None:
                ctx.violate("generator-exception-lost", "iterate-proxy:" + want_exc, "%s ended without the generator's exception after %r"
                            % (what, got))
            elif want_exc == "Unserializable":
                ctx.probe("unserializable_item")
            elif err.cls != want_exc:
                ctx.violate("generator-exception-lost", "iterate-proxy:wrong:" + want_exc, "%s raised %s: %s instead of the generator's "
                            "exception" % (what, err.cls, err.text))
            else:
                ctx.probe("generator_exception")
        elif not want_exc and err is not None:
            ctx.violate("error-while-live", "iterate-proxy", "%s raised %s: %s" % (what, err.cls, err.text))
        # (a fetch whose item could not be serialised leaves the stream alive - the server-side iterator did not fail; whatever
        #  state the stream is in, it must be gone once the client has left and the linger period has passed)
        err = None
        px._pyroRelease()
        sched.settle()
        sched.sleep(float(plan["linger"]) + 2 * POLL + 1)
        sched.settle()
        if daemon.streaming_responses:
            ctx.violate("stream-leaked", "iterate-proxy", "%d stream(s) left in the table %.0f s after the client had gone (linger %s)"
                        % (len(daemon.streaming_responses), float(plan["linger"]) + 2 * POLL + 1, plan["linger"]))
        daemon.shutdown()

    def _slowfetch(self, ctx, run, its):
        """focus shape 'slow item' (own small oracle; see gen)"""
        import Pyro5.core as core
        plan, sched, sf = ctx.plan, ctx.sched, ctx.plan["slowfetch"]
        srv = Server(ctx, plan["servertype"], daemon_cls=ObsDaemon, polltimeout=POLL)
        daemon = srv.daemon
        uri = srv.register(SlowSrc(), "slow")
        px = CL.Proxy(uri)
        px._pyroTimeout = sf["timeout"]
        it = its[0] = px.gen(sf["n"], sf["k"], sf["slow"])
        sid = it.streamId
        for i in range(sf["k"]):
            v = next(it)
            if list(v) != [9, i]:
                ctx.violate("wrong-item", "slow-item", "item %d of the stream arrived as %r" % (i, v))
                return
            ctx.probe("item")
        try:
            v = next(it)
            ctx.disturbed = "the fetch of the slow item returned %r before the client's timeout" % (v,)
            return
        except E.CommunicationError:
            ctx.probe("slow_fetch_timed_out")
        except Exception as x:
            ctx.disturbed = "the fetch of the slow item failed with %s: %s" % (type(x).__name__, x)
            return
        ctx.nontrivial = True
        if sf.get("settle_before_close"):
            sched.sleep(sf["slow"] + 1.0)
        try:
            px._pyroReconnect(tries=12)
        except Exception as x:
            ctx.disturbed = "reconnect failed: %s: %s" % (type(x).__name__, x)
            return
        it.close()                  # one-way close_stream over the new connection
        ctx.probe("closed_by_client")
        sched.sleep(sf["slow"] + 2.0 + sf["wait_more"])
        sched.settle()
        # somebody comes back for that stream: an error, never an item
        try:
            r = px._pyroInvoke("get_next_stream_item", [sid], {}, objectId=core.DAEMON_NAME)
            ctx.violate("item-after-forgotten", "closed-during-slow-fetch", "the client closed stream %s (while/after the server produced "
                        "item %d slowly); a later request for that stream was answered with %r" % (sid[:8], sf["k"], r))
        except E.CommunicationError as x:
            ctx.disturbed = "the probe fetch lost its connection: %s" % x
        except StopIteration:
            ctx.violate("answer-after-forgotten", "closed-during-slow-fetch", "the client closed stream %s; a later request for that "
                        "stream was answered with StopIteration (the stream was still known)" % sid[:8])
        except Exception as x:
            if "terminated" in str(x):
                ctx.probe("terminated_error")
            else:
                ctx.probe("terminated_other_error")
        sched.settle()
        if sid in daemon.streaming_responses:
            ctx.violate("stream-leaked", "closed-during-slow-fetch", "stream %s was closed by its client and is still in the server's table "
                        "%.0f s later" % (sid[:8], sf["slow"] + 2.0 + sf["wait_more"]))
        if not srv.loop_alive():
            ctx.violate("daemon-loop-died", "slow-item", "request loop ended: %r" % (srv.loop_death(),))
        px._pyroRelease()
        daemon.shutdown()

    def _drive(self, ctx, run, its):
        plan, sched = ctx.plan, ctx.sched
        streams = plan["streams"]
        nprox = plan["nproxies"]
        life, linger = float(plan["lifetime"]), float(plan["linger"])
        net = ctx.net
        combined = bool(plan.get("combined")) and plan["servertype"] == "multiplex"
        if combined:
            # master: a plain Daemon whose requestLoop runs; slave: the observed daemon that owns the streams, served by the
            # master's loop (Daemon.combine).  Everything the model describes (table, housekeeping passes, disconnects) is the slave's.
            srv = Server(ctx, "multiplex", daemon_cls=None, polltimeout=POLL)
            daemon = ObsDaemon(host="127.0.0.1", port=0)
            srv.daemon.combine(daemon)
            uri = daemon.register(Src(), "src")
            ctx.probe("combined")
        elif plan.get("external_loop"):
            srv = _OwnLoop(ctx, plan["servertype"], float(plan.get("commtimeout") or 0.0))
            daemon = srv.daemon
            uri = srv.register(Src(), "src")
            ctx.probe("external_loop")
        else:
            srv = Server(ctx, plan["servertype"], daemon_cls=ObsDaemon, commtimeout=float(plan.get("commtimeout") or 0.0),
                         polltimeout=POLL)
            daemon = srv.daemon
            uri = srv.register(Src(), "src")
        # ---- in-flight faults: a middlebox that loses the reply of one armed get_next_stream_item call
        farm = {"arm": None}
        if any(isinstance(o, dict) and o.get("fault") for o in plan["ops"]):
            def c2s(pipe, k, info, raw):
                return True

            def s2c(pipe, k, info, raw):
                arm = farm["arm"]
                if arm is None or info["type"] != N.MSG_RESULT or pipe.conn != arm["conn"]:
                    return True
                farm["arm"] = None
                arm["rec"]["fault_fired"] = arm["kind"]
                ctx.fault(arm["kind"])
                sched.ev("fault", arm["kind"], pipe.conn)
                if arm["kind"] == "reply_rst":
                    c, sv = net.conns[pipe.conn]
                    break_conn(c, sv)       # the reply is lost with the connection: the client sees a reset
                return None                 # reply_timeout: the reply never arrives, the client's own timeout ends the call
            install_script(net, c2s, s2c)
        t_start = sched.now
        chat = {"stop": False, "calls": 0, "errors": 0}
        if plan.get("chatter"):
            ping_uri = (daemon if combined and plan.get("chatter_on") == "slave" else srv.daemon).register(Ping(), "ping")

            def chatter():
                # unrelated background traffic: a request every POLL/4 s for the whole run (not part of the model)
                px = CL.Proxy(ping_uri)
                if plan.get("timeout") == 0.0:
                    px._pyroTimeout = None
                while not chat["stop"]:
                    try:
                        px.ping()
                        chat["calls"] += 1
                    except Exception:  # noqa
                        chat["errors"] += 1
                    sched.sleep(POLL / 4)
                try:
                    px._pyroRelease()
                except Exception:  # noqa
                    pass

            threading.Thread(target=chatter, name="chatter").start()
            ctx.probe("chatter")
        boxes = [{"op": None, "done": True} for _ in range(nprox)]
        corr_used = [False]
        proxies = [None] * nprox
        oplog = []

        def exec_op(proxy, p, op):
            kind, s = op["op"], op.get("s")
            rec = {"op": kind, "p": p, "s": s, "final": bool(op.get("final")), "inv": sched.stamp(), "t0": sched.now,
                   "was_connected": proxy._pyroConnection is not None,
                   "conn_before": _conn_of(proxy._pyroConnection), "foreign": bool(op.get("_foreign")),
                   "forget": bool(op.get("forget"))}
            if kind in ("next", "close"):
                it = its[s]
                rec["it_alive"] = it.proxy is not None
                rec["in_sync"] = it.proxy is not None and it.pyroseq == it.proxy._pyroSeq
            if kind == "next" and op.get("fault") and rec["conn_before"] is not None:
                fk = op["fault"] if (op["fault"] == "reply_rst" or proxy._pyroTimeout) else "reply_rst"
                farm["arm"] = {"conn": rec["conn_before"], "kind": fk, "rec": rec}
            try:
                if kind == "open":
                    sd = streams[s]
                    if sd["kind"] == "gen" and sd.get("fin"):
                        ctx.probe("source_cleanup_raises")
                        r = proxy.gen(s, sd["n"], sd["bad"], True)
                    else:
                        r = getattr(proxy, "gen" if sd["kind"] == "gen" else "lst")(s, sd["n"], sd["bad"])
                    if isinstance(r, CL._StreamResultIterator):
                        its[s] = r
                        out = ("opened", r.streamId)
                    else:
                        out = ("value", repr(r)[:80])
                elif kind == "next":
                    out = ("item", next(its[s]))
                elif kind == "close":
                    if op.get("forget"):
                        del its[s]
                        it = None       # the last reference goes: __del__ -> close() runs right here, in this (foreign) thread -
                        gc.collect()    # or as soon as the collector gets to it (a remote exception leaves the iterator in a
                        #                 reference cycle: exception -> traceback -> frame of __next__): the collector runs here
                    else:
                        its[s].close()
                    out = ("ok",)
                elif kind == "release":
                    proxy._pyroRelease()
                    out = ("ok",)
                elif kind == "reconnect":
                    proxy._pyroReconnect(tries=1)
                    out = ("ok",)
                else:
                    raise S.HarnessError("unknown op %r" % (op,))
            except S.HarnessError:
                raise
            except StopIteration:
                out = ("stop",)
            except ValueError as x:
                out = ("genexc", str(x.args[0]) if x.args else "")
            except E.ConnectionClosedError as x:
                out = ("closed", str(x)[:100])
            except E.ProtocolError as x:
                out = ("protocol", str(x)[:100])
            except E.CommunicationError as x:
                out = ("comm", type(x).__name__, str(x)[:100])
            except E.PyroError as x:
                out = ("error", type(x).__name__, str(x)[:100])
            except Exception as x:  # noqa - e.g. a KeyError raised remotely
                out = ("error", type(x).__name__, str(x)[:100])
            farm["arm"] = None
            rec["out"] = out
            rec["ret"] = sched.stamp()
            rec["t1"] = sched.now
            rec["connected"] = proxy._pyroConnection is not None
            oplog.append(rec)
            sched.ev("op", kind, p, s, out)
            return rec

        def client(p):
            k = (plan.get("corr") or [None] * nprox)[p] if p < len(plan.get("corr") or []) else None
            if k is not None:
                # documented client API: a thread-local of THIS client thread, sent with every call it makes
                cctx.correlation_id = uuid.UUID(int=((plan.get("seed", 0) + 1) * 1000003 + 7919 * (k + 1)) & ((1 << 128) - 1), version=4)
                corr_used[0] = True
            proxy = CL.Proxy(uri)
            if plan.get("timeout") is not None:
                proxy._pyroTimeout = float(plan["timeout"]) or None     # 0.0: explicitly no timeout
            proxies[p] = proxy
            box = boxes[p]
            while True:
                if not sched.block(lambda: box["op"] is not None, 1.0e6, "mailbox"):
                    continue
                op, box["op"] = box["op"], None
                if op["op"] == "quit":
                    box["done"] = True
                    return
                try:
                    exec_op(proxy, p, op)
                finally:
                    box["done"] = True

        threads = []
        for p in range(nprox):
            t = threading.Thread(target=client, args=(p,), name="client%d" % p)
            t.start()
            threads.append(t)

        state = {"hung": None, "par": 0}

        def calm():
            """nothing runnable any more; with injected stalls also: no server step still sleeping in the middle of its work"""
            if plan.get("stall"):
                sched.quiesce()
            else:
                sched.settle(5.0)
            if (plan.get("net") or {}).get("p_retry_errno"):
                # a server thread may be sleeping in a retry back-off in front of bytes / an end-of-stream it has not read yet
                for _ in range(120):
                    if not any((not sv.closed) and (len(sv.rx) or sv.eof or sv.reset) for _c, sv in net.conns):
                        break
                    sched.sleep(1.0)
                    sched.settle(5.0)

        def start(p, op):
            """hand one op to the owning client thread"""
            box = boxes[p]
            box["done"] = False
            box["op"] = op

        def finish(p, op):
            """wait for its completion (virtual deadline)"""
            if state["hung"]:
                return False
            box = boxes[p]
            if not sched.block(lambda: box["done"], 600.0, "op-done"):
                state["hung"] = op
                return False
            if op.get("settle"):
                sched.settle(5.0)
            return True

        def run_op(p, op):
            if state["hung"]:
                return False
            start(p, op)
            return finish(p, op)

        attempted = set()

        def resolve(op):
            """-> index of the proxy that owns the op if the op means something right now, else None (an op on a stream that was
            never opened, a second open of the same stream, an unknown slot ... is a no-op)"""
            if not isinstance(op, dict):
                return None
            kind = op.get("op")
            if kind in ("open", "next", "close"):
                s = op.get("s")
                if not isinstance(s, int) or not 0 <= s < len(streams):
                    return None
                p = streams[s]["proxy"]
                if not isinstance(p, int) or not 0 <= p < nprox:
                    return None
                if kind == "open":
                    if s in attempted:
                        return None
                elif s not in its:
                    return None
                return p
            if kind in ("release", "reconnect", "drop"):
                p = op.get("p")
                if not isinstance(p, int) or not 0 <= p < nprox:
                    return None
                return p
            return None

        def before(op):
            if op["op"] == "open":
                attempted.add(op["s"])

        def after(op):
            if op["op"] == "open" and op["s"] not in its:
                rec = next((r for r in reversed(oplog) if r["op"] == "open" and r["s"] == op["s"]), None)
                if rec is not None and rec["out"][0] in ("closed", "comm"):
                    attempted.discard(op["s"])  # the call never reached the server (dead connection): a later open may try again

        def do_drop(p, op):
            """the network kills the proxy's connection between two client calls; nothing may be in flight on it"""
            if proxies[p] is None:
                return
            idx = _conn_of(proxies[p]._pyroConnection)
            if idx is None:
                return
            calm()
            csock, ssock = net.conns[idx]
            if csock.closed or ssock.closed or csock.reset:
                return
            st0 = sched.stamp()
            break_conn(csock, ssock)
            oplog.append({"op": "drop", "p": p, "s": None, "conn": idx, "inv": st0, "ret": sched.stamp(), "out": ("ok",),
                          "connected": True, "was_connected": True, "conn_before": idx, "final": False})
            sched.ev("op", "drop", p, idx)

        def foreign_ok(p, s_):
            """may another thread than the proxy's owner close / drop this iterator?  Only when it would not touch the proxy itself:
            out of sync with a connected proxy (close_stream then travels through a temporary copy made by the closing thread);
            in sync it would use the proxy and fail the owner check - the caller's fault, also on the unchanged code"""
            it_, px = its.get(s_), proxies[p]
            return (it_ is not None and px is not None and it_.proxy is not None and px._pyroConnection is not None
                    and it_.pyroseq != it_.proxy._pyroSeq)

        def helper_close(p, op):
            """one close / finalisation performed by a helper thread that is started for it and joined"""
            fop = dict(op, _foreign=True)
            ht = threading.Thread(target=lambda: exec_op(proxies[p], p, fop), name="helper")
            ht.start()
            ht.join(600.0)
            if sched.sim_thread_of(ht).state != "done":
                state["hung"] = op
                return
            ctx.probe("foreign_thread_finalize" if op.get("forget") else "foreign_thread_close")
            if op.get("settle"):
                sched.settle(5.0)

        def single(op):
            p = resolve(op)
            if p is None or state["hung"]:
                return
            if op["op"] == "close" and (op.get("helper") or op.get("forget")):
                if foreign_ok(p, op["s"]):
                    helper_close(p, op)
                else:
                    run_op(p, dict((k, v) for k, v in op.items() if k not in ("helper", "forget")))
                return
            if op["op"] == "drop":
                do_drop(p, op)
                if op.get("settle"):
                    sched.settle(5.0)
                return
            before(op)
            run_op(p, op)
            after(op)

        for op in plan["ops"]:
            if state["hung"]:
                break
            kind = op.get("op")
            if kind == "advance":
                sched.sleep(float(op["dt"]))
            elif kind == "par":
                # two ops of DIFFERENT proxies at the same instant: a = release / drop, b = open / next / close
                a, b = op.get("a"), op.get("b")
                pa, pb = resolve(a), resolve(b)
                if pa is None or pb is None or pa == pb or a["op"] not in ("release", "drop") or b["op"] not in ("open", "next", "close"):
                    single(a)
                    single(b)
                    continue
                state["par"] += 1
                if a["op"] == "drop":
                    do_drop(pa, a)      # the server starts handling the disconnect while b's call arrives
                    single(b)
                else:
                    before(b)
                    start(pa, a)
                    start(pb, b)
                    finish(pa, a)
                    finish(pb, b)
                    after(b)
                if op.get("settle"):
                    sched.settle(5.0)
            else:
                single(op)

        def poke():
            """an externally driven multiplex daemon can only housekeep when the application hands it an event: give it one (an
            unrelated connection) before looking at its table"""
            if not (plan.get("external_loop") and plan["servertype"] == "multiplex") or state["hung"]:
                return

            def run_poke():
                try:
                    with CL.Proxy(uri) as px:
                        px._pyroBind()
                except Exception:  # noqa
                    pass
            pk = threading.Thread(target=run_poke, name="poke")
            pk.start()
            pk.join(600.0)
            sched.settle(5.0)

        # ---- end of run: close everything, look; release everything, wait for every expiry plus housekeeping, look again
        if not state["hung"]:
            for s in sorted(its):
                fin = {"op": "close", "s": s, "final": True}
                if plan.get("helper_final") and foreign_ok(streams[s]["proxy"], s):
                    helper_close(streams[s]["proxy"], dict(fin, forget=(plan["helper_final"] == "forget")))
                else:
                    run_op(streams[s]["proxy"], fin)
            calm()
            poke()
            _obs("snap", tuple(sorted(daemon.streaming_responses)), "after-close")
        if not state["hung"]:
            for p in range(nprox):
                run_op(p, {"op": "release", "p": p, "final": True})
            calm()
            sched.sleep(max(life, linger) + 3 * POLL + 1.0)
            calm()
            poke()
            _obs("snap", tuple(sorted(daemon.streaming_responses)), "final")
        chat["stop"] = True
        if hasattr(srv, "stop"):
            srv.stop = True
        ctx.info["chatter"] = [chat["calls"], chat["errors"]]
        for p in range(nprox):
            if boxes[p]["done"]:
                boxes[p]["op"] = {"op": "quit"}
        sched.settle(5.0)

        # ---- crashes of server threads inside the stream machinery
        died = [(t.name, t.died) for t in sched.deaths if t.died]
        stream_frames = ("_housekeeping", "get_next_stream_item", "close_stream", "_clientDisconnect", "_streamResponse")
        for name, d in died:
            if name.startswith("client"):
                raise S.HarnessError("client thread died: %r" % (d,))
            frame = d[2] or ""
            if any(frame.endswith(":" + f) for f in stream_frames):
                what = {"housekeeper": "no stream will ever be expired (lifetime / linger) again",
                        "daemon-loop": "the daemon's request loop is gone: every open stream and every later call hangs"}.get(
                            name, "the connection it served is lost")
                ctx.violate("server-thread-died", "%s.%s.%s" % (name, frame.split(":")[-1], d[0]),
                            "thread %r died with %s(%s) in %s while another thread removed the same stream (lifetime=%g linger=%g, %s "
                            "server): %s" % (name, d[0], d[1], frame, life, linger, plan["servertype"], what))
        if ctx.violations:
            return      # the crash is the finding; its consequences (hung calls, leaked streams) are not reported separately
        if state["hung"]:
            if died or not srv.loop_alive():
                ctx.disturbed = "server thread died outside the stream code: %r" % (died or srv.loop_death(),)
            else:
                ctx.violate("operation-hung", state["hung"]["op"], "client operation %r did not return within 600 virtual seconds"
                            % (state["hung"],))
            return
        for t in threads:
            st = sched.sim_thread_of(t)
            if st.died:
                raise S.HarnessError("client thread died: %r" % (st.died,))
        if sched.preempts:
            ctx.probe("preempted")
        if getattr(sched, "stalls", 0):
            ctx.probe("stalled")
        if net.stats.get("retry_errno"):
            ctx.probe("transient_socket_errors")
            ctx.info["retry_errno"] = net.stats["retry_errno"]
        if state["par"]:
            ctx.probe("concurrent_ops")
        if corr_used[0]:
            ctx.probe("client_correlation_id")
        self._judge(ctx, plan, oplog, run["obs"], t_start)

    # ------------------------------------------------------------------ reference model + oracle
    def _judge(self, ctx, plan, oplog, obs, t_start):
        life, linger = float(plan["lifetime"]), float(plan["linger"])
        streaming = bool(plan["streaming"])
        streams = plan["streams"]
        GONE = ("gone",)
        slots = []
        for i, sd in enumerate(streams):
            nitems, end = source_shape(sd)
            slots.append({"i": i, "sid": None, "S": None, "created": None, "cursor": 0, "nitems": nitems, "end": end,
                          "it_alive": False, "closing": False, "broken": False, "fuzzy": False, "reason": None,
                          "recv": []})
        flags = {"items": 0, "interesting": 0}

        def bad(sl, kind, key, msg):
            sl["broken"] = True
            ctx.violate(kind, key, "stream %d (%s, %d items then %s; lifetime=%g linger=%g, %s server): %s"
                        % (sl["i"], streams[sl["i"]]["kind"], sl["nitems"], sl["end"], life, linger, plan["servertype"] + (" (streams on a daemon combined into another daemon's loop)" if plan.get("combined") else ""), msg))

        def set_gone(sl, reason):
            sl["S"] = {GONE}
            if sl["reason"] is None:
                sl["reason"] = reason

        # ---- detect overlapping critical sections (only possible with line pre-emption)
        events = []
        for r in oplog:
            events.append((r["inv"], "op-start", r))
            events.append((r["ret"], "op-end", r))
        for o in obs:
            events.append((o[0], "obs", o))
        events.sort(key=lambda e: e[0])
        open_sections = []     # [kind, streamId or None, stamp of its start]
        raced_sids = set()
        raced_all = [False]
        peek_fetches = set()   # start stamps of fetches that overlap a disconnect step (and nothing else table-wide)
        starts = {"hk-start": "hk", "disc-start": "disc", "fetch": "fetch", "closex": "closex"}
        ends = {"hk": "hk", "disc-end": "disc", "fetch-end": "fetch", "closex-end": "closex"}
        for _, what, o in events:
            if what != "obs":
                continue
            k = o[1]
            if k in ("create", "fetch", "closex") and any(x[0] == "disc" for x in open_sections):
                ctx.probe("disconnect_during_table_change")
            if k in starts:
                sec = [starts[k], o[3] if k in ("fetch", "closex") else None, o[0]]
                for other in open_sections:
                    for a, b in ((sec, other), (other, sec)):
                        if a[0] == "disc" and b[0] == "fetch":
                            # a disconnect step and a fetch are two whole-entry stores: either order, decided by the entry
                            # the fetch leaves behind (observed when it ends)
                            peek_fetches.add(b[2])
                        elif a[1] is None and b[1] is not None:
                            raced_sids.add(b[1])        # table-wide step overlaps a per-stream step
                        elif a[1] is not None and a[1] == b[1]:
                            raced_sids.add(a[1])
                    if sec[1] is None and other[1] is None and life > 0:
                        # housekeeping overlaps a disconnect step: with a lifetime its removal can race the linger mark of any
                        # stream.  Without one the pass cannot touch a stream this step marks (the mark is younger than the
                        # linger period: stalls are at most 2 s, linger is 3 s or more) and the step touches nothing else.
                        raced_all[0] = True
                open_sections.append(sec)
            elif k in ends:
                kind = ends[k]
                for j in range(len(open_sections) - 1, -1, -1):
                    if open_sections[j][0] == kind and (kind in ("hk", "disc") or open_sections[j][1] == o[3]):
                        del open_sections[j]
                        break
        if not plan.get("lines"):
            # without line pre-emption the bodies of the four steps contain no yield point: they are atomic at their stamps
            raced_sids.clear()
            raced_all[0] = False
            peek_fetches.clear()
        if raced_sids or raced_all[0]:
            ctx.probe("raced")

        def fuzzy(sl):
            return sl["fuzzy"] or raced_all[0] or (sl["sid"] is not None and sl["sid"] in raced_sids)

        def check_table(table, label, now):
            table = set(table)
            known = set()
            pending = 0
            alive = 0
            for sl in slots:
                if sl["S"] is None:
                    continue
                if GONE not in sl["S"]:
                    alive += 1
                if sl["sid"] is None:
                    if GONE not in sl["S"] or len(sl["S"]) > 1:
                        pending += 1        # created on the server, the opening call has not returned yet
                    continue
                known.add(sl["sid"])
                if sl["broken"] or fuzzy(sl):
                    continue
                if sl["S"] == {GONE} and sl["sid"] in table:
                    if len([x for x in slots if x["sid"] == sl["sid"]]) > 1:
                        continue            # (only with colliding stream ids; reported through the items)
                    if not sl.get("leaked"):
                        sl["leaked"] = True     # reported once; the stream stays under observation (a later item is worse)
                        bad(sl, "stream-leaked", sl["reason"] or "", "the server still holds the stream at %s (t=%.1f) although it was %s"
                            % (label, now - S.EPOCH, sl["reason"]))
                        sl["broken"] = False
                elif GONE not in sl["S"] and sl["sid"] not in table:
                    bad(sl, "stream-forgotten-while-live", label.split(" ")[0], "the server's table no longer holds the stream at %s "
                        "(t=%.1f) although nothing ended it (model state %s)" % (label, now - S.EPOCH, sorted(sl["S"])))
            unknown = sorted(table - known)
            if len(unknown) > pending:
                if not streaming:
                    ctx.violate("streaming-disabled-not-refused", "table", "ITER_STREAMING is off but the stream table holds %r" % (unknown,))
                elif not any(fuzzy(sl) for sl in slots):
                    ctx.violate("stream-leaked", "unknown-id", "stream table holds ids no client stream owns: %r at %s" % (unknown, label))
            if alive >= 2:
                ctx.probe("concurrent_streams")

        def classify(out):
            if out[0] in ("item", "stop", "genexc"):
                return out
            if out[0] in ("error", "protocol"):
                return ("error",) + tuple(out[1:])
            return out      # closed / comm / opened / value / ok

        def normal_at(sl, cur):
            if cur < sl["nitems"]:
                return ("item", [sl["i"], cur])
            if sl["end"] == "exc":
                return ("genexc", "boom-%d-%d" % (sl["i"], cur))
            return ("stop",)

        def expirable(sl, a, now, conn):
            if life > 0 and now - sl["created"] >= life - EPS:
                return True
            if a[0] == "linger" and now - a[1] >= linger - EPS:
                return True
            return a[0] == "live" and a[1] != conn and linger <= 0

        def on_fetch_lost(sl, now, conn, op):
            """the server executes the fetch, the client never sees the answer (and is told so by a communication error)"""
            if sl.get("maybe") or fuzzy(sl):
                # already uncertain (an earlier lost reply, or overlapping steps): one more item may be gone; weak checks from here on
                sl["fuzzy"] = True
                sl["maybe"] = sl.get("maybe", 0) + 1
                sl["S"] = set(sl["S"]) | {("live", conn), GONE}
                op["lost_consumed"] = "?"
                return
            normal = normal_at(sl, sl["cursor"])
            ns = set()
            possible, certain = False, True
            for a in sl["S"]:
                if a == GONE:
                    ns.add(GONE)
                    certain = False
                    continue
                if expirable(sl, a, now, conn):
                    ns.add(GONE)
                    certain = False
                possible = True
                ns.add(("live", a[1] if a[0] == "live" else conn) if normal[0] == "item" else GONE)
            sl["S"] = ns
            if possible and normal[0] == "item":
                op["lost_consumed"] = normal[1]
                if certain:
                    sl["cursor"] += 1
                else:
                    sl["maybe"] = 1         # cursor or cursor + 1: decided by the next answer
            elif possible and sl["reason"] is None:
                sl["reason"] = "exhausted" if normal[0] == "stop" else "failed (generator raised)"

        def on_fetch(sl, now, conn, op):
            out = classify(op["out"])
            i = sl["i"]
            if sl.get("maybe") and out[0] in ("item", "stop", "genexc"):
                # earlier fetches whose replies were lost may or may not have consumed an item each: the answer decides
                for d in range(sl["maybe"] + 1):
                    if normal_at(sl, sl["cursor"] + d) == out:
                        sl["cursor"] += d
                        break
                sl["maybe"] = 0
            cur = sl["cursor"]
            normal = normal_at(sl, cur)
            if out[0] == "item":
                v = out[1]
                # clause 1 holds for every stream, raced or not: gap-free, duplicate-free prefix of its own source
                if not (isinstance(v, list) and len(v) == 2):
                    return bad(sl, "item-wrong-or-out-of-order", "shape", "next() returned %r" % (v,))
                if v[0] != i:
                    return bad(sl, "item-from-other-stream", "", "next() returned %r, an item of stream %r (received so far %r)"
                               % (v, v[0], sl["recv"]))
                if normal[0] != "item":
                    return bad(sl, "missing-stopiteration" if normal[0] == "stop" else "generator-exception-lost", "item-past-end",
                               "next() returned %r after all %d items were received; the source ends with %s" % (v, cur, sl["end"]))
                if v != normal[1]:
                    return bad(sl, "item-wrong-or-out-of-order", "", "next() returned %r, expected %r (received so far %r)"
                               % (v, normal[1], sl["recv"]))
            if fuzzy(sl):
                sl["fuzzy"] = True
                if out[0] == "item":
                    sl["recv"].append(out[1])
                    sl["cursor"] += 1
                    flags["items"] += 1
                    sl["S"] = {("live", conn), GONE}
                elif out[0] in ("stop", "genexc", "error"):
                    sl["S"] = {GONE}
                return
            branches = []
            may_expired = False
            for a in sorted(sl["S"]):
                if a == GONE:
                    branches.append((("error",), GONE, "gone"))
                    continue
                exp = False
                if life > 0 and now - sl["created"] >= life - EPS:
                    exp = True
                if a[0] == "linger" and now - a[1] >= linger - EPS:
                    exp = True
                if a[0] == "live" and a[1] != conn and linger <= 0:
                    exp = True      # its own connection is not the one asking: with no linger forgetting it is allowed
                if normal[0] == "item":
                    na = ("live", a[1] if a[0] == "live" else conn)
                else:
                    na = GONE
                branches.append((normal, na, a[0]))
                if exp:
                    may_expired = True
                    branches.append((("error",), GONE, "may-expired"))
            match = [b for b in branches if (b[0][0] == "error" and out[0] == "error") or b[0] == out]
            if match:
                tags = {b[2] for b in match}
                if out[0] == "item":
                    ctx.probe("item")
                    flags["items"] += 1
                    sl["recv"].append(out[1])
                    sl["cursor"] += 1
                    if "linger" in tags:
                        ctx.probe("reconnect_within_linger")
                        flags["interesting"] += 1
                        if sl.get("conn_error"):
                            ctx.probe("continued_after_drop")
                        if sl.get("lost_reply"):
                            ctx.probe("continued_after_lost_reply")
                    if any(a[0] == "live" and a[1] != conn for a in sl["S"]):
                        ctx.probe("fetch_before_old_disconnect")
                    if may_expired:
                        ctx.probe("expired_but_still_answers")
                elif out[0] == "stop":
                    ctx.probe("stop")
                    sl["reason"] = sl["reason"] or "exhausted"
                elif out[0] == "genexc":
                    ctx.probe("generator_exception")
                    flags["interesting"] += 1
                    sl["reason"] = sl["reason"] or "failed (generator raised)"
                elif out[0] == "error":
                    if "item stream terminated" in " ".join(map(str, out[1:])):
                        ctx.probe("terminated_error")
                    if sl["reason"] in ("linger expired", "dropped at disconnect (no linger)") and tags == {"gone"}:
                        ctx.probe("reconnect_after_linger")
                    if tags != {"gone"} and sl["reason"] is None:
                        sl["reason"] = "expired"
                sl["S"] = {b[1] for b in match}
                return
            # ---- no model branch explains the outcome
            st = sorted(sl["S"])
            if out[0] == "item":
                return bad(sl, "item-after-forgotten", sl["reason"] or "", "next() returned %r although the server must have forgotten "
                           "the stream (%s)" % (out[1], sl["reason"]))
            if out[0] == "stop":
                if normal[0] == "item":
                    return bad(sl, "premature-stopiteration", "", "StopIteration after %d of %d items (model state %s)" % (cur, sl["nitems"], st))
                if normal[0] == "genexc":
                    return bad(sl, "generator-exception-lost", "", "StopIteration instead of the generator's ValueError at position %d" % cur)
                return bad(sl, "stopiteration-for-forgotten-stream", sl["reason"] or "", "StopIteration from a stream the server forgot (%s): the "
                           "client cannot tell it from a normal end" % sl["reason"])
            if out[0] == "genexc":
                if sl["S"] == {GONE} and out == normal:
                    return bad(sl, "answer-after-forgotten", sl["reason"] or "", "next() re-raised the generator's exception %r although the "
                               "server must have forgotten the stream (%s): it still ran the generator" % (out[1], sl["reason"]))
                if normal[0] == "genexc":
                    return bad(sl, "generator-exception-lost", "wrong", "next() raised ValueError(%r), the generator raised %r" % (out[1], normal[1]))
                return bad(sl, "unexpected-outcome", "genexc", "next() raised ValueError(%r), model expects %r (state %s)" % (out[1], normal, st))
            if out[0] == "error":
                if normal[0] == "stop" and all(a != GONE for a in sl["S"]):
                    kind = "missing-stopiteration"
                elif normal[0] == "genexc":
                    kind = "generator-exception-lost"
                elif any(a[0] == "linger" for a in sl["S"]):
                    kind = "reconnect-did-not-continue"
                else:
                    kind = "error-while-live"
                return bad(sl, kind, "", "next() raised %r at position %d although the stream must be alive (model state %s; expected %r)"
                           % (out[1:], cur, st, normal))
            return bad(sl, "unexpected-outcome", out[0], "next() ended %r, model expects %r (state %s)" % (out, normal, st))

        def silent_stop(sl, o):
            """StopIteration answered by the client alone although the iterator never ended and was never closed"""
            if sl["cursor"] < sl["nitems"] or sl["end"] == "exc":
                bad(sl, "premature-stopiteration", "after-connection-error" if sl.get("conn_error") else "client-local",
                    "next() raised StopIteration without asking the server after %d of %d items (source ends with %s)%s; server side "
                    "model state %s" % (sl["cursor"], sl["nitems"], sl["end"],
                                        ", after an earlier next() had failed with a connection error" if sl.get("conn_error") else "",
                                        sorted(sl["S"] or [])))
            # else: every item was delivered and the source would stop next: observably exact

        # ---- bounded liveness of housekeeping, independent of traffic: from daemon start to the end of the scenario (the final look
        # at the table) two consecutive completed passes are never more than HK_BOUND apart (no request takes virtual time here)
        t_end = next((o[2] for o in obs if o[1] == "snap" and o[4] == "final"), None)
        if t_end is not None:
            marks = [t_start] + [o[2] for o in obs if o[1] == "hk" and o[2] <= t_end] + [t_end]
            gap, at = max((b - a, a) for a, b in zip(marks, marks[1:]))
            if gap > HK_BOUND + EPS:
                # not a violation by itself: the statement is about WHEN STREAMS are forgotten, not about how often a pass runs (a server
                # that expired streams lazily on access would keep the property with rarer passes). The ageing rule below turns a
                # starved housekeeper into property-level violations (item-after-forgotten, stream-leaked); this is the reach probe.
                ctx.probe("housekeeping_gap_over_bound")

        def age(now):
            """a stream that is past its lifetime / linger by more than HK_BOUND must be gone whether or not a pass was seen"""
            for sl in slots:
                if not sl["S"] or sl["S"] == {GONE}:
                    continue
                ns = set()
                for a in sl["S"]:
                    why = None
                    if a != GONE and life > 0 and now - sl["created"] > life + HK_BOUND:
                        why = "lifetime expired"
                    elif a[0] == "linger" and linger > 0 and now - a[1] > linger + HK_BOUND:
                        why = "linger expired"
                    if why:
                        ns.add(GONE)
                        if sl["reason"] is None:
                            sl["reason"] = why
                        if plan.get("combined"):
                            ctx.probe("combined_slave_idle_expiry")
                    else:
                        ns.add(a)
                sl["S"] = ns

        open_ops = {}       # proxy -> its call in flight (two at most, of different proxies, inside a 'par' op)
        disc_applied = set()
        disc_open = set()
        disc_t0 = {}        # connection -> virtual time at which its disconnect step began (it may be slow: injected stalls)
        dead = set()        # connections killed by the network (drop) or closed by the server (observed disconnect)
        for stamp, what, o in events:
            if what == "op-start":
                open_ops[o["p"]] = o
                o["fetches"] = 0
                continue
            if what == "obs":
                kind, now = o[1], o[2]
                age(now)
                if kind == "disc-end":
                    disc_open.discard(o[3])
                if kind == "create":
                    sl = slots[o[3]]
                    sl["created"] = now
                    sl["S"] = {("live", o[4])} if streaming else {GONE}
                    if not streaming:
                        sl["reason"] = "never registered (streaming disabled)"
                elif kind == "fetch":
                    cands = [x for x in open_ops.values() if x["op"] == "next"]
                    if len(cands) > 1:
                        cands = [x for x in cands if x["conn_before"] == o[4]] or cands
                    cur_op = cands[0] if cands else None
                    if cur_op is None:
                        ctx.violate("unexpected-server-call", "fetch", "get_next_stream_item(%s) arrived outside a next() (during %r)"
                                    % (o[3], sorted(x["op"] for x in open_ops.values())))
                        continue
                    cur_op["fetches"] += 1
                    sl = slots[cur_op["s"]]
                    sl["pre_conns"] = {a[1] for a in (sl["S"] or ()) if a[0] == "live"}
                    if sl["broken"] or sl["S"] is None:
                        continue
                    if cur_op["fetches"] > 1 and not cur_op.get("fault_fired"):
                        bad(sl, "unexpected-server-call", "refetch", "one next() caused %d item fetches" % cur_op["fetches"])
                        continue
                    if cur_op.get("fault_fired") and cur_op["fetches"] == 1:
                        on_fetch_lost(sl, now, o[4], cur_op)    # the server runs the fetch, its reply never reaches the client
                    else:
                        on_fetch(sl, now, o[4], cur_op)
                    if o[0] in peek_fetches:
                        sl["peek_at"] = o[3]
                elif kind == "fetch-end":
                    for sl in slots:
                        if sl.get("peek_at") == o[3] and sl["sid"] == o[3]:
                            sl["peek_at"] = None
                            if sl["broken"] or sl["S"] is None or fuzzy(sl) or sl.get("maybe"):
                                continue
                            ctx.probe("fetch_during_disconnect")
                            pk = o[4]
                            if pk is None:
                                if sl["S"] != {GONE}:
                                    sl["S"] = {GONE}    # (answered with the end / an error, or dropped by the disconnect: linger 0)
                                    sl["reason"] = sl["reason"] or "dropped at disconnect (no linger)"
                                back = sorted(c for c in sl.get("pre_conns", ()) if c in disc_open)
                                if back and linger > 0:
                                    # the disconnect step of its old connection is still in progress: it may have read the entry
                                    # before the fetch removed it and store its linger mark afterwards (the entry comes back for
                                    # one linger period; nobody can reach it) - tolerated
                                    sl["S"] = {GONE, ("linger", disc_t0.get(back[0], now))}
                                    sl["back_conn"] = back[0]
                                    ctx.probe("entry_may_come_back")
                            elif pk[0] is None:
                                sl["S"] = {("linger", pk[1] if pk[1] else now)}
                            else:
                                sl["S"] = {("live", pk[0])}
                                if pk[0] in disc_open:      # its connection's disconnect step has not reached it yet
                                    sl["S"].add(("linger", now) if linger > 0 else GONE)
                elif kind == "disc-start":
                    disc_t0[o[3]] = now
                    disc_open.add(o[3])
                    # from now on until the step ends each stream of that connection may already carry its linger mark / be dropped
                    # (the step can be slow: several injected stalls add up to more than a linger period)
                    for sl in slots:
                        if sl["S"] and ("live", o[3]) in sl["S"]:
                            sl["S"] = set(sl["S"]) | {("linger", now) if linger > 0 else GONE}
                elif kind == "closex":
                    for sl in slots:
                        if sl["sid"] == o[3] and sl["S"] is not None:
                            if GONE not in sl["S"]:
                                ctx.probe("closed_by_client")
                                flags["interesting"] += 1
                            set_gone(sl, "closed by the client")
                elif kind == "disc" or (kind == "disc-end" and o[4] is not None and (o[3], o[0]) not in disc_applied):
                    # the server noticed that the connection ended (hook), or - hook never reached - its disconnect step failed:
                    # the connection has ended all the same, so linger starts / the streams are dropped
                    if kind == "disc":
                        nxt = next((x for x in obs if x[1] == "disc-end" and x[3] == o[3] and x[0] > o[0]), None)
                        if nxt is not None:
                            disc_applied.add((o[3], nxt[0]))
                    dead.add(o[3])
                    for sl in slots:
                        if sl["S"] is None:
                            continue
                        if sl.get("back_conn") == o[3]:
                            sl["back_conn"] = None
                            if linger > 0:
                                sl["S"] = set(sl["S"]) | {("linger", now)}
                        ns = set()
                        for a in sl["S"]:
                            if a == ("live", o[3]):
                                if linger > 0:
                                    ns.add(("linger", now))
                                    if disc_t0.get(o[3], now) < now:
                                        ns.add(("linger", disc_t0[o[3]]))   # a slow step: the mark was set somewhere in between
                                else:
                                    ns.add(GONE)
                                    if sl["reason"] is None:
                                        sl["reason"] = "dropped at disconnect (no linger)"
                                    flags["interesting"] += 1
                            else:
                                ns.add(a)
                        sl["S"] = ns
                elif kind == "hk":
                    ctx.probe("housekeeping_observed")
                    for sl in slots:
                        if sl["S"] is None:
                            continue
                        ns = set()
                        for a in sl["S"]:
                            if a == GONE:
                                ns.add(a)
                                continue
                            verdicts = []
                            if life > 0:
                                el = now - sl["created"]
                                verdicts.append(("lifetime expired", 1 if el > life + EPS else (0 if el >= life - EPS else -1)))
                            if a[0] == "linger" and linger > 0:
                                el = now - a[1]
                                verdicts.append(("linger expired", 1 if el > linger + EPS else (0 if el >= linger - EPS else -1)))
                            must = [r for r, v in verdicts if v == 1]
                            may = [r for r, v in verdicts if v == 0]
                            if must:
                                ns.add(GONE)
                                if sl["reason"] is None:
                                    sl["reason"] = must[0]
                                    ctx.probe("lifetime_expired" if must[0].startswith("lifetime") else "linger_expired")
                                    if plan.get("combined"):
                                        ctx.probe("combined_slave_idle_expiry")
                                    flags["interesting"] += 1
                            else:
                                ns.add(a)
                                if may:
                                    ns.add(GONE)
                        sl["S"] = ns
                    check_table(o[3], "housekeeping pass", now)
                elif kind == "snap":
                    label = o[4]
                    if label == "after-close":
                        for sl in slots:
                            if sl["closing"] and not sl["broken"] and not fuzzy(sl) and sl["S"] is not None and sl["S"] != {GONE}:
                                bad(sl, "stream-leaked", "close-not-delivered", "close() returned and the server went idle, but close_stream "
                                    "never reached the server")
                        check_table(o[3], "quiescence after closing every stream", now)
                    else:
                        # every proxy was released long ago and every lifetime has passed: the table must be empty, raced or not,
                        # and whatever the model thinks (a disconnect the server never noticed leaves the model 'live')
                        for sl in slots:
                            if sl["S"] is not None and sl["S"] != {GONE} and not fuzzy(sl):
                                ctx.info["model_not_quiescent"] = sorted(sl["S"])
                        if o[3]:
                            owners = [sl["i"] for sl in slots if sl["sid"] in o[3]]
                            ctx.violate("stream-leaked", "at-end", "after every stream was closed, every proxy released and %.0f s passed "
                                        "(lifetime=%g linger=%g) the stream table still holds %d entries (streams %r)"
                                        % (max(life, linger) + 3 * POLL + 1, life, linger, len(o[3]), owners))
                continue
            # ---- op-end
            open_ops.pop(o["p"], None)
            kind, out, p = o["op"], o["out"], o["p"]
            if kind == "drop":
                dead.add(o["conn"])
                continue
            # the connection the call used was killed by the network / closed by the server (COMMTIMEOUT) before or during it
            dead_now = o["conn_before"] is not None and o["conn_before"] in dead
            commfail = out[0] == "comm" or (out[0] == "closed" and (kind != "next" or o["was_connected"]))
            if commfail:
                if not ((dead_now and not o.get("fetches")) or o.get("fault_fired")):
                    ctx.violate("unexpected-outcome", "comm:" + kind, "%s failed with a communication error %r although its connection "
                                "was neither dropped nor closed by the server" % (kind, out))
                    return
                ctx.probe("reply_lost" if o.get("fault_fired") else "connection_dropped")
                if o.get("fault_fired") and kind == "next":
                    slots[o["s"]]["lost_reply"] = True
                if o["connected"]:
                    ctx.violate("unexpected-outcome", "not-released", "%s failed with %r but the proxy kept its dead connection" % (kind, out))
                    return
                if kind == "next":
                    sl = slots[o["s"]]
                    if not sl["it_alive"] and not sl["broken"]:
                        bad(sl, "missing-stopiteration", "after-end", "next() on an exhausted / closed iterator ended %r" % (out,))
                    sl["conn_error"] = True     # no item was consumed unless the server ran the fetch and its reply was lost
                # open: the stream was never created; close (in sync): close_stream was never sent, the iterator stays usable
                continue
            if kind == "open":
                sl = slots[o["s"]]
                if out[0] == "opened":
                    sl["sid"] = out[1]
                    sl["it_alive"] = True
                    if not streaming:
                        bad(sl, "streaming-disabled-not-refused", "", "ITER_STREAMING is off but the call returned a stream iterator")
                    elif sl["S"] is None:
                        raise S.HarnessError("stream opened but the source method was never observed")
                elif out[0] == "protocol" and not streaming:
                    ctx.probe("streaming_disabled")
                else:
                    if streaming:
                        bad(sl, "open-failed", out[0], "the call returning the iterator ended %r" % (out,))
                    else:
                        bad(sl, "streaming-disabled-not-refused", out[0], "ITER_STREAMING is off; expected ProtocolError, the call ended %r" % (out,))
            elif kind == "next":
                sl = slots[o["s"]]
                if o.get("fault_fired") and o["fetches"] >= 2 and o.get("lost_consumed") and out[0] in ("item", "stop", "genexc") \
                        and not sl["broken"]:
                    bad(sl, "item-lost", "retried-fetch", "the reply of a fetch was lost (%s) after the server had taken item %r out of the "
                        "iterator; next() silently fetched again (%d fetches, MAX_RETRIES=%s) and ended %r: the item is lost and no error "
                        "told the caller" % (o["fault_fired"], o["lost_consumed"], o["fetches"], plan.get("retries"), out))
                if not o["fetches"] and not sl["broken"]:
                    if not sl["it_alive"]:
                        if out[0] == "stop":
                            ctx.probe("client_local_stop")
                        else:
                            bad(sl, "missing-stopiteration", "after-end", "next() on an exhausted / closed iterator ended %r" % (out,))
                    elif out[0] == "stop":
                        silent_stop(sl, o)
                    elif not o["was_connected"]:
                        if out[0] == "closed":
                            ctx.probe("client_local_closed")
                        else:
                            bad(sl, "unexpected-outcome", "released-proxy", "next() on a released proxy ended %r" % (out,))
                    elif dead_now:
                        bad(sl, "unexpected-outcome", "dead-connection", "next() over a dead connection ended %r, expected a communication error" % (out,))
                    else:
                        bad(sl, "unexpected-outcome", "no-fetch", "next() ended %r without asking the server" % (out,))
                elif o["fetches"] and not sl["broken"]:
                    if not sl["it_alive"]:
                        bad(sl, "missing-stopiteration", "after-end", "next() on an iterator that had already ended asked the server again and "
                            "ended %r instead of StopIteration" % (out,))
                    elif not o["was_connected"]:
                        bad(sl, "unexpected-outcome", "released-proxy", "next() on a released proxy reached the server (%r)" % (out,))
                if out[0] == "stop":
                    sl["it_alive"] = False
            elif kind == "close":
                sl = slots[o["s"]]
                if out[0] != "ok" and not sl["broken"]:
                    bad(sl, "close-failed", "foreign-thread" if o.get("foreign") else "owner", "close() of the stream iterator%s ended %r: "
                        "close_stream is not sent, the server keeps serving the closed stream"
                        % (" from a thread that is not the proxy's owner (out of sync with the proxy: it has to use a temporary copy)"
                           if o.get("foreign") else "", out))
                if sl["it_alive"] and o["was_connected"] and not (dead_now and o["in_sync"]):
                    sl["closing"] = True
                    if not o["in_sync"]:
                        ctx.probe("temp_proxy_close")
                sl["it_alive"] = False
            elif kind == "reconnect":
                if out[0] != "ok":
                    ctx.violate("unexpected-outcome", "reconnect", "_pyroReconnect ended %r" % (out,))
                    return
        used = {streams[sl["i"]]["proxy"] for sl in slots if sl["sid"] is not None}
        if len(used) >= 2:
            ctx.probe("two_proxies")
        ctx.nontrivial = flags["items"] > 0 and flags["interesting"] > 0
        ctx.info["items"] = flags["items"]


WORLD = StreamWorld()
