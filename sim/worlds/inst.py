"""C09 - instance modes: one instance per daemon, one per connection, or one per call.

A real Daemon (thread-pool or multiplex server) has 1-3 *classes* registered, drawn from a fixed family of
module-level workload classes: one per (instance mode x instance shape x with/without instance creator).
2-4 real Proxy clients (own threads) run histories of connect, call x n, release, reconnect; optionally all
clients connect first and release their first calls together (barrier), with line pre-emption inside
Daemon._getInstance / createInstance on the thread server.  Every instance takes a serial number in __init__
and every call returns the serial of the instance that served it; the construction log keeps only weak
references, so that "dropped when the connection ends" is observed through the weakref after the server
has quiesced.  Instance creators are module-level functions driven by a per-run script (ok / raise /
return None / return an object of a foreign class).  Constructors can take virtual time (per class, from the plan),
the daemon can run with a COMMTIMEOUT, and every class also has a one-way method whose executions are logged
server side (token + serial of the executing instance), so that first-call-is-one-way and one-way-then-disconnect
histories are judged by the same instance mode rules.
"""
import gc
import threading
import weakref

from ..world import World
from .. import sched as S
from .common import Server, SERIALIZERS
from ..seams import CL, SV, PR, config
import Pyro5.api as api
import Pyro5.errors as E
from Pyro5.callcontext import current_context as cctx

MODES = ["single", "session", "percall"]
SHAPES = ["truthy", "len0", "boolfalse", "eqtrue", "eqfalse", "unhashable", "slots", "slotseq", "hashraises"]
FALSY = ("len0", "boolfalse")
EQ = ("eqtrue", "eqfalse", "unhashable", "slotseq", "hashraises")
SLOTS = ("slots", "slotseq")            # no __dict__, no __weakref__: liveness is observed through __del__ instead of a weakref
ACTIONS = ["ok", "raise", "raise_te", "raise_ae", "raise_ke", "none", "impostor"]
RAISES = {"raise": RuntimeError, "raise_te": TypeError, "raise_ae": AttributeError, "raise_ke": KeyError}


# ------------------------------------------------------------------ per-run state (the classes are module level)
_RUN_IDS = [0]


class _Run:
    def __init__(self, sched=None):
        _RUN_IDS[0] += 1
        self.runid = _RUN_IDS[0]
        self.dead = set()       # serials of the instances without weak reference support whose __del__ has run
        self.sched = sched
        self.serial = 0
        self.made = []          # {"serial","key","mode","conn","seq","stamp","end","ref" (weakref only!),"in_creator"}
        self.creator_log = []   # {"key","n","conn","seq","stamp","action"}
        self.execs = []         # one-way executions: {"tok","serial","stamp"}
        self.work = {}          # class key -> virtual seconds a construction takes
        self.sub = set()        # class keys whose creator returns instances of a proper subclass of the registered class
        self.hook_raises = set()    # connection numbers for which the clientDisconnect hook raises
        self.hook_calls = []    # (connection number, raised)
        self.creator_n = {}     # class key -> invocations so far
        self.scripts = {}       # class key -> list of actions for the 1st, 2nd, ... invocation ("ok" beyond the list)
        self.in_creator = {}    # sim thread idx -> depth
        self.lock_contended = 0


_RUN = _Run()


def _conn_of_current_request():
    c = cctx.client
    return getattr(getattr(c, "sock", None), "conn", None)


def _seq_of_current_request():
    return cctx.seq


def _constructed(self):
    """__init__ of every workload class"""
    run = _RUN
    s = run.sched
    if s is None:
        raise RuntimeError("workload class instantiated outside a simulation run")
    run.serial += 1
    self._serial = run.serial
    self._runid = run.runid
    cls = type(self)
    tid = s.me().idx
    m = {"serial": self._serial, "key": cls._key, "mode": cls._mode, "conn": _conn_of_current_request(),
         "seq": _seq_of_current_request(), "stamp": s.stamp(), "end": None,
         "ref": weakref.ref(self) if cls._shape not in SLOTS else None,
         "in_creator": run.in_creator.get(tid, 0) > 0}
    run.made.append(m)
    s.ev("made", cls._key, self._serial)
    w = run.work.get(cls._key)
    if w:
        s.sleep(w)              # a constructor that takes a while (virtual time)
    m["end"] = s.stamp()


def _who(self, tok):
    return [self._serial, tok]


def _note(self, tok):
    """one-way: nothing is returned, the execution is logged"""
    run = _RUN
    s = run.sched
    if s is None:
        return
    run.execs.append({"tok": tok, "serial": self._serial, "stamp": s.stamp()})
    s.ev("note", tok, self._serial)


_note = api.oneway(_note)


def _creator_for(holder):
    """the instance creator of one '..._c' class. Like many real factories it can also be called without the class (the daemon
    always passes it): a daemon that calls it a second time in another way after a failure runs its body twice"""
    def _creator(clazz=None):
        return _creator_body(clazz if clazz is not None else holder[0])
    return _creator


def _creator_body(clazz):
    """behaviour of the instance creators; comes from the current run's script"""
    run = _RUN
    s = run.sched
    if s is None:
        raise RuntimeError("instance creator called outside a simulation run")
    key = clazz._key
    n = run.creator_n.get(key, 0) + 1
    run.creator_n[key] = n
    script = run.scripts.get(key) or []
    action = script[n - 1] if n - 1 < len(script) else "ok"
    run.creator_log.append({"key": key, "n": n, "conn": _conn_of_current_request(), "seq": _seq_of_current_request(),
                            "stamp": s.stamp(), "action": action})
    s.ev("creator", key, n, action)
    if action in RAISES:
        raise RAISES[action]("creator refuses (invocation %d)" % n)
    if action == "none":
        return None
    tid = s.me().idx
    run.in_creator[tid] = run.in_creator.get(tid, 0) + 1
    try:
        if action == "impostor":
            return Impostor()
        if key in run.sub:
            return SUBCLASSES[clazz]()      # a factory: isinstance(obj, clazz) holds, type(obj) is not clazz
        return clazz()
    finally:
        run.in_creator[tid] -= 1


def _same_serial(self, other):
    return type(other) is type(self) and other._serial == self._serial


def _hash_raises(self):
    raise RuntimeError("this object refuses to be hashed")


def _slots_del(self):
    run = _RUN
    if getattr(self, "_runid", None) == run.runid:
        run.dead.add(self._serial)


def _make_class(mode, shape, with_creator):
    name = "I_%s_%s_%s" % (mode, shape, "c" if with_creator else "n")
    ns = {"__module__": __name__, "__qualname__": name, "__init__": _constructed, "who": _who, "note": _note,
          "_key": name, "_mode": mode, "_shape": shape, "_with_creator": with_creator}
    if shape == "len0":
        ns["__len__"] = lambda self: 0                       # container-like and empty
    elif shape == "boolfalse":
        ns["__bool__"] = lambda self: False
    elif shape == "eqtrue":
        ns["__eq__"] = lambda self, other: True
        ns["__hash__"] = lambda self: 7
    elif shape == "eqfalse":
        ns["__eq__"] = lambda self, other: False             # not even equal to itself
        ns["__hash__"] = lambda self: 7
    elif shape == "unhashable":
        ns["__eq__"] = _same_serial                          # compares by content, and (like list/dict/set) cannot be hashed
        ns["__hash__"] = None
    elif shape == "slots":
        ns["__slots__"] = ("_serial", "_runid")              # no __dict__, cannot be weakly referenced
        ns["__del__"] = _slots_del
    elif shape == "slotseq":
        ns["__slots__"] = ("_serial", "_runid")
        ns["__eq__"] = lambda self, other: True
        ns["__hash__"] = lambda self: 7
        ns["__del__"] = _slots_del
    elif shape == "hashraises":
        ns["__eq__"] = _same_serial
        ns["__hash__"] = _hash_raises
    cls = type(name, (object,), ns)
    holder = []
    # identical to:  @api.behavior(instance_mode=..., instance_creator=...)  @api.expose  class ...
    cls = api.behavior(instance_mode=mode, instance_creator=_creator_for(holder) if with_creator else None)(api.expose(cls))
    holder.append(cls)
    return cls


CLASSES = {}
for _m in MODES:
    for _sh in SHAPES:
        for _c in (False, True):
            _cls = _make_class(_m, _sh, _c)
            CLASSES[(_m, _sh, _c)] = _cls
            globals()[_cls.__name__] = _cls
del _m, _sh, _c, _cls

# what a factory-style creator returns: an instance of a proper subclass (same shape, same bookkeeping key)
SUBCLASSES = {}
for _k, _cls in CLASSES.items():
    if _k[2]:
        _ns = {"__module__": __name__, "__qualname__": "Sub_" + _cls.__name__}
        if _k[1] in SLOTS:
            _ns["__slots__"] = ()
        SUBCLASSES[_cls] = type("Sub_" + _cls.__name__, (_cls,), _ns)
        globals()["Sub_" + _cls.__name__] = SUBCLASSES[_cls]
del _k, _cls, _ns


@api.expose
class Impostor:
    """what a misbehaving instance creator returns: exposes the same method, but is not an instance of the class"""
    _key = "Impostor"
    _mode = "impostor"
    _shape = "truthy"
    __init__ = _constructed
    who = _who
    note = _note


class _HookDaemon(SV.Daemon):
    """a daemon with a user clientDisconnect hook that fails for the connections the plan names"""

    def clientDisconnect(self, conn):
        run = _RUN
        c = getattr(getattr(conn, "sock", None), "conn", None)
        bad = c in run.hook_raises
        run.hook_calls.append((c, bad))
        if run.sched is not None:
            run.sched.ev("hook", c, bad)
        if bad:
            raise RuntimeError("clientDisconnect hook fails for connection %r" % (c,))


class _ProbeLock(S.SimLock):
    """Daemon.create_single_instance_lock with a contention counter (same semantics)"""

    def __init__(self, sched):
        super().__init__(sched)
        self.inside_acquire = 0

    def acquire(self, blocking=True, timeout=-1):
        if self._owner is not None and self._owner is not self._s.me():
            _RUN.lock_contended += 1
        self.inside_acquire += 1
        try:
            return super().acquire(blocking, timeout)
        finally:
            self.inside_acquire -= 1

    def release(self):
        if self.inside_acquire:
            _RUN.lock_contended += 1        # somebody arrived at the gate while we were inside the region
        super().release()


_CODES = None


def _codes():
    global _CODES
    if _CODES is None:
        _CODES = S.code_closure(SV.Daemon._getInstance)     # includes the nested createInstance and helpers it calls by name
    return _CODES


def _alive(recs):
    """serials of the records whose instance still exists; looks only through the weak references
    (instances that cannot be weakly referenced report their own finalisation)"""
    dead = _RUN.dead
    return [m["serial"] for m in recs if (m["ref"]() is not None if m["ref"] is not None else m["serial"] not in dead)]


class InstWorld(World):
    PROPERTY = "C09"
    NAME = "inst"
    REAL = ["Pyro5.server.Daemon._getInstance/createInstance, register, handleRequest dispatch", "Pyro5.server.behavior / expose",
            "socketutil.SocketConnection.pyroInstances / close", "SocketServer_Threadpool / SocketServer_Multiplex",
            "Pyro5.client.Proxy (connect, call, release, reconnect)", "Pyro5.protocol", "serializers (all four)"]
    STUB = ["sockets/selector (in-memory)", "threads (baton scheduler, line pre-emption and injected stalls in Daemon._getInstance + createInstance)",
            "time (virtual clock)", "uuid4 (seeded)",
            "Daemon.create_single_instance_lock replaced by a subclass of the simulated lock that counts contention"]
    PROBES = ["concurrent_first_calls_overlapped", "falsy_shape", "eq_shape", "creator_used", "creator_failed", "creator_failed_typeerror",
              "creator_wrong_type", "session_dropped_verified", "percall", "multiplex", "thread", "reconnect",
              "single", "session", "multi_class_connection", "preempted_in_getInstance", "session_dropped_while_others_connected",
              "session_dropped_after_reset", "commtimeout", "slow_constructor", "single_creation_longer_than_commtimeout_contended",
              "stalled_in_getInstance", "oneway_served", "oneway_first_call", "oneway_first_then_call_slow_session",
              "session_dropped_after_oneway_then_disconnect", "daemon_closed_with_open_connections", "served_after_daemon_close",
              "single_served_after_daemon_close", "unhashable_shape", "slots_shape", "slots_session_dropped_verified", "two_daemons", "second_daemon_after_first_was_shut_down",
              "single_class_served_by_two_daemons", "unknown_object_call", "alias_registered_and_withdrawn",
              "session_call_after_unknown_object_with_stale_alias", "served_by_subclass_instance", "session_served_by_subclass_instance", "session_dropped_although_disconnect_hook_raised", "session_dropped_after_daemon_close"]
    RULE = ("plan = (server type, serializer, 1-3 registered classes out of {single,session,percall} x {truthy, falsy via __len__, "
            "falsy via __bool__, __eq__ always True, __eq__ always False, __eq__ without __hash__ (unhashable), __slots__ without __weakref__ / "
            "__dict__, __slots__ with __eq__, __hash__ that raises} x {no creator, creator script of ok/raise/None/foreign "
            "object per invocation; optionally a factory creator returning instances of a proper subclass}, optionally an alias step (a class registered a second time under another id with force=True, that id withdrawn again, before the clients start or at a virtual time during the run), optionally a second daemon serving the same classes (side by side or after the first was shut down), 2-4 clients x 1-3 connections (released or reset by the client; same or new proxy) x 0-4 calls, normal, one-way or naming an unknown object id (a call may address another registered class over "
            "the same connection), construction time 0/0.05/0.9 virtual s per class, COMMTIMEOUT 0 or 0.3 s, optional barrier releasing all "
            "first calls together, a clientDisconnect hook that raises for chosen connections, optionally daemon.shutdown()/close() while every "
            "client keeps its last connection open followed by 0-2 more calls on it, pre-emption and stall probabilities); distinct = "
            "distinct interleaving digest; non-trivial = at least two connections were served successfully")
    ASSUMPTIONS = ["a connection has ended for the daemon once the client released it and the server threads have run until they block "
                   "(virtual clock advanced), the one-way calls sent on it have been executed (bounded wait) and no thread is serving an "
                   "injected stall; only then must a session instance be gone",
                   "a finished one-way call thread object is garbage in a real process: what the scheduler's thread table still holds of it "
                   "(bound method, call context) is dropped before instance liveness is judged",
                   "with COMMTIMEOUT the clients never idle longer than 0.01 s on an open connection and their proxies have no timeout",
                   "calls made after daemon.shutdown()/close() on a connection that was open before may fail or be answered; only answered "
                   "ones are judged, by the same rules (thread server only: a stopped multiplex loop serves nobody)",
                   "an executed one-way call counts like an answered call; a one-way call that was never executed (creator failed, request "
                   "lost with a reset connection) is not judged",
                   "an instance held only by a garbage cycle counts as dropped (gc.collect() before a leak is reported)",
                   "instances of the __slots__ shapes cannot be weakly referenced: their death is observed through their own __del__",
                   "with two daemons in one run (side by side, or the second after the first was shut down) every rule holds per daemon, and an "
                   "instance created by one daemon never serves a call of the other",
                   "a request needs at most one new instance, so at most one creator invocation may happen while serving one request",
                   "a creator that returns an object that is not an instance of the class has failed: the call must not be served by that object",
                   "methods of the workload classes never raise, so every error reply stems from instance creation"]
    QUICK_RUNS = 6000
    CHUNK = 100
    SHRINK_LISTS = (["clients", "objs"] + ["clients.%d.sessions" % i for i in range(4)] +
                    ["clients.%d.sessions.%d.calls" % (i, j) for i in range(4) for j in range(3)] +
                    ["objs.%d.creator" % k for k in range(3)] + ["hook_raises", "alias"] + ["clients.%d.after" % i for i in range(4)])

    # ------------------------------------------------------------------ plans
    def gen(self, rng, tier):
        race = rng.random() < 0.45
        if race:
            servertype = "thread" if rng.random() < 0.85 else "multiplex"
        else:
            servertype = rng.choice(["thread", "multiplex"])
        commtimeout = rng.choice([0, 0, 0.3])
        close_then_call = servertype == "thread" and rng.random() < 0.15
        if close_then_call:
            commtimeout = 0         # (the survivors idle while the others finish: with COMMTIMEOUT the server would drop them by design)
        hook_raises = sorted(k for k in range(10) if rng.random() < 0.5) if rng.random() < 0.3 else []
        nobj = rng.choice([1, 1, 2, 2, 3])
        objs = []
        used = set()
        for i in range(nobj):
            for _ in range(20):
                if race and i == 0 and rng.random() < 0.75:
                    mode = "single"
                else:
                    mode = rng.choice(MODES)
                shape = rng.choice(["truthy", "truthy", "truthy", "len0", "boolfalse", "eqtrue", "eqfalse",
                                    "unhashable", "slots", "slotseq", "hashraises"])
                cr = rng.random() < 0.5
                if (mode, shape, cr) not in used:
                    break
            else:
                continue
            used.add((mode, shape, cr))
            script = None
            if cr:
                if rng.random() < 0.35:
                    script = []
                else:
                    script = [rng.choice(["ok", "ok", "raise", "raise", "none", "impostor", "raise_te", "raise_ae", "raise_ke"])
                              for _ in range(rng.randint(1, 4))]
            ob = {"mode": mode, "shape": shape, "creator": script, "work": rng.choice([0, 0, 0.05, 0.9])}
            if cr and rng.random() < 0.25:
                ob["sub"] = True
            objs.append(ob)
        nobj = len(objs)
        aliasing = rng.random() < 0.15
        p_unknown = 0.22 if aliasing else 0.06
        clients = []
        for ci in range(rng.randint(2, 4)):
            sessions = []
            for si in range(rng.choice([1, 1, 2, 3])):
                so = 0 if (race and si == 0 and rng.random() < 0.85) else rng.randrange(nobj)
                calls = []
                for j in range(rng.randint(1, 4) if si == 0 else rng.choice([0, 1, 2, 3, 4])):
                    o = rng.randrange(nobj) if (nobj > 1 and rng.random() < 0.15 and not (race and si == 0 and j == 0)) else so
                    k = "note" if rng.random() < (0.3 if j == 0 else 0.2) else "who"
                    if j > 0 and rng.random() < p_unknown:
                        k = "unknown"       # a request naming an object id the daemon does not know: error reply, nothing else changes
                    calls.append({"o": o, "k": k, "pause": rng.choice([0, 0, 0, 0.01])})
                sessions.append({"o": so, "reuse": rng.random() < 0.5, "abort": rng.random() < 0.2, "calls": calls})
            cl = {"start": rng.choice([0, 0, 0.01, 0.3]), "sessions": sessions}
            if close_then_call:
                cl["after"] = [{"o": rng.randrange(nobj) if rng.random() < 0.3 else sessions[-1]["o"],
                                "k": "note" if rng.random() < 0.2 else "who", "pause": 0} for _ in range(rng.randint(0, 2))]
            clients.append(cl)
        extra = {}
        if aliasing:
            # the class is registered a second time under another id (force=True) and that id is withdrawn again
            sess_objs = [k for k, ob in enumerate(objs) if ob["mode"] == "session"]
            extra["alias"] = [{"o": rng.choice(sess_objs) if (sess_objs and rng.random() < 0.7) else rng.randrange(nobj),
                               "at": rng.choice([0, 0, 0, 0.005, 0.3, 0.6, 1.2]), "hold": rng.choice([0, 0, 0.3]),
                               "by": rng.choice(["id", "id", "class"])} for _ in range(rng.choice([1, 1, 2]))]
        if not close_then_call and rng.random() < 0.12:
            # a second daemon in the same process serving the same classes, next to the first one or after it was shut down
            extra["daemon2"] = {"servertype": rng.choice(["thread", "multiplex"]), "when": rng.choice(["parallel", "parallel", "after"])}
            for i, cl in enumerate(clients):
                cl["d"] = 1 if (i == len(clients) - 1 or rng.random() < 0.4) else 0
            if all(cl["d"] == 1 for cl in clients):
                clients[0]["d"] = 0
        if close_then_call:
            extra["close_then_call"] = rng.choice(["shutdown", "shutdown", "close"])
        if hook_raises:
            extra["hook_raises"] = hook_raises
            extra["pool_min"] = 4       # Pyro's default: idle workers stay (and keep their thread-local call context)
        return {**extra, "servertype": servertype, "serializer": rng.choice(SERIALIZERS), "race": race, "commtimeout": commtimeout,
                "objs": objs, "clients": clients,
                "p_line": rng.choice([0.1, 0.25, 0.5]),
                "p_block": rng.choice([0.3, 0.6, 1.0]) if race else rng.choice([0.0, 0.3, 0.6, 1.0]),
                "p_stall": rng.choice([0.0, 0.0, 0.02]),
                "net": {"shuffle_select": rng.random() < 0.5}}

    def line_codes(self, plan):
        return _codes()

    def simplify(self, plan):
        if plan.get("race"):
            p = dict(plan)
            p["race"] = False
            yield p
        if plan["servertype"] != "multiplex":
            p = dict(plan)
            p["servertype"] = "multiplex"
            yield p
        if plan.get("commtimeout"):
            p = dict(plan)
            p["commtimeout"] = 0
            yield p
        if plan.get("daemon2"):
            p = {k: v for k, v in plan.items() if k != "daemon2"}
            yield p
            if plan["daemon2"].get("when") != "parallel":
                p = dict(plan)
                p["daemon2"] = dict(plan["daemon2"], when="parallel")
                yield p
        for k, o in enumerate(plan["objs"]):
            if o.get("sub"):
                p = dict(plan)
                p["objs"] = [dict(x) for x in plan["objs"]]
                del p["objs"][k]["sub"]
                yield p
        if plan.get("close_then_call") == "shutdown":
            p = dict(plan)
            p["close_then_call"] = "close"
            yield p
        if plan.get("close_then_call"):
            p = {k: v for k, v in plan.items() if k != "close_then_call"}
            yield p
        if plan["serializer"] != "serpent":
            p = dict(plan)
            p["serializer"] = "serpent"
            yield p
        if plan.get("net", {}).get("shuffle_select"):
            p = dict(plan)
            p["net"] = dict(plan["net"], shuffle_select=False)
            yield p
        for k, o in enumerate(plan["objs"]):
            if o.get("creator") == []:
                p = dict(plan)
                p["objs"] = [dict(x) for x in plan["objs"]]
                p["objs"][k]["creator"] = None
                yield p
            if o.get("work"):
                p = dict(plan)
                p["objs"] = [dict(x) for x in plan["objs"]]
                p["objs"][k]["work"] = 0
                yield p
        for i, c in enumerate(plan["clients"]):
            dirty = c.get("start") or any(s.get("reuse") or s.get("abort") or any(x.get("pause") for x in s["calls"]) for s in c["sessions"])
            if dirty:
                p = dict(plan)
                p["clients"] = [dict(x) for x in plan["clients"]]
                p["clients"][i] = {"start": 0, "d": c.get("d", 0), "after": c.get("after") or [], "sessions": [{"o": s["o"], "reuse": False,
                                                             "calls": [{"o": x["o"], "k": x.get("k", "who"), "pause": 0} for x in s["calls"]]}
                                                            for s in c["sessions"]]}
                yield p
            if any(x.get("k") == "note" for s in c["sessions"] for x in s["calls"]):
                p = dict(plan)
                p["clients"] = [dict(x) for x in plan["clients"]]
                p["clients"][i] = dict(c, sessions=[dict(s, calls=[dict(x, k="who") for x in s["calls"]]) for s in c["sessions"]])
                yield p

    # ------------------------------------------------------------------ one run
    def scenario(self, ctx):
        global _RUN
        run = _RUN = _Run(ctx.sched)
        registered = []
        try:
            self._scenario(ctx, run, registered)
        finally:
            for daemon, classes, oids in registered:
                for oid in oids:
                    try:
                        daemon.unregister(oid)
                    except Exception:  # noqa
                        pass
                for cls in classes:             # the classes are module level: do not keep this run's daemons alive through them
                    for a in ("_pyroId", "_pyroDaemon"):
                        if a in cls.__dict__:
                            delattr(cls, a)
                pool = getattr(getattr(daemon, "transportServer", None), "pool", None)
                if pool is not None:
                    pool.closed = True          # nothing left for SocketServer_Threadpool.__del__ -> Pool.close() to wait for
            run.sched = None

    @staticmethod
    def _forget_finished_oneway_threads(sched):
        """A finished _OnewayCallThread object is garbage in a real process; here the scheduler's thread table keeps it, and with
        it the bound method (-> the instance) and the call context (-> the connection). Drop what the dead thread object holds."""
        for t in sched.threads:
            th = t.real
            if t.state == "done" and isinstance(th, SV._OnewayCallThread) and th.pyro_method is not None:
                th.pyro_method = th.pyro_vargs = th.pyro_kwars = th.parent_context = None

    @staticmethod
    def _oneway_threads_running(sched):
        return any(t.state != "done" and isinstance(t.real, SV._OnewayCallThread) for t in sched.threads)

    def _scenario(self, ctx, run, registered):
        plan, sched, net = ctx.plan, ctx.sched, ctx.net
        config.SERIALIZER = plan["serializer"]
        ctx.probe(plan["servertype"])
        commtimeout = float(plan.get("commtimeout") or 0.0)
        # ---- the classes of this run (duplicates - possible only in hand-edited / simplified plans - share one registration)
        objs = []       # effective objects: {"cls","key","mode","shape","script","work","uri","oid"}
        index = []      # plan object index -> effective object index
        for o in plan["objs"]:
            cls = CLASSES[(o["mode"], o["shape"], o.get("creator") is not None)]
            hit = next((k for k, e in enumerate(objs) if e["cls"] is cls), None)
            if hit is None:
                hit = len(objs)
                objs.append({"cls": cls, "key": cls._key, "mode": o["mode"], "shape": o["shape"], "work": float(o.get("work") or 0.0),
                             "script": list(o["creator"]) if o.get("creator") is not None else None, "k": hit, "oid": "o%d" % hit})
                if o.get("sub") and o.get("creator") is not None:
                    run.sub.add(cls._key)
            index.append(hit)
        if not objs or not any(c["sessions"] for c in plan["clients"]):
            return
        servers = []        # daemon number -> Server
        uris = []           # daemon number -> [uri of object k]

        def start_daemon(servertype):
            sv = Server(ctx, servertype, daemon_cls=_HookDaemon, pool=(int(plan.get("pool_min") or 1), 8), commtimeout=commtimeout)
            sv.daemon.create_single_instance_lock = _ProbeLock(sched)     # same semantics, counts contention (probe only)
            servers.append(sv)
            uris.append([sv.register(e["cls"], e["oid"]) for e in objs])  # every daemon serves the same classes under the same ids
            registered.append((sv.daemon, [e["cls"] for e in objs], [e["oid"] for e in objs]))
            return sv

        srv = start_daemon(plan["servertype"])
        daemon = srv.daemon
        run.hook_raises = set(plan.get("hook_raises") or ())
        closing = plan.get("close_then_call") if plan["servertype"] == "thread" else None   # (a stopped multiplex loop serves nobody)
        second = plan.get("daemon2") if not closing else None
        if second and second.get("when") == "parallel":
            start_daemon(second["servertype"])
        for e in objs:
            if e["script"] is not None:
                run.scripts[e["key"]] = e["script"]
            if e["work"]:
                run.work[e["key"]] = e["work"]
        by_key = {e["key"]: e for e in objs}
        maxwork = max(e["work"] for e in objs)
        if commtimeout:
            ctx.probe("commtimeout")

        def eff(i):
            return objs[index[i % len(index)]]

        race = bool(plan.get("race"))
        later = second is not None and second.get("when") != "parallel"     # daemon 2 starts after daemon 1 was shut down

        def daemon_of(cspec):
            return 1 if (second and cspec.get("d")) else 0

        expected = sum(1 for c in plan["clients"] if c["sessions"] and not (later and daemon_of(c)))
        closed_daemons = set()
        st = {"arrived": 0, "go": False, "parked": 0, "closed": False}
        calls = []          # every attempted call
        conns = []          # every connection: {"conn","ci","si","reconnect","ended","leak" (serials alive after the end)}
        problems = []       # things outside the property that wrecked the scenario
        parked_clients = {}
        conn_daemon = {}    # connection number -> number of the daemon that accepted it

        def arrive():
            st["arrived"] += 1
            if not sched.block(lambda: st["go"], 600.0, "barrier"):
                problems.append("barrier never opened")

        def wait_server_idle(conn, pending_notes):
            """the client has ended the connection: wait until the server has closed its end too (a busy multiplex thread, a slow
            constructor or a stall can delay that), the one-way calls sent on this connection have been executed, and the server
            threads have run until they block (the virtual clock moved) with nobody serving an injected stall."""
            ssock = net.conns[conn][1]
            sched.block(lambda: ssock.closed, 120.0, "server-close")
            if pending_notes:
                done = lambda: all(any(x["tok"] == tk for x in run.execs) for tk in pending_notes)  # noqa: E731
                sched.block(done, 2.0 + 2.5 * maxwork * len(pending_notes), "oneway-work")
            sched.sleep(0.5)
            for _ in range(40):
                if not sched.any_stalled():
                    break
                sched.sleep(1.0)
            self._forget_finished_oneway_threads(sched)

        def one_call(p, crec, so, c, tok, phase):
            """one call on the connection; False if the connection broke"""
            o = eff(c["o"])
            conn = crec["conn"]
            kind = c.get("k", "who")
            rec = {"conn": conn, "d": crec["d"], "key": o["key"], "tok": tok, "foreign": o is not so, "kind": kind, "phase": phase, "inv": sched.stamp()}
            try:
                if kind == "unknown":
                    p._pyroInvoke("who", [tok], {}, objectId="no-such-object")
                    rec["out"] = ("ok", None)       # (never: the daemon knows no such object)
                elif kind == "note":
                    if o is so:
                        p.note(tok)
                    else:
                        p._pyroInvoke("note", [tok], {}, flags=PR.FLAGS_ONEWAY, objectId=o["oid"])
                    rec["out"] = ("sent",)
                    crec["notes"].append(tok)
                else:
                    if o is so:
                        r = p.who(tok)
                    else:
                        r = p._pyroInvoke("who", [tok], {}, objectId=o["oid"])    # another object over the same connection
                    rec["out"] = ("ok", r)
            except E.CommunicationError as x:
                rec["out"] = ("comm", type(x).__name__, str(x)[:160])
            except Exception as x:  # noqa - error replies of the daemon
                rec["out"] = ("err", type(x).__name__, str(x)[:160])
            rec["ret"] = sched.stamp()
            rec["seq"] = p._pyroSeq
            calls.append(rec)
            sched.ev("call", tok, rec["out"][0], rec["out"][1] if rec["out"][0] in ("comm", "err") else repr(rec["out"][1:]))
            if rec["out"][0] == "comm":
                return False
            if c.get("pause"):
                sched.sleep(c["pause"])
            return True

        def client(ci, cspec):
            try:
                client_body(ci, cspec)
            finally:
                if closing and not parked_clients.get(ci):
                    parked_clients[ci] = True
                    st["parked"] += 1          # (no connection of this client survives: nothing to wait for)

        def client_body(ci, cspec):
            if not race and cspec.get("start"):
                sched.sleep(cspec["start"])
            prev = None
            d = daemon_of(cspec)
            at_barrier = race and not (later and d)
            for si, sess in enumerate(cspec["sessions"]):
                so = eff(sess["o"])
                if sess.get("reuse") and prev is not None and prev[1] is so:
                    p = prev[0]                     # the same proxy connects again
                else:
                    p = CL.Proxy(uris[d][so["k"]])
                p._pyroTimeout = None               # (a proxy's timeout defaults to COMMTIMEOUT: constructors may take longer than that)
                try:
                    p._pyroBind()
                except Exception as x:  # noqa - cannot happen with 8 workers and <= 4 clients
                    problems.append("connect failed: %s: %s" % (type(x).__name__, str(x)[:100]))
                    if at_barrier:
                        at_barrier = False
                        arrive()
                    continue
                conn = p._pyroConnection.sock.conn
                crec = {"conn": conn, "d": d, "ci": ci, "si": si, "reconnect": si > 0, "ended": False, "leak": None, "notes": []}
                conn_daemon[conn] = d
                conns.append(crec)
                if at_barrier:
                    at_barrier = False
                    arrive()
                broken = False
                for j, c in enumerate(sess["calls"]):
                    if not one_call(p, crec, so, c, "c%ds%dj%d" % (ci, si, j), "main"):
                        broken = True
                        break
                if closing and si == len(cspec["sessions"]) - 1:
                    # this connection stays open while the daemon is shut down / closed, and is used again afterwards
                    st["parked"] += 1
                    parked_clients[ci] = True
                    sched.block(lambda: st["closed"], 900.0, "parked")
                    crec["survivor"] = True
                    if not broken:
                        for j, c in enumerate(cspec.get("after") or ()):
                            if not one_call(p, crec, so, c, "c%da%d" % (ci, j), "after-close"):
                                break
                try:
                    if sess.get("abort") and p._pyroConnection is not None:
                        p._pyroConnection.sock.rst()        # the client dies: the server sees a connection reset instead of EOF
                        crec["aborted"] = True
                    p._pyroRelease()
                except Exception as x:  # noqa
                    problems.append("release failed: %s" % type(x).__name__)
                wait_server_idle(conn, crec["notes"])
                mine = [m for m in run.made if m["conn"] == conn and m["mode"] == "session"]
                left = _alive(mine)
                if left:
                    gc.collect()
                    left = _alive(mine)
                crec["ended"] = True
                crec["leak"] = left
                crec["checked"] = len(mine)
                crec["checked_slots"] = sum(1 for m in mine if m["ref"] is None)
                crec["others_open"] = sum(1 for x in conns if not x["ended"])
                sched.ev("ended", conn, len(mine), tuple(left))
                prev = (p, so)

        alias_log = []      # (class key, stamp when the alias id had been withdrawn again)

        def do_alias(n, a):
            e = eff(a["o"])
            aid = "alias%d" % n
            try:
                daemon.register(e["cls"], aid, force=True)
                if a.get("hold"):
                    sched.sleep(a["hold"])
                daemon.unregister(e["cls"] if a.get("by") == "class" else aid)
            except Exception as x:  # noqa
                problems.append("alias registration failed: %s: %s" % (type(x).__name__, str(x)[:100]))
                return
            alias_log.append((e["key"], sched.stamp()))
            sched.ev("alias", e["key"], aid, a.get("by"))

        aliases = sorted(enumerate(plan.get("alias") or ()), key=lambda na: (na[1].get("at") or 0, na[0]))
        later_aliases = []
        for n, a in aliases:
            if a.get("at"):
                later_aliases.append((n, a))
            else:
                do_alias(n, a)          # before any client connects

        def aliaser():
            t0 = sched.now
            for n, a in later_aliases:
                dt = t0 + a["at"] - sched.now
                if dt > 0:
                    sched.sleep(dt)
                do_alias(n, a)

        alias_thread = None
        if later_aliases:
            alias_thread = threading.Thread(target=aliaser, name="bg-alias")
            alias_thread.start()
        ths = [threading.Thread(target=client, args=(i, c), name="client%d" % i) for i, c in enumerate(plan["clients"])]
        phase2 = [t for t, c in zip(ths, plan["clients"]) if later and daemon_of(c)]
        phase1 = [t for t in ths if t not in phase2]
        for t in phase1:
            t.start()
        if race:
            sched.block(lambda: st["arrived"] >= expected, 600.0, "all-connected")
        st["go"] = True
        if closing:
            # every client has finished but keeps its last connection open: stop the daemon, then let them call again
            sched.block(lambda: st["parked"] >= len(phase1), 600.0, "all-parked")
            try:
                if closing == "close":
                    daemon.close()
                else:
                    daemon.shutdown()
            except Exception as x:  # noqa
                problems.append("daemon.%s() raised %s: %s" % (closing, type(x).__name__, str(x)[:100]))
            sched.ev("daemon-closed", closing)
            ctx.probe("daemon_closed_with_open_connections")
            st["closed"] = True
            closed_daemons.add(0)
        for t in phase1:
            t.join(600.0)
        if later and all(sched.sim_thread_of(t).state == "done" for t in phase1):
            # the first daemon has done its work and is shut down; a new daemon serves the same classes afterwards
            try:
                daemon.shutdown()
            except Exception as x:  # noqa
                problems.append("daemon.shutdown() raised %s: %s" % (type(x).__name__, str(x)[:100]))
            closed_daemons.add(0)
            sched.ev("daemon-1-shut-down")
            start_daemon(second["servertype"])
            ctx.probe("second_daemon_after_first_was_shut_down")
            for t in phase2:
                t.start()
            for t in phase2:
                t.join(600.0)
        elif later:
            ths = phase1
        for t in ths:
            stt = sched.sim_thread_of(t)
            if stt.died:
                raise S.HarnessError("client thread died: %r" % (stt.died,))
        dead_loop = next((sv for n, sv in enumerate(servers) if n not in closed_daemons and not sv.loop_alive()), None)
        if any(sched.sim_thread_of(t).state != "done" for t in ths):
            if dead_loop is not None:
                ctx.disturbed = "daemon loop died: %r" % (dead_loop.loop_death(),)
            elif any(c["action"] != "ok" for c in run.creator_log):
                # no method of the workload blocks: after a failed creation every later call must still be answered
                ctx.violate("creator-failure-not-isolated", "hang", "after an instance creator failure a client got no reply to a call "
                            "within 600 virtual seconds (%d calls answered)" % len(calls))
            else:
                ctx.disturbed = "a client hung"
            return
        if alias_thread is not None:
            alias_thread.join(60.0)
            at_ = sched.sim_thread_of(alias_thread)
            if at_.died:
                raise S.HarnessError("alias thread died: %r" % (at_.died,))
        sched.sleep(1.0)
        for _ in range(30):
            sched.quiesce()
            if not self._oneway_threads_running(sched):
                break
            sched.sleep(1.0)
        self._forget_finished_oneway_threads(sched)
        dead_loop = next((sv for n, sv in enumerate(servers) if n not in closed_daemons and not sv.loop_alive()), None)
        if dead_loop is not None:
            ctx.disturbed = "daemon loop died: %r" % (dead_loop.loop_death(),)
            return
        if problems:
            ctx.disturbed = problems[0]
            return
        if run.lock_contended:
            ctx.probe("concurrent_first_calls_overlapped")
            if commtimeout and plan["servertype"] == "thread" and any(e["mode"] == "single" and e["work"] > commtimeout for e in objs):
                ctx.probe("single_creation_longer_than_commtimeout_contended")
        if sched.preempts:
            ctx.probe("preempted_in_getInstance")
        if sched.stalls:
            ctx.probe("stalled_in_getInstance")
        if len(servers) > 1:
            ctx.probe("two_daemons")
            ctx.probe(servers[1].servertype)
        for m in run.made:
            m["d"] = conn_daemon.get(m["conn"])
        if alias_log:
            ctx.probe("alias_registered_and_withdrawn")
        self._judge(ctx, plan, run, by_key, calls, conns, alias_log)

    # ------------------------------------------------------------------ oracle
    def _judge(self, ctx, plan, run, by_key, calls, conns, alias_log=()):
        made_by_serial = {m["serial"]: m for m in run.made}

        def in_call(log, rec):
            """log entries written while serving this request (same connection, same message sequence number)"""
            return [x for x in log if x["conn"] == rec["conn"] and x["seq"] == rec["seq"]]

        def skey(e):
            return "falsy" if e["shape"] in FALSY else "other"

        # ---- every call on its own
        bad_keys = set()            # classes whose successful replies cannot be used for the mode rules
        failed_before = set()       # class keys on which a creator failure already happened
        first_of_conn = {}
        for rec in calls:
            first_of_conn.setdefault(rec["conn"], rec)
        for rec in calls:
            e = by_key[rec["key"]]
            out = rec["out"]
            if rec["kind"] == "unknown":
                # a request for an object id that the daemon does not know: the error reply is expected (DaemonError), and it
                # must not change anything else - which the rules below check on the other calls of the connection
                if out[0] == "err":
                    ctx.probe("unknown_object_call")
                elif out[0] == "ok":
                    ctx.disturbed = "a call on an unknown object id was answered: %r" % (out,)     # not this property
                    return
                continue
            acts = [c for c in in_call(run.creator_log, rec) if c["key"] == rec["key"]]
            failing = [c["action"] for c in acts if c["action"] != "ok"]
            what = "%s %s on %s (connection %d)" % ("one-way call" if rec["kind"] == "note" else "call", rec["tok"], rec["key"], rec["conn"])
            if acts:
                ctx.probe("creator_used")
            if any(a in RAISES for a in failing):
                ctx.probe("creator_failed")
            if "raise_te" in failing:
                ctx.probe("creator_failed_typeerror")
            if "none" in failing or "impostor" in failing:
                ctx.probe("creator_wrong_type")
            if len(acts) > 1:
                ctx.violate("creator-call-count", "per-request", "%s: the instance creator was called %d times while serving this one request (%s)"
                            % (what, len(acts), [c["action"] for c in acts]))
            served = None           # serial of the instance that executed the call
            if out[0] == "ok":
                r = out[1]
                if not (isinstance(r, (list, tuple)) and len(r) == 2 and r[1] == rec["tok"] and isinstance(r[0], int)):
                    ctx.disturbed = "%s returned %r" % (what, r)       # a foreign reply: not this property
                    return
                served = r[0]
            elif out[0] == "sent":
                ex = [x for x in run.execs if x["tok"] == rec["tok"]]
                if len(ex) > 1:
                    ctx.disturbed = "%s was executed %d times" % (what, len(ex))      # not this property
                    return
                if ex:
                    served = ex[0]["serial"]
                    rec["exec_stamp"] = ex[0]["stamp"]
            if served is not None:
                m = made_by_serial.get(served)
                if m is None:
                    raise S.HarnessError("%s was served by unknown instance %r" % (what, served))
                rec["serial"] = served
                if m["d"] is not None and m["d"] != rec["d"]:
                    ctx.violate("instance-shared-between-daemons", e["mode"], "%s on daemon %d was served by instance %d, which was created by daemon %d"
                                % (what, rec["d"], served, m["d"]))
                if m["key"] == "Impostor":
                    ctx.violate("wrong-type-accepted", "", "%s was served by the object of a foreign class that the instance creator returned" % what)
                    bad_keys.add(rec["key"])
                    continue
                if m["key"] != rec["key"]:
                    ctx.violate("served-by-foreign-class", "", "%s was served by instance %d of class %s" % (what, served, m["key"]))
                    bad_keys.add(rec["key"])
                    continue
                if failing:
                    if any(a in RAISES for a in failing):
                        ctx.violate("creator-failure-not-isolated", "not-reported",
                                    "%s succeeded although the instance creator raised while it was served" % what)
                    else:
                        ctx.violate("wrong-type-accepted", "", "%s succeeded although the instance creator returned a wrong object (%s)" % (what, failing))
                if e["shape"] in FALSY:
                    ctx.probe("falsy_shape")
                if e["shape"] in EQ:
                    ctx.probe("eq_shape")
                if e["shape"] in ("unhashable", "hashraises"):
                    ctx.probe("unhashable_shape")
                if e["shape"] in SLOTS:
                    ctx.probe("slots_shape")
                if rec["key"] in run.sub and m["in_creator"]:
                    ctx.probe("served_by_subclass_instance")
                    if e["mode"] == "session":
                        ctx.probe("session_served_by_subclass_instance")
                ctx.probe(e["mode"])
                if rec["foreign"]:
                    ctx.probe("multi_class_connection")
                if rec["phase"] == "after-close":
                    ctx.probe("served_after_daemon_close")
                    if e["mode"] == "single":
                        ctx.probe("single_served_after_daemon_close")
                if rec["kind"] == "note":
                    ctx.probe("oneway_served")
                    if first_of_conn[rec["conn"]] is rec:
                        ctx.probe("oneway_first_call")
                        nxt = next((r for r in calls if r["conn"] == rec["conn"] and r is not rec), None)
                        if nxt is not None and nxt["kind"] == "who" and nxt["key"] == rec["key"] and e["work"] > 0 and e["mode"] == "session":
                            ctx.probe("oneway_first_then_call_slow_session")
            elif out[0] == "sent":
                pass        # not executed (creator failed / request lost with a reset connection): nothing to judge here
            elif rec["phase"] == "after-close" and out[0] == "comm":
                ctx.probe("connection_lost_after_daemon_close")     # allowed: only answered calls are judged after the daemon was closed
            elif out[0] == "err":
                if not failing:
                    if rec["key"] in failed_before:
                        ctx.violate("creator-failure-not-isolated", "spread", "%s got the error reply %s: %s although the creator did not fail "
                                    "during this call (it failed during an earlier one)" % (what, out[1], out[2]))
                    else:
                        ctx.violate("unexpected-error-reply", out[1], "%s got the error reply %s: %s" % (what, out[1], out[2]))
            else:
                if failing or rec["key"] in failed_before:
                    ctx.violate("creator-failure-not-isolated", "connection-lost", "%s lost its connection (%s: %s) after an instance creator failure"
                                % (what, out[1], out[2]))
                else:
                    ctx.violate("unexpected-error-reply", "connection-lost", "%s lost its connection: %s: %s" % (what, out[1], out[2]))
            if failing:
                failed_before.add(rec["key"])

        # (probe: the whole recipe - stale alias, connection has its session instance, unknown-object request, another call)
        for u in calls:
            if u["kind"] == "unknown" and u["out"][0] == "err":
                for key, stamp in alias_log:
                    if by_key[key]["mode"] == "session" and stamp < u["inv"] and \
                            any(r["conn"] == u["conn"] and r["key"] == key and "serial" in r and r["ret"] < u["inv"] for r in calls) and \
                            any(r["conn"] == u["conn"] and r["key"] == key and "serial" in r and r["inv"] > u["ret"] for r in calls):
                        ctx.probe("session_call_after_unknown_object_with_stale_alias")

        # ---- creator: every instance of a class with a creator was made by the creator
        for m in run.made:
            e = by_key.get(m["key"])
            if e is not None and e["script"] is not None and not m["in_creator"]:
                ctx.violate("creator-call-count", "bypassed", "instance %d of %s was constructed without calling its instance creator" % (m["serial"], m["key"]))

        # ---- the instance mode rules, per class ("served" = answered normal calls and executed one-way calls)
        ok_conns = set()
        all_calls = calls
        daemons = sorted({r["d"] for r in all_calls})
        served_on = {}
        for key, e, d in [(key, e, d) for key, e in by_key.items() for d in daemons]:
            # the rules hold per daemon: every daemon has its own 'single' instance, its own connections
            calls = [r for r in all_calls if r["d"] == d]
            oks = [r for r in calls if r["key"] == key and "serial" in r]
            for r in oks:
                ok_conns.add(r["conn"])
            if oks:
                served_on.setdefault(key, set()).add(d)
            if key in bad_keys:
                continue
            made = [m for m in run.made if m["key"] == key and m["d"] == d]
            if len(daemons) > 1:
                key = "%s on daemon %d" % (key, d)      # (only used in messages from here on)
            if e["work"] and made:
                ctx.probe("slow_constructor")
            if e["mode"] == "single":
                serials = sorted({r["serial"] for r in oks})
                if e["shape"] in FALSY:
                    k = "falsy"
                else:
                    # "race": two of the instances were constructed while serving requests that overlapped in time
                    spans = [(r["inv"], max(r["ret"], m["end"] or m["stamp"])) for m in made for r in calls
                             if r["conn"] == m["conn"] and r["seq"] == m["seq"]]
                    k = "race" if any(a[0] < b[1] and b[0] < a[1] for i, a in enumerate(spans) for b in spans[i + 1:]) else "sequential"
                if len(serials) > 1:
                    ctx.violate("single-multiple-instances", k, "calls on the 'single' class %s were served by instances %s (%d constructed, %d calls on %d connections)"
                                % (key, serials, len(made), len(oks), len({r["conn"] for r in oks})))
                elif len(made) > 1:
                    ctx.violate("single-multiple-instances", k, "%d instances of the 'single' class %s were constructed (serials %s)"
                                % (len(made), key, [m["serial"] for m in made]))
            elif e["mode"] == "session":
                per_conn = {}
                for r in oks:
                    per_conn.setdefault(r["conn"], []).append(r["serial"])
                recreated = False
                for conn in sorted(per_conn):
                    ss = per_conn[conn]
                    if len(set(ss)) > 1:
                        recreated = True
                        ctx.violate("session-instance-recreated", skey(e), "connection %d was served by instances %s of the 'session' class %s in successive calls"
                                    % (conn, ss, key))
                owner = {}
                for conn in sorted(per_conn):
                    for s_ in set(per_conn[conn]):
                        if s_ in owner and owner[s_] != conn:
                            ctx.violate("session-instance-shared", "", "instance %d of the 'session' class %s served connections %d and %d"
                                        % (s_, key, owner[s_], conn))
                        owner.setdefault(s_, conn)
                for m in made:
                    seen_on = owner.get(m["serial"])
                    if seen_on is not None and seen_on != m["conn"]:
                        ctx.violate("session-instance-shared", "", "instance %d of %s was created for connection %s but served connection %d"
                                    % (m["serial"], key, m["conn"], seen_on))
                made_per_conn = {}
                for m in made:
                    made_per_conn.setdefault(m["conn"], []).append(m["serial"])
                if not recreated:
                    for conn in sorted(made_per_conn, key=str):
                        if len(made_per_conn[conn]) > 1:
                            ctx.violate("session-construction-count", skey(e), "%d instances (%s) of the 'session' class %s were constructed for connection %s"
                                        % (len(made_per_conn[conn]), made_per_conn[conn], key, conn))
                            recreated = True
                if not recreated and len(made) != len(per_conn):
                    # (a construction whose one-way request was never executed is possible only with a lost / failed request)
                    unserved = {m["conn"] for m in made} - set(per_conn)
                    lost = {r["conn"] for r in calls if r["key"] == key and r["out"][0] == "sent" and "serial" not in r}
                    if len(made) < len(per_conn) or not unserved <= lost:
                        ctx.violate("session-construction-count", skey(e), "%d instances of the 'session' class %s were constructed for %d connections that were served"
                                    % (len(made), key, len(per_conn)))
            else:
                serials = [r["serial"] for r in oks]
                lost = sum(1 for r in calls if r["key"] == key and r["out"][0] == "sent" and "serial" not in r)
                if len(set(serials)) != len(serials):
                    ctx.violate("percall-instance-reused", "", "calls on the 'percall' class %s were served by instances %s" % (key, serials))
                elif not (len(oks) <= len(made) <= len(oks) + lost):
                    ctx.violate("percall-construction-count", "", "%d instances of the 'percall' class %s were constructed for %d served calls"
                                % (len(made), key, len(oks)))

        calls = all_calls
        if any(by_key[k]["mode"] == "single" and len(ds) > 1 for k, ds in served_on.items()):
            ctx.probe("single_class_served_by_two_daemons")
        # ---- session instances are dropped when their connection ends
        last_of_conn = {}
        for rec in calls:
            last_of_conn[rec["conn"]] = rec
        for c in conns:
            if not c["ended"]:
                continue
            if c["leak"]:
                ctx.violate("session-instance-leaked", "", "session instance(s) %s of connection %d still exist after the connection ended (%d other connection(s) open)"
                            % (c["leak"], c["conn"], c["others_open"]))
            elif c.get("checked"):
                ctx.probe("session_dropped_verified")
                if c["others_open"]:
                    ctx.probe("session_dropped_while_others_connected")
                if c.get("aborted"):
                    ctx.probe("session_dropped_after_reset")
                if (c["conn"], True) in run.hook_calls:
                    ctx.probe("session_dropped_although_disconnect_hook_raised")
                if c.get("survivor"):
                    ctx.probe("session_dropped_after_daemon_close")
                if c.get("checked_slots"):
                    ctx.probe("slots_session_dropped_verified")
                lr = last_of_conn.get(c["conn"])
                if lr is not None and lr["kind"] == "note" and "serial" in lr and by_key[lr["key"]]["mode"] == "session":
                    ctx.probe("session_dropped_after_oneway_then_disconnect")
            if c["reconnect"] and c["conn"] in ok_conns:
                ctx.probe("reconnect")
        sess = [m for m in run.made if m["mode"] == "session"]
        left = _alive(sess)
        if left:
            gc.collect()
            left = _alive(sess)
        reported = {s_ for c in conns for s_ in (c["leak"] or ())}
        left = [s_ for s_ in left if s_ not in reported]
        if left:
            ctx.violate("session-instance-leaked", "", "session instance(s) %s still exist after all connections ended and the server went idle" % left)
        ctx.nontrivial = len(ok_conns) >= 2
        ctx.info = {"calls": len(calls), "connections": len(conns), "constructed": len(run.made), "creator_calls": len(run.creator_log),
                    "oneway_executed": len(run.execs), "lock_contended": run.lock_contended}


WORLD = InstWorld()
