"""Install / remove every seam between Pyro5 and the simulator; reset global state between runs."""
import os
import sys
import gc
import logging
import random
import threading
import uuid as _uuid
import time as _time
import socket as _socket
import selectors as _selectors
import warnings

REPO = os.environ.get("VERIF_REPO", "/repo")
if sys.path[0] != REPO:
    sys.path.insert(0, REPO)

import Pyro5  # noqa: E402
import Pyro5.api  # noqa: E402,F401
import Pyro5.server as SV  # noqa: E402
import Pyro5.svr_threads as ST  # noqa: E402
import Pyro5.svr_multiplex as SM  # noqa: E402
import Pyro5.socketutil as SU  # noqa: E402
import Pyro5.client as CL  # noqa: E402
import Pyro5.nameserver as NS  # noqa: E402
import Pyro5.protocol as PR  # noqa: E402
from Pyro5 import config  # noqa: E402
from Pyro5.callcontext import current_context  # noqa: E402

from . import sched as S  # noqa: E402
from . import net as N  # noqa: E402
from . import marshalguard  # noqa: E402


class SeamEscape(Exception):
    """Pyro5 reached a real source of nondeterminism from a simulated thread"""


class SeamMissing(Exception):
    pass


assert os.path.realpath(Pyro5.__file__).startswith(os.path.realpath(REPO)), \
    "Pyro5 imported from %s, expected %s" % (Pyro5.__file__, REPO)

_TIME_MODS = (SV, ST, SM, SU, CL, NS)
_THREADING_MODS = (SV, ST, NS)
_SELECTOR_MODS = (ST, SM)


def check_inventory():
    """the module attributes we patch must exist and be the stdlib modules"""
    for m in _TIME_MODS:
        if getattr(m, "time", None) is not _time:
            raise SeamMissing("%s.time is not the time module" % m.__name__)
    for m in _THREADING_MODS:
        if getattr(m, "threading", None) is not threading:
            raise SeamMissing("%s.threading is not the threading module" % m.__name__)
    for m in _SELECTOR_MODS:
        if getattr(m, "selectors", None) is not _selectors:
            raise SeamMissing("%s.selectors is not the selectors module" % m.__name__)
    if getattr(SV, "uuid", None) is not _uuid:
        raise SeamMissing("Pyro5.server.uuid is not the uuid module")
    if not callable(getattr(SU, "create_socket", None)):
        raise SeamMissing("socketutil.create_socket missing")
    if not hasattr(ST, "_client_disconnect_lock"):
        raise SeamMissing("svr_threads._client_disconnect_lock missing")


check_inventory()


class UUIDFacade:
    def __init__(self, rng):
        self._rng = rng
        self.UUID = _uuid.UUID

    def uuid4(self):
        return _uuid.UUID(int=self._rng.getrandbits(128), version=4)

    def __getattr__(self, n):
        return getattr(_uuid, n)


class _NoSleep:
    time = staticmethod(_time.time)
    monotonic = staticmethod(_time.monotonic)

    @staticmethod
    def sleep(d):
        pass


_NOSLEEP = _NoSleep()
_saved = None
_real_sleep = _time.sleep
_real_gc_enable = gc.enable
_real_sock_init = _socket.socket.__init__
_real_default_selector = _selectors.DefaultSelector
_real_get_exposed_members = SV._get_exposed_members
_real_worker_init = ST.Worker.__init__
_real_worker_hash = ST.Worker.__hash__
_real_create_socket = SU.create_socket
_real_cd_lock = ST._client_disconnect_lock
_real_waitall = SU.USE_MSG_WAITALL
_CONFIG_DEFAULTS = None


_LOCK_TYPES = (type(threading.Lock()), type(threading.RLock()))
_SYNC_TYPES = _LOCK_TYPES + (threading.Condition, threading.Event, threading.Semaphore)
_PYRO_MODS = None
_swept = []      # (kind, container, key, original)
_patched = []    # (module, attribute, original)


def _pyro_modules():
    return [m for n, m in sorted(sys.modules.items()) if (n == "Pyro5" or n.startswith("Pyro5.")) and m is not None]


def _sweep_real_locks(sched):
    """A real lock created when a Pyro5 module is imported or a class/decorator is defined (module global, class
    attribute, closure cell, default argument) would be held for real across a simulated pre-emption and deadlock the
    baton. Replace every such lock reachable from the Pyro5 modules by a simulated one for the duration of the run."""
    def sim_for(v):
        if isinstance(v, _LOCK_TYPES):
            return S.SimLock(sched, reentrant=isinstance(v, _LOCK_TYPES[1]))
        if isinstance(v, threading.Condition):
            return S.SimCondition(sched)
        if isinstance(v, threading.Event):
            e = S.SimEvent(sched)
            e._flag = v.is_set()
            return e
        if isinstance(v, threading.Semaphore):
            return S.SimSemaphore(sched, v._value, isinstance(v, threading.BoundedSemaphore))
        return None

    seen = set()

    def visit_func(fn):
        if id(fn) in seen:
            return
        seen.add(id(fn))
        for cell in (getattr(fn, "__closure__", None) or ()):
            try:
                v = cell.cell_contents
            except ValueError:
                continue
            if isinstance(v, _SYNC_TYPES):
                _swept.append(("cell", cell, None, v))
                cell.cell_contents = sim_for(v)
            elif callable(v) and hasattr(v, "__code__"):
                visit_func(v)
        w = getattr(fn, "__wrapped__", None)
        if w is not None and hasattr(w, "__code__"):
            visit_func(w)

    for m in _pyro_modules():
        for name, v in list(vars(m).items()):
            if isinstance(v, _SYNC_TYPES):
                _swept.append(("attr", m, name, v))
                setattr(m, name, sim_for(v))
            elif isinstance(v, type) and getattr(v, "__module__", "").startswith("Pyro5"):
                for an, av in list(vars(v).items()):
                    if isinstance(av, _SYNC_TYPES):
                        _swept.append(("attr", v, an, av))
                        setattr(v, an, sim_for(av))
                    f = getattr(av, "__func__", av)
                    if isinstance(av, property):
                        for g in (av.fget, av.fset, av.fdel):
                            if g is not None:
                                visit_func(g)
                    elif hasattr(f, "__code__"):
                        visit_func(f)
            elif hasattr(v, "__code__") and getattr(v, "__module__", "").startswith("Pyro5"):
                visit_func(v)


def _unsweep_real_locks():
    while _swept:
        kind, cont, key, orig = _swept.pop()
        if kind == "cell":
            cont.cell_contents = orig
        else:
            setattr(cont, key, orig)


def install(sched, net, uuid_seed=0, line_codes=()):
    global _saved
    assert _saved is None, "seams already installed"
    _saved = True
    _sweep_real_locks(sched)
    tf = S.ThreadingFacade(sched)
    tm = S.TimeFacade(sched)
    sel = N.SelectorsFacade(net)
    # every Pyro5 module attribute that is the time / threading / selectors module, or one of their blocking primitives
    # imported by name, is replaced (found dynamically: a changed tree may import them in other modules than today's)
    import queue as _queue
    import select as _select
    qf = S.QueueFacade(sched)
    by_identity = [(threading, tf), (_time, tm), (_selectors, sel), (_select, N.SelectFacade(net)), (_queue, qf), (_queue.Queue, qf.Queue),
                   (_queue.SimpleQueue, qf.SimpleQueue), (_queue.LifoQueue, qf.LifoQueue), (_queue.PriorityQueue, qf.PriorityQueue),
                   (threading.Lock, tf.Lock), (threading.RLock, tf.RLock), (threading.Event, tf.Event),
                   (threading.Condition, tf.Condition), (threading.Semaphore, tf.Semaphore),
                   (threading.BoundedSemaphore, tf.BoundedSemaphore), (threading.Timer, tf.Timer),
                   (_real_sleep, tm.sleep), (_time.time, tm.time), (_time.monotonic, tm.monotonic),
                   (_time.perf_counter, tm.perf_counter)]
    for m in _pyro_modules():
        for name, v in list(vars(m).items()):
            for real, sim in by_identity:
                if v is real:
                    _patched.append((m, name, v))
                    setattr(m, name, sim)
                    break
    SV.uuid = UUIDFacade(random.Random(uuid_seed))
    SU.create_socket = N.make_create_socket(net)
    ST._client_disconnect_lock = S.SimLock(sched)
    widx = [0]

    def winit(self, pool):
        self._sidx = widx[0]
        widx[0] += 1
        _real_worker_init(self, pool)
        self.name = "Worker"

    ST.Worker.__init__ = winit
    ST.Worker.__hash__ = lambda self: self._sidx

    # string-hash order: the exposed-member metadata are sets of strings; json/marshal/msgpack write them in iteration
    # order, so with compression the handshake reply's LENGTH would depend on PYTHONHASHSEED. Hand out sorted lists.
    def members(obj, only_exposed=True):
        r = _real_get_exposed_members(obj, only_exposed)
        return {k: sorted(v) for k, v in r.items()}

    SV._get_exposed_members = members

    # tripwires
    def sleep(d):
        if sched.in_sim():
            raise SeamEscape("real time.sleep(%r) from a simulated thread" % (d,))
        return _real_sleep(d)

    def sock_init(self, *a, **k):
        if sched.in_sim():
            raise SeamEscape("real socket.socket() from a simulated thread")
        return _real_sock_init(self, *a, **k)

    def default_selector(*a, **k):
        if sched.in_sim():
            raise SeamEscape("real selectors.DefaultSelector() from a simulated thread")
        return _real_default_selector(*a, **k)

    # serpent.dumps()/loads() end with gc.enable(): from the first serpent message on the cyclic collector would run again inside the
    # run, at moments that depend on the allocation count (i.e. on earlier runs of the worker process), and finalizers
    # (__del__ of a stream iterator closes through a temporary proxy!) would run in whichever thread happens to allocate.
    # During a run only explicit gc.collect() calls collect.
    gc.enable = _gc_enable_ignored
    marshalguard.install()      # allocation seam: absurd container sizes in marshal data fail to allocate (and are recorded)
    _time.sleep = sleep
    _socket.socket.__init__ = sock_init
    _selectors.DefaultSelector = default_selector
    S.install(sched, line_codes)
    return tf, tm


def _gc_enable_ignored():
    pass


def uninstall():
    global _saved
    gc.enable = _real_gc_enable
    S.uninstall()
    marshalguard.uninstall()
    while _patched:
        m, name, v = _patched.pop()
        setattr(m, name, v)
    SV.uuid = _uuid
    SV._get_exposed_members = _real_get_exposed_members
    SU.create_socket = _real_create_socket
    SU.USE_MSG_WAITALL = _real_waitall
    _unsweep_real_locks()
    ST._client_disconnect_lock = _real_cd_lock
    ST.Worker.__init__ = _real_worker_init
    ST.Worker.__hash__ = _real_worker_hash
    _time.sleep = _real_sleep
    _socket.socket.__init__ = _real_sock_init
    _selectors.DefaultSelector = _real_default_selector
    _saved = None


def quiet():
    logging.disable(logging.CRITICAL)
    warnings.simplefilter("ignore")


# ---- import-time state of the Pyro5 modules and classes: restored before every run, so that whatever a (changed) tree keeps in
# module globals, class attributes, registries or caches cannot travel from one run to the next within a worker process - a run
# must be a pure function of its plan, also in a fresh interpreter
_IMPORT_STATE = None
_CONTAINERS = (dict, list, set, bytearray)


def _is_pyro_class(v):
    return isinstance(v, type) and getattr(v, "__module__", "").startswith("Pyro5")


def _snapshot_import_state():
    global _IMPORT_STATE
    st = {"containers": [], "attrs": [], "class_keys": []}
    seen = set()

    def container(c):
        if id(c) in seen:
            return
        seen.add(id(c))
        st["containers"].append((c, type(c)(c)))

    def defaults_of(fn):
        """mutable default arguments are process-global state too (def f(x, annotations={}): annotations.update(...))"""
        f = getattr(fn, "__func__", fn)
        if isinstance(f, property):
            for g in (f.fget, f.fset, f.fdel):
                if g is not None:
                    defaults_of(g)
            return
        for d in (getattr(f, "__defaults__", None) or ()):
            if isinstance(d, _CONTAINERS):
                container(d)
        for d in (getattr(f, "__kwdefaults__", None) or {}).values():
            if isinstance(d, _CONTAINERS):
                container(d)

    for m in _pyro_modules():
        for name, v in list(vars(m).items()):
            if name.startswith("__"):
                continue
            st["attrs"].append((m, name, v))
            if isinstance(v, _CONTAINERS):
                container(v)
            elif hasattr(v, "__code__") and getattr(v, "__module__", "") == m.__name__:
                defaults_of(v)
            elif _is_pyro_class(v) and v.__module__ == m.__name__:
                for av in list(vars(v).values()):
                    defaults_of(av)
                st["class_keys"].append((v, frozenset(vars(v))))
                for an, av in list(vars(v).items()):
                    if an.startswith("__") and an.endswith("__"):
                        continue
                    if isinstance(av, _CONTAINERS):
                        container(av)
                        st["attrs"].append((v, an, av))
                    elif av is None or isinstance(av, (bool, int, float, str, bytes, tuple, frozenset)):
                        st["attrs"].append((v, an, av))
    _IMPORT_STATE = st


def _restore_import_state():
    st = _IMPORT_STATE
    if st is None:
        return
    for c, copy in st["containers"]:
        if c != copy:
            if isinstance(c, dict):
                c.clear()
                c.update(copy)
            elif isinstance(c, set):
                c.clear()
                c.update(copy)
            else:
                c[:] = copy
    for owner, name, v in st["attrs"]:
        try:
            if vars(owner).get(name, _MISSING) is not v:
                setattr(owner, name, v)
        except (AttributeError, TypeError):
            pass
    for cls, keys in st["class_keys"]:
        for extra in [k for k in vars(cls) if k not in keys]:
            try:
                delattr(cls, extra)
            except (AttributeError, TypeError):
                pass
    for m in _pyro_modules():
        for v in list(vars(m).values()):
            cc = getattr(v, "cache_clear", None)
            if callable(cc):
                cc()
            elif _is_pyro_class(v):
                for av in list(vars(v).values()):
                    f = getattr(av, "__func__", av)
                    cc = getattr(f, "cache_clear", None)
                    if callable(cc):
                        cc()


_MISSING = object()


def reset_between_runs():
    """restore the process-global state Pyro5 keeps"""
    if _IMPORT_STATE is None:
        # taken before the first run of this process (inherited by forked workers): by then the world's own modules have been
        # imported too, with whatever they register for good at import time (class <-> dict converters, exposed classes)
        _snapshot_import_state()
    _restore_import_state()
    config.reset(False)
    cache = getattr(SV, "_Daemon__exposed_member_cache", None)
    for name, val in vars(SV).items():
        if name.endswith("__exposed_member_cache") and isinstance(val, dict):
            val.clear()
    del cache
    ctx = current_context
    ctx.client = None
    ctx.client_sock_addr = None
    ctx.seq = 0
    ctx.msg_flags = 0
    ctx.serializer_id = 0
    ctx.annotations = {}
    ctx.response_annotations = {}
    ctx.correlation_id = None
    # daemons of the previous run are collected here: SocketServer_Threadpool.__del__ -> Pool.close() sleeps and joins
    # for real once the seams are gone; give those finalizers a clock that does not wait
    for m in _TIME_MODS:
        m.time = _NOSLEEP
    # (workload generators whose clean-up code fails on purpose are finalised here: unraisable, keep stderr clean)
    hook_was = sys.unraisablehook
    sys.unraisablehook = lambda *a: None
    try:
        gc.collect()
    finally:
        sys.unraisablehook = hook_was
        for m in _TIME_MODS:
            m.time = _time
