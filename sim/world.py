"""Base class of all simulation worlds: one run = one plan = one exactly repeatable execution."""
import gc
import hashlib
import json
import random
import traceback
from collections import Counter

from . import seams
from . import sched as S
from . import net as N


def derive_seed(*parts):
    h = hashlib.sha256(("/".join(str(p) for p in parts)).encode()).digest()
    return int.from_bytes(h[:8], "big")


def plan_digest(plan):
    p = {k: v for k, v in plan.items() if k != "sched"}
    return hashlib.sha256(json.dumps(p, sort_keys=True, default=str).encode()).hexdigest()[:24]


class Ctx:
    def __init__(self, world, plan, sched, net):
        self.world = world
        self.plan = plan
        self.sched = sched
        self.net = net
        self.probes = Counter()
        self.faults = Counter()
        self.violations = []
        self.disturbed = None
        self.nontrivial = False
        self.info = {}

    def violate(self, kind, key="", msg=""):
        self.violations.append({"kind": kind, "key": str(key), "msg": str(msg)[:500]})
        self.sched.ev("VIOLATION", kind, str(key))

    def probe(self, name, n=1):
        self.probes[name] += n

    def fault(self, name, n=1):
        self.faults[name] += n


class World:
    PROPERTY = "C00"
    NAME = "base"
    LEVEL = "exploration"
    REAL = []
    STUB = []
    PROBES = []
    ASSUMPTIONS = []
    RULE = ""
    QUICK_RUNS = 2000
    THOROUGH_RUNS = None          # None: time based
    CHUNK = 100
    MAX_STEPS = 300000
    SHRINK_LISTS = ["ops", "faults"]     # plan keys that hold lists ddmin may thin out
    THREADED = True

    # ---- to be provided by subclasses
    def gen(self, rng, tier):
        raise NotImplementedError

    def line_codes(self, plan):
        return ()

    def scenario(self, ctx):
        raise NotImplementedError

    def simplify(self, plan):
        """optional: yield structurally simpler variants of plan (beyond list thinning)"""
        return ()

    # ---- plan construction
    def make_plan(self, run_seed, tier):
        rng = random.Random(run_seed)
        plan = self.gen(rng, tier)
        plan["seed"] = run_seed
        plan.setdefault("net", {})
        plan["net"].setdefault("seed", run_seed ^ 0x9E3779B9)
        if "sched" not in plan:
            plan["sched"] = {"mode": "random", "seed": run_seed ^ 0x5DEECE66D,
                             "p_line": plan.pop("p_line", 0.0), "p_block": plan.pop("p_block", 0.0),
                             "p_stall": plan.pop("p_stall", 0.0)}
        return plan

    # ---- one run
    def run(self, plan, trace=False):
        seams.reset_between_runs()
        sched = S.Sched(plan["sched"], max_steps=self.MAX_STEPS)
        if trace:
            sched.trace = []
        sched.adopt_main()
        net = N.Net(sched, plan.get("net"))
        ctx = Ctx(self, plan, sched, net)
        harness = None
        gc_was = gc.isenabled()
        gc.disable()
        seams.install(sched, net, uuid_seed=plan.get("seed", 0) ^ 0xABCDEF, line_codes=self.line_codes(plan))
        try:
            try:
                self.scenario(ctx)
            except S.StepCap as e:
                harness = "step-cap: %s" % e
            except S.Deadlock as e:
                harness = "deadlock: %s" % e
            except seams.SeamEscape as e:
                harness = "seam-escape: %s" % e
            except S.HarnessError as e:
                harness = "harness: %s" % e
            except Exception:
                harness = "scenario-exception: " + traceback.format_exc()[-1500:]
        finally:
            leaked = sched.kill_all()
            seams.uninstall()
            if gc_was:
                gc.enable()
        if leaked and harness is None:
            harness = "leaked threads: %s" % leaked
        res = {
            "violations": ctx.violations,
            "disturbed": ctx.disturbed,
            "harness": harness,
            "probes": dict(ctx.probes),
            "faults": dict(ctx.faults),
            "digest": sched.digest(),
            "sched_digest": sched.sched_digest(),
            "steps": sched.steps,
            "switches": sched.switches,
            "preempts": sched.preempts,
            "stalls": sched.stalls,
            "sim_s": sched.now - S.EPOCH,
            "choices": sched.choices,
            "nontrivial": bool(ctx.nontrivial),
            "info": ctx.info,
        }
        if trace:
            res["trace"] = sched.trace
        ctx.sched = ctx.net = None
        return res


def signature(prop, v):
    return "%s/%s/%s" % (prop, v["kind"], v["key"]) if v.get("key") else "%s/%s" % (prop, v["kind"])
