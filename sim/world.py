"""Base class of all simulation worlds: one run = one plan = one exactly repeatable execution."""
import gc
import os
import sys
import hashlib
import json
import random
import traceback
from collections import Counter

from . import seams
from . import sched as S
from . import net as N


CURRENT = {"sched": None, "t0": 0.0, "hits": 0}
BUSY_AFTER_S = 8.0
DEADLOCK_AFTER_S = 90.0       # a run normally takes 5-100 ms of wall time; two looks 8 s apart without any scheduler progress
_monitor = None


def start_monitor():
    """one real daemon thread per process: breaks busy loops of the code under test (no yield point for BUSY_AFTER_S
    wall seconds) by raising BusyLoop asynchronously in the thread that holds the baton"""
    global _monitor
    import os
    if _monitor is not None and _monitor[1] == os.getpid():
        return      # (threads do not survive fork: one monitor per process)
    import ctypes
    import threading
    import time

    real_sleep = seams._real_sleep

    def watch():
        # This thread is the one thing in the process that runs on real time. It must never be the last holder of anything that
        # belongs to a run: a Sched (and through the blocked threads' predicates the run's sockets, proxies and daemons) released
        # HERE would be finalised at a real-time-dependent moment inside a later run, with that run's seams installed (a stream
        # iterator's or a daemon's __del__ then talks to the NEW run's daemon at the same address). Hence: the real sleep is
        # called directly (time.sleep is, during a run, a tripwire closure over that run's scheduler, and its frame would keep the
        # scheduler alive for the whole second), and no local outlives an iteration. Sched.dispose() at the end of a run makes
        # the remaining microsecond window harmless.
        seen = (None, None, None)
        since = time.time()
        sc = cur = None
        while True:
            sc = cur = None
            real_sleep(1.0)
            sc = CURRENT["sched"]
            if sc is None or sc.killing:
                seen = (None, None, None)
                continue
            now = time.time()
            state = (id(sc), sc.steps, sc.line_hits)
            if state != seen:
                seen, since = state, now
            elif now - since > DEADLOCK_AFTER_S:
                # nothing moved for a long time and the busy-loop exception did not help: a thread that holds the baton is
                # blocked in a real primitive the simulator does not own. Nothing can be concluded from this process.
                sys.stderr.write("HARNESS-ERROR pid %d: no scheduler progress for %d s (thread %r blocked outside the "
                                 "simulator?)\n" % (os.getpid(), DEADLOCK_AFTER_S, getattr(sc.cur, "name", None)))
                sys.stderr.flush()
                os._exit(2)
            if now - CURRENT["t0"] < BUSY_AFTER_S:
                continue
            if CURRENT.get("steps") != sc.steps or CURRENT.get("lines") != sc.line_hits:
                # the scheduler made progress since the last look: not a busy loop (just a long run)
                CURRENT["steps"], CURRENT["lines"], CURRENT["t0"] = sc.steps, sc.line_hits, now
                continue
            cur = sc.cur
            if cur is None or cur.real is None or CURRENT["hits"] >= 2:
                continue
            CURRENT["hits"] += 1
            CURRENT["t0"] = now
            # note where it spins now: the code under test may swallow the exception (a `finally` that carries on, an
            # `except BaseException`), the observation must not depend on the thread dying of it
            fr = sys._current_frames().get(cur.real.ident)
            where = None
            while fr is not None and where is None:
                fn = fr.f_code.co_filename
                if "/Pyro5/" in fn:
                    where = "%s:%s" % (fn.rsplit("/", 1)[-1], fr.f_code.co_name)
                fr = fr.f_back
            sc.busy_loops.append((cur.name, where))
            fr = None
            ctypes.pythonapi.PyThreadState_SetAsyncExc(ctypes.c_ulong(cur.real.ident), ctypes.py_object(S.BusyLoop))

    th = threading.Thread(target=watch, name="busy-loop-monitor", daemon=True)
    S._real_start(th)
    _monitor = (th, os.getpid())


def derive_seed(*parts):
    h = hashlib.sha256(("/".join(str(p) for p in parts)).encode()).digest()
    return int.from_bytes(h[:8], "big")


def plan_digest(plan):
    p = {k: v for k, v in plan.items() if k != "sched"}
    return hashlib.sha256(json.dumps(p, sort_keys=True, default=str).encode()).hexdigest()[:24]


class Ctx:
    def __init__(self, world, plan, sched, net):
        self.world = world
        self.plan = plan
        self.sched = sched
        self.net = net
        self.probes = Counter()
        self.faults = Counter()
        self.violations = []
        self.disturbed = None
        self.nontrivial = False
        self.info = {}

    def violate(self, kind, key="", msg=""):
        self.violations.append({"kind": kind, "key": str(key), "msg": str(msg)[:500]})
        self.sched.ev("VIOLATION", kind, str(key))

    def probe(self, name, n=1):
        self.probes[name] += n

    def fault(self, name, n=1):
        self.faults[name] += n


class World:
    PROPERTY = "C00"
    NAME = "base"
    LEVEL = "exploration"
    REAL = []
    STUB = []
    PROBES = []
    ASSUMPTIONS = []
    RULE = ""
    QUICK_RUNS = 2000
    THOROUGH_RUNS = None          # None: time based
    CHUNK = 100
    MAX_STEPS = 300000
    SHRINK_LISTS = ["ops", "faults"]     # plan keys that hold lists ddmin may thin out
    HARNESS_THREAD_PREFIXES = ("client", "peer", "witness", "hostile", "fresh", "closer", "legit", "ns-client", "reader", "bg")
    ALLOC_BOMB_VIOLATION = False         # worlds with hostile peers: a decoder asked to allocate absurdly much is a finding
    THREADED = True

    # ---- to be provided by subclasses
    def gen(self, rng, tier):
        raise NotImplementedError

    def line_codes(self, plan):
        return ()

    SLOW_STEP_THREADS = ()                    # thread-name prefixes whose CPU-heavy steps (sched.slow_steps) are violations
    SWARM_CONFIG = (("LOGWIRE", 0.12),)       # (config item, probability of switching it on) for every world

    def scenario(self, ctx):
        raise NotImplementedError

    def simplify(self, plan):
        """optional: yield structurally simpler variants of plan (beyond list thinning)"""
        return ()

    # ---- plan construction
    def make_plan(self, run_seed, tier):
        rng = random.Random(run_seed)
        plan = self.gen(rng, tier)
        plan["seed"] = run_seed
        # swarm-style configuration: unusual but legal settings that no oracle depends on, from a random stream of their own
        # (so that gen()'s draws stay what they were); applied in run() before the scenario sets its own items
        crng = random.Random(run_seed ^ 0xC0F1C0F1)
        cfg = dict(plan.get("pyro_config") or {})
        for item, p_on in self.SWARM_CONFIG:
            if crng.random() < p_on:
                cfg.setdefault(item, True)
        if cfg:
            plan["pyro_config"] = cfg
        if crng.random() < 0.08:
            plan["debuglog"] = True     # the application runs with Pyro's logging at DEBUG (into a handler that discards)
        plan.setdefault("net", {})
        plan["net"].setdefault("seed", run_seed ^ 0x9E3779B9)
        if "sched" not in plan:
            plan["sched"] = {"mode": "random", "seed": run_seed ^ 0x5DEECE66D,
                             "p_line": plan.pop("p_line", 0.0), "p_block": plan.pop("p_block", 0.0),
                             "p_stall": plan.pop("p_stall", 0.0)}
        return plan

    # ---- one run
    def run(self, plan, trace=False):
        # a plan is exactly its JSON text: a freshly generated plan can share sub-objects (marshal then writes
        # back-references and the message gets shorter) which the same plan loaded from a replay file does not
        plan = json.loads(json.dumps(plan))
        seams.reset_between_runs()
        sched = S.Sched(plan["sched"], max_steps=self.MAX_STEPS)
        if trace:
            sched.trace = []
        sched.wall_steps = [list(j) for j in plan.get("clock_jumps", [])]
        sched.adopt_main()
        net = N.Net(sched, plan.get("net"))
        ctx = Ctx(self, plan, sched, net)
        harness = None
        gc_was = gc.isenabled()
        gc.disable()
        seams.install(sched, net, uuid_seed=plan.get("seed", 0) ^ 0xABCDEF, line_codes=self.line_codes(plan))
        for item, val in sorted((plan.get("pyro_config") or {}).items()):
            setattr(seams.config, item, val)
            ctx.probe("config:" + item)
        log_was = None
        if plan.get("debuglog"):
            # log calls are really made (arguments evaluated, records built) and discarded by a NullHandler: no handler lock,
            # no I/O; the harness's own logging.disable(CRITICAL) is lifted for the run
            import logging as _lg
            plog = _lg.getLogger("Pyro5")
            log_was = (_lg.root.manager.disable, plog.level, plog.propagate, list(plog.handlers))
            _lg.disable(_lg.NOTSET)
            plog.setLevel(_lg.DEBUG)
            plog.propagate = False
            plog.handlers[:] = [_lg.NullHandler()]
            ctx.probe("config:DEBUGLOG")
        import time as _t
        CURRENT.update(sched=sched, t0=_t.time(), hits=0, steps=-1, lines=-1)
        # exceptions that Python cannot raise anywhere (a generator's clean-up code failing when the generator is dropped, a
        # failing __del__) are reported through sys.unraisablehook: workload objects provoke them on purpose; keep stderr clean
        import sys as _sys
        unraisable_was = _sys.unraisablehook
        _sys.unraisablehook = lambda *a: None
        try:
            try:
                self.scenario(ctx)
            except S.BusyLoop as e:
                fr = S._pyro_frame(e)
                if fr is None:
                    harness = "busy loop outside Pyro5 code (harness bug?)"
                else:
                    ctx.violate("busy-loop", fr, "the code under test ran for %.0f wall seconds without reaching a yield point (spinning in %s)"
                                % (BUSY_AFTER_S, fr))
            except S.StepCap as e:
                dom = sched.dominant_thread()
                if dom is not None and dom[0] not in ("driver",) and not dom[0].startswith(self.HARNESS_THREAD_PREFIXES):
                    # the code under test spins through yield points without virtual time ever advancing: a livelock
                    ctx.violate("livelock", dom[0], "thread %r took %d scheduler steps at one virtual instant (step cap %d reached): "
                                "the code under test is spinning" % (dom[0], dom[1], self.MAX_STEPS))
                else:
                    harness = "step-cap: %s (dominant thread %r)" % (e, dom)
            except S.Deadlock as e:
                harness = "deadlock: %s" % e
            except seams.SeamEscape as e:
                harness = "seam-escape: %s" % e
            except S.HarnessError as e:
                harness = "harness: %s" % e
            except Exception:
                harness = "scenario-exception: " + traceback.format_exc()[-1500:]
        finally:
            CURRENT["sched"] = None
            if self.ALLOC_BOMB_VIOLATION and seams.marshalguard.BOMBS and harness is None:
                typ, k, left = seams.marshalguard.BOMBS[0]
                ctx.violations.append({"kind": "decoder-allocation-bomb", "key": "marshal", "msg": "marshal.loads was handed a message that "
                                       "declares a %s of %d elements with %d bytes left: the C decoder allocates that much up front (GIL held); "
                                       "simulated as a failed allocation" % (typ, k, left)})
            if self.SLOW_STEP_THREADS and harness is None:
                for name, secs, kind in sched.slow_steps:
                    if name.startswith(self.SLOW_STEP_THREADS) and not any(v["kind"] == "cpu-stall" for v in ctx.violations):
                        ctx.violations.append({"kind": "cpu-stall", "key": name, "msg": "thread %s of the code under test burnt %.1f CPU "
                                               "seconds in one step (between two yield points, no virtual time passes): every other "
                                               "thread of a real process stands still meanwhile" % (name, secs)})
            for t in sched.deaths:
                if t.died and t.died[0] == "BusyLoop" and not any(v["kind"] == "busy-loop" for v in ctx.violations):
                    if t.died[2] is None:
                        harness = harness or "busy loop outside Pyro5 code in thread %s" % t.name
                    else:
                        ctx.violations.append({"kind": "busy-loop", "key": t.died[2], "msg": "thread %s of the code under test ran for %.0f "
                                               "wall seconds without reaching a yield point (spinning in %s)" % (t.name, BUSY_AFTER_S, t.died[2])})
            for name, where in sched.busy_loops:
                if not any(v["kind"] == "busy-loop" for v in ctx.violations) and harness is None:
                    if where is None:
                        harness = "busy loop outside Pyro5 code in thread %s" % name
                    else:
                        ctx.violations.append({"kind": "busy-loop", "key": where, "msg": "thread %s of the code under test ran for %.0f "
                                               "wall seconds without reaching a yield point (spinning in %s)" % (name, BUSY_AFTER_S, where)})
            leaked = sched.kill_all()
            seams.uninstall()
            sched.dispose()
            if log_was is not None:
                import logging as _lg
                plog = _lg.getLogger("Pyro5")
                plog.handlers[:] = log_was[3]
                plog.propagate = log_was[2]
                plog.setLevel(log_was[1])
                _lg.disable(log_was[0])
            _sys.unraisablehook = unraisable_was
            if gc_was:
                gc.enable()
        if leaked and harness is None:
            harness = "leaked threads: %s" % leaked
        res = {
            "violations": ctx.violations,
            "disturbed": ctx.disturbed,
            "harness": harness,
            "probes": dict(ctx.probes),
            "faults": dict(ctx.faults),
            "digest": sched.digest(),
            "sched_digest": sched.sched_digest(),
            "steps": sched.steps,
            "switches": sched.switches,
            "preempts": sched.preempts,
            "stalls": sched.stalls,
            "sim_s": sched.now - S.EPOCH,
            "choices": sched.choices,
            "nontrivial": bool(ctx.nontrivial),
            "info": ctx.info,
        }
        if trace:
            res["trace"] = sched.trace
        ctx.sched = ctx.net = None
        return res


def signature(prop, v):
    return "%s/%s/%s" % (prop, v["kind"], v["key"]) if v.get("key") else "%s/%s" % (prop, v["kind"])
