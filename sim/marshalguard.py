"""Allocation seam for marshal.loads.

CPython's marshal decoder allocates a tuple / list / set / long of the DECLARED size before it reads a single element.
A 26-byte message with one flipped bit can declare a 1.9-billion-element tuple: the interpreter then tries to allocate
~15 GB inside C code, with the GIL held - the whole process stalls for minutes or is killed (seen as a dead worker
process in a C05 soak run).  That is a failing-allocation fault the simulator has to own: this guard walks the marshal
stream without allocating, and where a container declares more elements than there are bytes left it records an
"allocation bomb" and raises MemoryError (the allocation fails) instead of letting the real decoder try.
Everything else is passed to the real marshal.loads unchanged.
"""
import marshal as _marshal

_real_loads = _marshal.loads
BOMBS = []          # filled during a run: (type code, declared size, bytes left)


class _Stop(Exception):
    pass


class _Refuse(Exception):
    pass


def _scan(b):
    n = len(b)
    pos = 0
    depth = 0

    def u8():
        nonlocal pos
        if pos + 1 > n:
            raise _Stop()
        v = b[pos]
        pos += 1
        return v

    def i32():
        nonlocal pos
        if pos + 4 > n:
            raise _Stop()
        v = int.from_bytes(b[pos:pos + 4], "little", signed=True)
        pos += 4
        return v

    def skip(k):
        nonlocal pos
        if k < 0 or pos + k > n:
            raise _Stop()
        pos += k

    def obj():
        nonlocal depth
        depth += 1
        if depth > 1900:
            raise _Stop()
        code = chr(u8() & 0x7f)
        if code in "0NFTS.":
            pass
        elif code == "i":
            skip(4)
        elif code == "g":
            skip(8)
        elif code == "y":
            skip(16)
        elif code == "f":
            skip(u8())
        elif code == "x":
            skip(u8())
            skip(u8())
        elif code == "l":
            k = abs(i32())
            if 2 * k > n - pos:
                BOMBS.append(("long", k, n - pos))
                raise MemoryError("simulated allocation failure: marshal data declares a %d-digit long in %d bytes" % (k, n - pos))
            skip(2 * k)
        elif code in "stuaA":
            skip(i32())
        elif code in "zZ":
            skip(u8())
        elif code in "([<>)":
            k = u8() if code == ")" else i32()
            if k < 0:
                raise _Stop()
            if k > n - pos:
                BOMBS.append(({"(": "tuple", "[": "list", "<": "set", ">": "frozenset", ")": "tuple"}[code], k, n - pos))
                raise MemoryError("simulated allocation failure: marshal data declares %d elements in %d bytes" % (k, n - pos))
            for _ in range(k):
                obj()
        elif code == "{":
            while True:
                if pos < n and chr(b[pos] & 0x7f) == "0":
                    skip(1)
                    break
                obj()
                obj()
        elif code == "r":
            skip(4)
        elif code == "c":
            raise _Refuse()
        else:
            raise _Stop()
        depth -= 1

    obj()


def guarded_loads(data, *a, **k):
    try:
        b = bytes(data)
    except TypeError:
        return _real_loads(data, *a, **k)
    try:
        _scan(b)
    except _Stop:
        pass            # truncated / unknown to marshal itself: the real decoder rejects it at the same place
    except _Refuse:
        raise ValueError("bad marshal data (code objects are not decoded in the simulation)")
    except RecursionError:
        raise ValueError("bad marshal data (simulated: nesting too deep)")
    return _real_loads(data, *a, **k)


def install():
    del BOMBS[:]
    _marshal.loads = guarded_loads


def uninstall():
    _marshal.loads = _real_loads
